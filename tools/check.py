#!/usr/bin/env python3
"""check <ID> [--tier quick|thorough] [--replay FILE]

Runs the machinery that decides one property (DESIGN.md section 3):
  1. regenerate SecpZkp/Gen/* from /repo/src (tools/c2lean.py), 2. lake build (theorems re-checked),
  3. audit (forbidden tokens, #print axioms), 4. build the harness from /repo's working tree and run the
  correspondence (implementation vs compiled Lean model) on generated cases, 5. verdict, 6. evidence.
Exit 0 = property held on everything explored; exit 1 + "VIOLATION property=<id> replay=<path>".
"""
import sys, os, json, time, subprocess, hashlib, importlib, re, shutil, argparse, concurrent.futures

ROOT = os.path.dirname(os.path.dirname(os.path.abspath(__file__)))
sys.path.insert(0, os.path.join(ROOT, 'tools'))
REPO = os.environ.get('VERIF_REPO', '/repo')
LEAN = os.path.join(ROOT, 'lean')
BUILD = os.path.join(ROOT, 'build')
EVID = os.path.join(ROOT, 'evidence')
NPROC = int(os.environ.get('VERIF_JOBS', '16'))
IMPL_TIMEOUT = int(os.environ.get('VERIF_IMPL_TIMEOUT', '900'))

import props  # per-property configuration


def log(*a):
    print('[check]', *a, file=sys.stderr, flush=True)


def run(cmd, **kw):
    return subprocess.run(cmd, stdout=subprocess.PIPE, stderr=subprocess.STDOUT, text=True, **kw)


# ----------------------------------------------------------------------------------------------
# harness builds
CONFIGS = {
    # name: (compiler flags, env)
    'default': ['-O1', '-DECMULT_WINDOW_SIZE=15', '-DCOMB_BLOCKS=43', '-DCOMB_TEETH=6'],
    'asm': ['-O1', '-DUSE_ASM_X86_64=1', '-DECMULT_WINDOW_SIZE=15', '-DCOMB_BLOCKS=43', '-DCOMB_TEETH=6'],
    'int128struct': ['-O1', '-DUSE_FORCE_WIDEMUL_INT128_STRUCT=1', '-DECMULT_WINDOW_SIZE=8', '-DCOMB_BLOCKS=11', '-DCOMB_TEETH=6'],
    'int64': ['-O1', '-DUSE_FORCE_WIDEMUL_INT64=1', '-DECMULT_WINDOW_SIZE=2', '-DCOMB_BLOCKS=2', '-DCOMB_TEETH=5'],
    'verify': ['-O1', '-DVERIFY', '-DECMULT_WINDOW_SIZE=15', '-DCOMB_BLOCKS=43', '-DCOMB_TEETH=6'],
    'o2': ['-O2', '-DECMULT_WINDOW_SIZE=15', '-DCOMB_BLOCKS=43', '-DCOMB_TEETH=6'],
    # what ./configure defines when the compiler has the builtins (the cmake build of the pinned suite never does):
    # compiles the __builtin_popcount branch of secp256k1_count_bits_set and the __builtin_clzll branch of secp256k1_clz64_var
    'builtins': ['-O1', '-DHAVE_BUILTIN_POPCOUNT=1', '-DHAVE_BUILTIN_CLZLL=1', '-DECMULT_WINDOW_SIZE=15', '-DCOMB_BLOCKS=43', '-DCOMB_TEETH=6'],
    'o1plain': ['-O1', '-DECMULT_WINDOW_SIZE=15', '-DCOMB_BLOCKS=43', '-DCOMB_TEETH=6'],
    'tsan': ['-O1', '-fsanitize=thread', '-DECMULT_WINDOW_SIZE=15', '-DCOMB_BLOCKS=43', '-DCOMB_TEETH=6'],
}
SAN = ['-fsanitize=address,undefined', '-fno-sanitize-recover=all']


def src_fingerprint():
    """hash of every file under /repo/src and /repo/include and /verif/harness (the working tree, not HEAD)"""
    h = hashlib.sha256()
    for base in (os.path.join(REPO, 'src'), os.path.join(REPO, 'include'), os.path.join(ROOT, 'harness')):
        for dp, dn, fn in sorted(os.walk(base)):
            dn.sort()
            for f in sorted(fn):
                if f.endswith(('.c', '.h')):
                    p = os.path.join(dp, f)
                    h.update(p.encode()); h.update(open(p, 'rb').read())
    return h.hexdigest()[:16]


def build_harness(config, sanitize=True, extra=()):
    os.makedirs(BUILD, exist_ok=True)
    fp = src_fingerprint()
    name = 'harness_%s%s' % (config, '' if sanitize else '_nosan')
    out = os.path.join(BUILD, name)
    stamp = out + '.stamp'
    if os.path.exists(out) and os.path.exists(stamp) and open(stamp).read() == fp:
        return out, None
    cmd = ['gcc', '-g', '-std=gnu99', '-DSECP256K1_ZKP_VERIF', '-I' + REPO, '-I' + os.path.join(REPO, 'src'),
           '-I' + os.path.join(ROOT, 'harness'), '-w'] + CONFIGS[config] + (SAN if sanitize else []) + list(extra) + \
          [os.path.join(ROOT, 'harness', 'harness.c'), '-o', out]
    r = run(cmd)
    if r.returncode != 0:
        return None, r.stdout[-4000:]
    open(stamp, 'w').write(fp)
    return out, None


# ----------------------------------------------------------------------------------------------
# Lean side
def lake_build(targets):
    t0 = time.time()
    r = run(['lake', 'build'] + targets, cwd=LEAN)
    if r.returncode != 0 and not re.search(r'^error: .*\.lean:\d+:\d+', r.stdout, re.M):
        # no Lean diagnostic in the output: the build TOOL failed (killed under memory pressure, lock contention, ...);
        # the build is incremental, so one retry is cheap and a real proof failure fails again with its diagnostic
        time.sleep(5)
        r = run(['lake', 'build'] + targets, cwd=LEAN)
    return r.returncode == 0, r.stdout, time.time() - t0


FORBIDDEN = re.compile(r'\b(sorry|admit|native_decide|bv_decide|implemented_by|unsafe)\b|^axiom |maxHeartbeats 0', re.M)


def strip_comments(src):
    src = re.sub(r'/-.*?-/', lambda m: '\n' * m.group(0).count('\n'), src, flags=re.S)
    src = re.sub(r'--.*', '', src)
    return src


def audit_sources():
    """grep all Lean sources of the library for forbidden constructs (comments stripped)."""
    hits = []
    for dp, dn, fn in os.walk(os.path.join(LEAN, 'SecpZkp')):
        for f in fn:
            if f.endswith('.lean'):
                p = os.path.join(dp, f)
                s = strip_comments(open(p).read())
                for m in FORBIDDEN.finditer(s):
                    line = s[:m.start()].count('\n') + 1
                    # `partial`/`unsafe` in Driver (IO loop) is not part of any theorem; only Model/Proofs/Props/Gen count
                    hits.append('%s:%d: %s' % (os.path.relpath(p, LEAN), line, m.group(0).strip()))
    return hits


def theorems_of(module_file):
    s = strip_comments(open(module_file).read())
    names = []
    ns = []
    for line in s.split('\n'):
        m = re.match(r'\s*namespace\s+(\S+)', line)
        if m: ns.append(m.group(1)); continue
        m = re.match(r'\s*end\s+(\S+)', line)
        if m and ns and ns[-1] == m.group(1): ns.pop(); continue
        m = re.match(r'\s*(?:@\[[^\]]*\]\s*)?(private\s+|protected\s+)?theorem\s+(\S+)', line)
        if m and not (m.group(1) or '').startswith('private'): names.append('.'.join(ns + [m.group(2)]))
    return names


ALLOWED_AXIOMS = {'propext', 'Classical.choice', 'Quot.sound'}


def print_axioms(module, names):
    """returns ({theorem: [axioms]}, raw output) using `#print axioms`; retried once if the tool itself failed
    (e.g. killed under memory pressure) so that a crashed helper is not mistaken for a missing theorem"""
    if not names: return {}, ''
    tmp = os.path.join(BUILD, 'axioms_%s.lean' % module.replace('.', '_'))
    with open(tmp, 'w') as f:
        f.write('import %s\n' % module)
        for n in names: f.write('#print axioms %s\n' % n)
    res, out = {}, ''
    for attempt in range(3):
        r = run(['lake', 'env', 'lean', tmp], cwd=LEAN)
        out = r.stdout
        res = {}
        # names may contain primes: match up to the LAST quote before " depends"/" does not depend"
        for m in re.finditer(r"^'(.+)' depends on axioms: \[([^\]]*)\]", out, re.M):
            res[m.group(1)] = [a.strip() for a in m.group(2).replace('\n', ' ').split(',') if a.strip()]
        for m in re.finditer(r"^'(.+)' does not depend on any axioms", out, re.M):
            res[m.group(1)] = []
        if all(n in res for n in names): break
        time.sleep(5)
    return res, out


# ----------------------------------------------------------------------------------------------
# running cases
def run_model(lines):
    exe = os.path.join(LEAN, '.lake', 'build', 'bin', 'secpmodel')
    if not lines: return []
    nchunks = min(NPROC, max(1, len(lines) // 4))
    # distribute round-robin so that expensive families spread evenly
    chunks = [lines[i::nchunks] for i in range(nchunks)]
    def work(ch):
        p = subprocess.run([exe], input='\n'.join(ch) + '\n', stdout=subprocess.PIPE, stderr=subprocess.PIPE, text=True)
        out = p.stdout.split('\n')
        if out and out[-1] == '': out.pop()
        if len(out) != len(ch):
            out = out + ['ERR model-crashed rc=%d %s' % (p.returncode, p.stderr[-200:].replace('\n', ' '))] * (len(ch) - len(out))
        return out
    with concurrent.futures.ThreadPoolExecutor(nchunks) as ex:
        outs = list(ex.map(work, chunks))
    res = [None] * len(lines)
    for i, o in enumerate(outs):
        res[i::nchunks] = o
    return res


def run_impl(exe, lines, env_extra=None, wrapper=()):
    """Runs the harness; on a crash (sanitizer abort) restarts after the offending line. Returns outputs;
    a crashed line yields 'CRASH <summary>'."""
    env = dict(os.environ)
    env.setdefault('ASAN_OPTIONS', 'detect_leaks=1:abort_on_error=0:exitcode=99')
    env.setdefault('UBSAN_OPTIONS', 'print_stacktrace=1:halt_on_error=1')
    if env_extra: env.update(env_extra)
    res = []
    def work(ch):
        out_all = []
        pos = 0
        while pos < len(ch):
            try:
                p = subprocess.run(list(wrapper) + [exe], input='\n'.join(ch[pos:]) + '\n', stdout=subprocess.PIPE, stderr=subprocess.PIPE, text=True, env=env, timeout=IMPL_TIMEOUT)
            except subprocess.TimeoutExpired as e:
                so = e.stdout.decode() if isinstance(e.stdout, bytes) else (e.stdout or '')
                out = so.split('\n')
                if out and out[-1] == '': out.pop()
                out = out[:len(ch) - pos - 1]
                out_all += out; out_all.append('TIMEOUT after %ds' % IMPL_TIMEOUT); pos += len(out) + 1
                continue
            out = p.stdout.split('\n')
            if out and out[-1] == '': out.pop()
            if len(out) >= len(ch) - pos:
                out_all += out[:len(ch) - pos]
                if p.returncode != 0:
                    # the process finished all lines but exited non-zero (leak report / valgrind error count):
                    # attribute it to single lines by re-running them one by one
                    blamed = False
                    if len(ch) - pos > 1 and len(ch) - pos <= 64:
                        for j in range(pos, len(ch)):
                            q = subprocess.run(list(wrapper) + [exe], input=ch[j] + '\n', stdout=subprocess.PIPE, stderr=subprocess.PIPE, text=True, env=env)
                            if q.returncode != 0:
                                out_all[j] = out_all[j] + ' EXIT-%d %s' % (q.returncode, summarize(q.stderr)); blamed = True
                    if not blamed:
                        out_all[-1] = out_all[-1] + ' EXIT-%d %s' % (p.returncode, summarize(p.stderr))
                pos = len(ch)
            else:
                out_all += out
                out_all.append('CRASH rc=%d %s' % (p.returncode, summarize(p.stderr)))
                pos += len(out) + 1
        return out_all
    nchunks = min(NPROC, max(1, len(lines) // 8))
    chunks = [lines[i::nchunks] for i in range(nchunks)]
    with concurrent.futures.ThreadPoolExecutor(nchunks) as ex:
        outs = list(ex.map(work, chunks))
    res = [None] * len(lines)
    for i, o in enumerate(outs):
        res[i::nchunks] = o
    return res


def summarize(stderr):
    m = re.search(r'(ERROR: AddressSanitizer[^\n]*|runtime error:[^\n]*|ERROR: LeakSanitizer[^\n]*|SUMMARY:[^\n]*|==\d+== [A-Z][^\n]*\n==\d+==    at [^\n]*)', stderr)
    s = m.group(1) if m else stderr.strip().split('\n')[-1] if stderr.strip() else ''
    return re.sub(r'\s+', '_', s)[:300]


# ----------------------------------------------------------------------------------------------
def run_ct_valgrind(tier):
    """C06: builds harness/ctime.c (frozen copy of the maintainers' secret-argument list, one TU with the library of
    the current working tree) in several configurations and runs it under valgrind-memcheck with the secrets marked
    undefined. Returns (runs, failures) where a failure carries the valgrind report."""
    os.makedirs(BUILD, exist_ok=True)
    combos = [('default', ['-O2']), ('int64', ['-O2']), ('int128struct', ['-O2'])]
    if tier == 'thorough': combos += [('default', ['-O1']), ('default', ['-O3']), ('asm', ['-O2']), ('int64', ['-O3']), ('int128struct', ['-O1'])]
    runs, failures = [], []
    def one(combo):
        conf, opt = combo
        exe = os.path.join(BUILD, 'ctime_%s_%s' % (conf, opt[0].strip('-')))
        flags = [f for f in CONFIGS[conf] if not f.startswith('-O')]
        r = run(['gcc', '-g', '-std=gnu99', '-w', '-DSECP256K1_ZKP_VERIF', '-I' + REPO, '-I' + os.path.join(REPO, 'src')] + flags + opt +
                [os.path.join(ROOT, 'harness', 'ctime.c'), '-o', exe])
        if r.returncode != 0:
            return [(conf, opt[0], -1, 'build failed: ' + r.stdout[-1500:])]
        res = []
        for variation in (0, 1, 2):
            p = subprocess.run(['valgrind', '-q', '--error-exitcode=97', exe, str(variation)], stdout=subprocess.PIPE, stderr=subprocess.PIPE, text=True)
            res.append((conf, opt[0], variation, '' if p.returncode == 0 else 'rc=%d\n%s' % (p.returncode, p.stderr[-3000:])))
        return res
    with concurrent.futures.ThreadPoolExecutor(min(NPROC, len(combos))) as ex:
        for res in ex.map(one, combos):
            for conf, opt, variation, err in res:
                runs.append({'config': conf, 'opt': opt, 'context_variation': variation, 'ok': err == ''})
                if err: failures.append({'config': conf, 'opt': opt, 'context_variation': variation, 'report': err})
    return runs, failures


# ----------------------------------------------------------------------------------------------
class Ctx:
    """passed to generators"""
    def __init__(self, tier, seed):
        self.tier, self.seed = tier, seed
    def model(self, lines):
        return run_model(lines)


def write_replay(pid, seed, k, payload):
    d = os.path.join(EVID, 'replays')
    os.makedirs(d, exist_ok=True)
    p = os.path.join(d, '%s-%d-%d.json' % (pid, seed, k))
    json.dump(payload, open(p, 'w'), indent=1)
    return p


def manifest_note(pid):
    try:
        import mk_manifest
        return [mk_manifest.TEXT[pid][1]]
    except Exception:
        return []


def load_known():
    p = os.path.join(ROOT, 'known_findings.json')
    if os.path.exists(p): return json.load(open(p))
    return {'findings': [], 'fixed': []}


def main():
    ap = argparse.ArgumentParser()
    ap.add_argument('pid')
    ap.add_argument('--tier', default=os.environ.get('VERIF_TIER', 'quick'))
    ap.add_argument('--replay')
    a = ap.parse_args()
    pid, tier = a.pid, a.tier
    seed = int(os.environ.get('VERIF_SEED', '1'))
    cfg = props.PROPS[pid]
    t0 = time.time()
    os.makedirs(EVID, exist_ok=True); os.makedirs(BUILD, exist_ok=True)
    violations = []   # (replay path, suffix)
    notes = {}
    import glob as _g
    if not a.replay:
        for f in _g.glob(os.path.join(EVID, 'replays', pid + '-*.json')): os.remove(f)

    if a.replay:
        rp = json.load(open(a.replay))
        lines = rp.get('lines') or [rp['line']]
        exe, err = build_harness(rp.get('config', 'default'))
        ok, out, _ = lake_build(['secpmodel'])
        mo = run_model(lines); io = run_impl(exe, lines)
        for l, m, i in zip(lines, mo, io):
            print('op   :', l[:300]); print('model:', m[:300]); print('impl :', i[:300]); print('agree:', m == i)
        return 0

    # ---- 1. translator
    gen_info = {}
    if cfg.get('translate'):
        import c2lean
        gen_info = c2lean.regenerate(cfg['translate'], REPO, LEAN)
        if gen_info.get('errors'):
            notes['translator_errors'] = gen_info['errors']

    # ---- 2. build: property theorems + driver
    import glob as _glob
    prop_files = sorted(_glob.glob(os.path.join(LEAN, 'SecpZkp', 'Props', pid + '.lean')) + _glob.glob(os.path.join(LEAN, 'SecpZkp', 'Props', pid + '_*.lean')))
    prop_modules = ['SecpZkp.Props.' + os.path.basename(f)[:-5] for f in prop_files]
    targets = ['secpmodel'] + prop_modules
    ok, bout, bsec = lake_build(targets)
    log('lake build %s: %s in %.1fs' % (targets, 'ok' if ok else 'FAILED', bsec))
    proof_broken = None
    if not ok:
        # was it the model/driver or a proof? try the driver alone so that the correspondence can still run
        errs = [l for l in bout.split('\n') if l.startswith('error') or 'error:' in l]
        proof_broken = {'kind': 'lake-build', 'errors': errs[:40], 'output': bout[-6000:]}
        lake_build(['secpmodel'])
    # ---- 3. audit
    thms, axmap = [], {}
    if ok and prop_files:
        axout_all = ''
        for pf, pm in zip(prop_files, prop_modules):
            t = theorems_of(pf)
            am, axout = print_axioms(pm, t)
            thms += t; axmap.update(am); axout_all += axout
        bad = {t: [x for x in ax if x not in ALLOWED_AXIOMS] for t, ax in axmap.items()}
        bad = {t: b for t, b in bad.items() if b}
        missing = [t for t in thms if t not in axmap]
        if bad or missing:
            proof_broken = {'kind': 'axiom-audit', 'bad_axioms': bad, 'unresolved': missing, 'output': axout_all[-3000:]}
        hits = audit_sources()
        hits = [h for h in hits if not h.startswith('SecpZkp/Driver/')]
        if hits:
            proof_broken = {'kind': 'forbidden-construct', 'hits': hits}
        if tier == 'thorough' and not proof_broken:
            for pm in prop_modules:
                r = run(['lake', 'env', 'leanchecker', pm], cwd=LEAN)
                notes.setdefault('leanchecker', {})[pm] = 'ok' if r.returncode == 0 else r.stdout[-2000:]
                if r.returncode != 0:
                    proof_broken = {'kind': 'leanchecker', 'module': pm, 'output': r.stdout[-3000:]}
    if gen_info.get('errors'):
        proof_broken = proof_broken or {'kind': 'translator', 'errors': gen_info['errors']}

    # ---- 4. correspondence
    from gen import common
    configs = cfg['configs'][tier]
    gens = cfg['gens']
    rng = common.Rng(seed)
    ctx = Ctx(tier, seed)
    cases = []
    expected = {}     # case index -> published result tokens (standard test vectors kept in the corpus)
    model_ok = os.path.exists(os.path.join(LEAN, '.lake', 'build', 'bin', 'secpmodel'))
    for cp in [pid] + cfg.get('corpus_from', []):
        corpus_dir = os.path.join(ROOT, 'corpus', cp)
        if os.path.isdir(corpus_dir):
            for f in sorted(os.listdir(corpus_dir)):
                pending = None
                for l in open(os.path.join(corpus_dir, f)):
                    l = l.strip()
                    if l.startswith('# expect') and '->' in l: pending = l.split('->', 1)[1].split()   # published result of the next line
                    if l and not l.startswith('//') and not l.startswith('#'):
                        if pending: expected[len(cases)] = pending
                        pending = None
                        cases.append((l, ('corpus', f)))
    for g in gens:
        mod = importlib.import_module('gen.' + g)
        # generators consult only the MODEL (never the implementation), so an internal assertion tripping on an odd
        # random instance is independent of the code under test: retry with a derived seed and record it
        for attempt in range(4):
            try:
                for c in mod.generate(rng if attempt == 0 else common.Rng(seed * 7919 + 104729 * attempt), tier, ctx):
                    if len(c) > 2 and c[2] is not None:       # (line, tag, expected output): the SPECIFIED result, computed independently
                        expected[len(cases)] = c[2].split()
                    cases.append((c[0], c[1]))
                break
            except (AssertionError, IndexError, ValueError, KeyError) as e:
                notes.setdefault('generator_retries', []).append('%s attempt %d: %s: %s' % (g, attempt, type(e).__name__, str(e)[:200]))
                log('generator %s failed on this instance (%s: %s); retrying with a derived seed' % (g, type(e).__name__, str(e)[:100]))
        else:
            raise RuntimeError('generator %s failed 4 times' % g)
    lines = [c[0] for c in cases]
    tags = [c[1] for c in cases]
    log('%d cases generated' % len(lines))
    t1 = time.time()
    mout = run_model(lines) if model_ok else ['ERR no-model'] * len(lines)
    log('model done in %.1fs' % (time.time() - t1))
    disagreements = 0
    hist = {}
    per_config = {}
    known = load_known()
    known_lines = {}      # (line, config or None) -> finding
    for f in known.get('findings', []):
        if f.get('property') == pid and 'line' in f: known_lines[(f['line'], f.get('config'))] = f
    known_hit = set()
    # published vectors / specified results: the MODEL side (for translated kernels: the regenerated code) must reproduce them
    vec_bad = 0
    for k, exp in expected.items():
        got = mout[k].split()
        ok_exp = got[:len(exp)] == exp
        if exp and exp[0].startswith('@valmodp:'):     # '@valmodp:<limb bits>:<hex>': the first output token is a limb list whose VALUE mod p is specified
            _, bits, want = exp[0].split(':')
            try:
                v = sum(int(x, 16) << (int(bits) * i) for i, x in enumerate(got[0].split(',')))
                ok_exp = v % ((1 << 256) - (1 << 32) - 977) == int(want, 16)
            except (ValueError, IndexError):
                ok_exp = False
        if not ok_exp:
            if (lines[k], 'specification') in known_lines:
                known_hit.add((lines[k], 'specification')); continue
            vec_bad += 1
            p = write_replay(pid, seed, len(violations), {'kind': 'model-vs-published-vector' if tags[k][0] == 'corpus' else 'regenerated-code-vs-specification', 'line': lines[k], 'model': mout[k], 'expected_prefix': exp, 'tag': list(tags[k])})
            violations.append((p, ''))
    if expected: log('%d published vectors / specified results checked against the model, %d mismatches' % (len(expected), vec_bad))
    for conf in configs:
        spec = props.CONFIG_RUN.get(conf, {})
        exe, err = build_harness(spec.get('build', conf), sanitize=spec.get('sanitize', True), extra=spec.get('extra', ()))
        if exe is None:
            p = write_replay(pid, seed, len(violations), {'kind': 'harness-build-failed', 'config': conf, 'output': err})
            violations.append((p, 'no-failing-input-found')); continue
        t1 = time.time()
        only = spec.get('only')
        excl = set(cfg.get('exclude', {}).get(conf, []))      # ops whose documented contract a configuration cannot honour (see props.py)
        sel = [k for k, l in enumerate(lines) if ((not only) or l.split(' ', 1)[0] in only) and l.split(' ', 1)[0] not in excl]
        if spec.get('sample') and len(sel) > spec['sample']:
            pref = spec.get('prefer', [])
            first = [k for k in sel if tags[k][0] in pref or lines[k].split(' ', 1)[0] in pref]
            rest = [k for k in sel if k not in set(first)]
            import random as _r
            rr = _r.Random(seed)
            rr.shuffle(first); rr.shuffle(rest)
            corp = [k for k in sel if tags[k][0] == 'corpus']          # corpus lines always run
            first = [k for k in first if tags[k][0] != 'corpus']
            sel = sorted((corp + first + rest)[:max(spec['sample'], len(corp))])
        sub_out = run_impl(exe, [lines[k] for k in sel], env_extra=spec.get('env'), wrapper=spec.get('wrapper', ()))
        iout = ['skip'] * len(lines)
        for k, o in zip(sel, sub_out): iout[k] = o
        log('impl[%s] done in %.1fs' % (conf, time.time() - t1))
        nd = 0
        for k, (l, m, i) in enumerate(zip(lines, mout, iout)):
            fam = tags[k][0]
            hist.setdefault(fam, {'cases': 0, 'classes': set(), 'outs': {}})
            if conf == configs[0]:
                hist[fam]['cases'] += 1; hist[fam]['classes'].add(tags[k][1])
                key = i.split(' ')[0] if i else ''
                hist[fam]['outs'][key] = hist[fam]['outs'].get(key, 0) + 1
            if i == 'skip': continue
            if m != i or m.startswith('ERR') or i.startswith('ERR'):
                kf = (l, conf) if (l, conf) in known_lines else (l, None) if (l, None) in known_lines else None
                if kf is not None:
                    known_hit.add(kf); continue
                nd += 1
                if nd <= 5:
                    p = write_replay(pid, seed, len(violations), {'kind': 'model-impl-disagreement', 'config': conf, 'line': l, 'model': m, 'impl': i, 'tag': list(tags[k])})
                    violations.append((p, ''))
        disagreements += nd
        per_config[conf] = {'cases': len(lines), 'compared': sum(1 for i in iout if i != 'skip'), 'disagreements': nd}

    ct_runs = None
    if cfg.get('ct_valgrind'):
        t1 = time.time()
        ct_runs, ct_fail = run_ct_valgrind(tier)
        log('valgrind constant-time runs: %d, failures %d, %.1fs' % (len(ct_runs), len(ct_fail), time.time() - t1))
        for f in ct_fail[:5]:
            p = write_replay(pid, seed, len(violations), {'kind': 'valgrind-secret-dependent-control-flow', **f,
                             'replay': 'build harness/ctime.c in this configuration and run `valgrind ./ctime %d`' % max(f['context_variation'], 0)})
            violations.append((p, ''))
    for l in known_hit:
        print('KNOWN-FINDING: property=%s %s' % (pid, known_lines[l].get('what', l[0][:80])))

    # ---- 5. proof obligation broken: search result decides the suffix
    if proof_broken:
        if violations and all(s == '' for _, s in violations):
            pass  # a concrete failing input was found by the correspondence: those are the replays
        else:
            p = write_replay(pid, seed, len(violations), {'kind': 'proof-obligation-broken', 'detail': proof_broken,
                                                          'searched_cases': len(lines), 'configs': configs})
            violations.append((p, 'no-failing-input-found'))

    # ---- 6. evidence
    distinct = len(set(lines))
    nontrivial = sum(len(v['classes']) for v in hist.values())
    samples = [{'op': l[:400], 'model': m[:200]} for l, m in list(zip(lines, mout))[:: max(1, len(lines) // 6)]][:8]
    tb = sorted({x for ax in axmap.values() for x in ax})
    ev = {
        'property_id': pid, 'tier': tier, 'seed': seed, 'level': 'proof',
        'coverage': {
            'published_vectors': {'checked': len(expected), 'model_mismatches': vec_bad},
            'obligations': max(1, len(thms) + gen_info.get('obligations', 0)),
            'discharged': (len(thms) + gen_info.get('obligations', 0)) if not proof_broken else 0,
            'checker_cmd': 'cd lean && lake build %s && lake env lean <#print axioms for each theorem>%s' % (' '.join(targets), ' && lake env leanchecker <module>' if tier == 'thorough' else ''),
            'trusted_base': ['Lean 4 kernel', 'Mathlib v4.33 (compiled)'] + ['axiom ' + x for x in tb] +
                            ['tools/c2lean.py translation (clang-14 AST)' if cfg.get('translate') else 'no translated targets for this property yet',
                             'correspondence harness + generators (differential testing of model vs implementation)'],
            'theorems': [{'name': t, 'axioms': axmap.get(t)} for t in thms],
            'translated': gen_info.get('targets', []),
            'evaluations': len(lines) * max(1, len(configs)),
            'distinct_nontrivial': nontrivial,
            'distinct_lines': distinct,
            'rule': 'cases are protocol lines from tools/gen/%s; a case counts as non-trivial-distinct once per (family, input class) pair, classes being the generator\'s own labels (boundary class, length, mutation kind); counted over the first configuration' % ','.join(gens),
            'samples': samples,
            'configs': per_config,
            'families': {k: {'cases': v['cases'], 'classes': len(v['classes']), 'result_histogram': dict(sorted(v['outs'].items(), key=lambda kv: -kv[1])[:6])} for k, v in hist.items()},
            'disagreements': disagreements,
            'valgrind_ct_runs': ct_runs,
            'notes': notes,
        },
        'assumptions': cfg.get('assumptions', []) + manifest_note(pid),
        'wall_s': round(time.time() - t0, 2),
        'violations': len(violations),
        'known_findings_reproduced': [{'line': l[0], 'config': l[1], 'what': known_lines[l].get('what', '')[:300]} for l in sorted(known_hit, key=str)],
    }
    if proof_broken:
        # a broken proof obligation: no theorem count is claimed for this run
        ev['coverage'].pop('obligations'); ev['coverage'].pop('discharged')
        ev['coverage']['proof_broken'] = proof_broken.get('kind')
    json.dump(ev, open(os.path.join(EVID, pid + '.json'), 'w'), indent=1)
    for p, suffix in violations:
        print('VIOLATION property=%s replay=%s%s' % (pid, p, (' ' + suffix) if suffix else ''))
    log('%s %s: %d theorems, %d cases x %d configs, %d disagreements, %.1fs' % (pid, tier, len(thms), len(lines), len(configs), disagreements, time.time() - t0))
    return 1 if violations else 0


if __name__ == '__main__':
    sys.exit(main())
