#!/usr/bin/env python3
"""tools/c2lean_k: mode K of the translator — integer kernels of the C sources -> MiniC IR (Lean data).

Front end: clang-14's typed JSON AST (`-ast-dump=json -ast-dump-filter=<fn>`) of a translation unit that
includes /repo/src/secp256k1.c from the CURRENT working tree with all modules enabled, for a given
configuration (native int128 / struct int128 / int64).  Every expression node carries its C type, all
implicit conversions are explicit nodes, macros are expanded: the translation reads the semantics off
the AST instead of re-implementing C's conversion rules.

Supported fragment (anything else is a translation ERROR, reported like a broken proof):
  * unsigned integer arithmetic on 8/32/64/128-bit types; `int` values are modelled as 32-bit two's
    complement (conversions from `int` to wider unsigned types sign-extend, as C does)
  * locals, scalar parameters, pointer parameters to scalars / arrays / structs of arrays
  * assignments, compound assignments, ++/--, if/else, `for (i = a; i < N; i++)` with literal bounds,
    `return`, `?:`, calls to other translatable functions (INLINED, callee locals renamed)
Output: `lean/SecpZkp/Gen/K_<target>.lean` with `def <target> : MiniC.Fn`.
"""
import os, re, json, subprocess, tempfile, hashlib

TU_HEAD = """
#define ENABLE_MODULE_ECDH 1
#define ENABLE_MODULE_RECOVERY 1
#define ENABLE_MODULE_EXTRAKEYS 1
#define ENABLE_MODULE_SCHNORRSIG 1
#define ENABLE_MODULE_MUSIG 1
#define ENABLE_MODULE_ELLSWIFT 1
#define ENABLE_MODULE_GENERATOR 1
#define ENABLE_MODULE_RANGEPROOF 1
#define ENABLE_MODULE_WHITELIST 1
#define ENABLE_MODULE_SURJECTIONPROOF 1
#define ENABLE_MODULE_ECDSA_S2C 1
#define ENABLE_MODULE_ECDSA_ADAPTOR 1
#define ENABLE_MODULE_SCHNORRSIG_HALFAGG 1
#define ENABLE_MODULE_BPPP 1
#include "src/secp256k1.c"
"""

CONFIG_FLAGS = {
    'native': [],
    'struct': ['-DUSE_FORCE_WIDEMUL_INT128_STRUCT=1'],
    'int64': ['-DUSE_FORCE_WIDEMUL_INT64=1'],
}


class Unsupported(Exception):
    pass


class Front:
    """clang JSON AST access with caching per function name"""
    def __init__(self, repo, config='native'):
        self.repo, self.config = repo, config
        self.cache = {}
        self.td = tempfile.mkdtemp(prefix='c2lean')
        import atexit, shutil
        atexit.register(shutil.rmtree, self.td, True)
        self.tu = os.path.join(self.td, 'tu.c')
        open(self.tu, 'w').write(TU_HEAD)
        # on-disk cache of clang's output, keyed by the CONTENT of the current sources: any edit of /repo invalidates it
        h = hashlib.sha256()
        for sub in ('src', 'include'):
            for dp, dn, fn in sorted(os.walk(os.path.join(repo, sub))):
                dn.sort()
                for f in sorted(fn):
                    if f.endswith(('.h', '.c')):
                        fp = os.path.join(dp, f); h.update(fp[len(repo):].encode()); h.update(open(fp, 'rb').read())
        h.update(TU_HEAD.encode()); h.update(' '.join(CONFIG_FLAGS[config]).encode())
        self.srcfp = h.hexdigest()[:24]
        self.cdir = os.environ.get('C2LEAN_CACHE', os.path.join(os.path.dirname(os.path.dirname(os.path.abspath(__file__))), 'build', 'astcache'))
        os.makedirs(self.cdir, exist_ok=True)
        try:    # keep the cache bounded: entries of at most 3 source fingerprints
            ent = [(os.path.getmtime(os.path.join(self.cdir, f)), f) for f in os.listdir(self.cdir)]
            fps = {}
            for t, f in ent: fps[f[:24]] = max(fps.get(f[:24], 0), t)
            keep = set(sorted(fps, key=lambda k: -fps[k])[:3]) | {self.srcfp}
            for t, f in ent:
                if f[:24] not in keep: os.remove(os.path.join(self.cdir, f))
        except OSError:
            pass

    def _clang(self, extra, tag):
        """stdout of clang on the translation unit with the given -Xclang options (cached per source fingerprint)"""
        cf = os.path.join(self.cdir, '%s_%s_%s' % (self.srcfp, self.config, re.sub(r'[^A-Za-z0-9_]', '_', tag)))
        if os.path.exists(cf):
            return 0, open(cf).read(), ''
        cmd = ['clang-14', '-fsyntax-only', '-w', '-I' + self.repo, '-I' + os.path.join(self.repo, 'src'),
               '-DECMULT_WINDOW_SIZE=15', '-DCOMB_BLOCKS=43', '-DCOMB_TEETH=6'] + CONFIG_FLAGS[self.config] + extra + [self.tu]
        r = subprocess.run(cmd, capture_output=True, text=True)
        if r.returncode == 0:
            tmp = cf + '.%d.tmp' % os.getpid()
            open(tmp, 'w').write(r.stdout); os.replace(tmp, cf)
        return r.returncode, r.stdout, r.stderr

    def layouts(self):
        """flattened record layouts of the translation unit (clang -fdump-record-layouts): typename -> [(path, n or None)]
        where n is the array length of the leaf (None for a scalar leaf)"""
        if hasattr(self, '_layouts'): return self._layouts
        rc, so, se = self._clang(['-Xclang', '-fdump-record-layouts'], 'layouts')
        lay = {}
        for blk in so.split('*** Dumping AST Record Layout')[1:]:
            rows = []
            for l in blk.split('\n'):
                m = re.match(r'\s*\d+ \|(\s+)(.*)$', l)
                if m: rows.append((len(m.group(1)), m.group(2).strip()))
            if not rows: continue
            tname = rows[0][1].replace('struct ', '').replace('union ', '').strip()
            leaves, stack = [], []
            for k in range(1, len(rows)):
                depth, text = rows[k]
                ty, _, fld = text.rpartition(' ')
                while stack and stack[-1][0] >= depth: stack.pop()
                is_rec = k + 1 < len(rows) and rows[k + 1][0] > depth
                path = '.'.join([x[1] for x in stack] + [fld])
                if is_rec: stack.append((depth, fld))
                else:
                    ma = re.match(r'(.*)\[(\d+)\]$', ty)
                    leaves.append((path, int(ma.group(2)) if ma else None))
            lay.setdefault(tname, leaves)
        self._layouts = lay
        return lay

    def global_var(self, name):
        """the VarDecl (with initialiser) of a file-scope constant"""
        key = 'var:' + name
        if key in self.cache: return self.cache[key]
        rc, s, se = self._clang(['-Xclang', '-ast-dump=json', '-Xclang', '-ast-dump-filter=' + name], 'ast_' + name)
        dec = json.JSONDecoder(); i = 0; found = None
        while i < len(s):
            while i < len(s) and s[i] in ' \n\r\t': i += 1
            if i >= len(s): break
            d, j = dec.raw_decode(s, i); i = j
            if d.get('kind') == 'VarDecl' and d.get('name') == name and d.get('init'):
                found = d
        if found is None: raise Unsupported('no initialised definition of global ' + name)
        self.cache[key] = found
        return found

    def function(self, name):
        if name in self.cache: return self.cache[name]
        rc, s, se = self._clang(['-Xclang', '-ast-dump=json', '-Xclang', '-ast-dump-filter=' + name], 'ast_' + name)
        if rc != 0:
            raise Unsupported('clang failed on %s: %s' % (name, se[-500:]))
        dec = json.JSONDecoder(); i = 0; found = None
        while i < len(s):
            while i < len(s) and s[i] in ' \n\r\t': i += 1
            if i >= len(s): break
            d, j = dec.raw_decode(s, i); i = j
            if d.get('kind') == 'FunctionDecl' and d.get('name') == name and any(c.get('kind') == 'CompoundStmt' for c in d.get('inner', [])):
                found = d
        if found is None:
            raise Unsupported('no definition of %s in the translation unit (config %s)' % (name, self.config))
        self.cache[name] = found
        return found


def width_of(qt):
    """bit width and signedness of an integer type name as clang prints it"""
    q = qt.replace('const ', '').replace('volatile ', '').replace(' const', '').replace(' volatile', '').strip()
    table = {
        'uint64_t': (64, False), 'unsigned long': (64, False), 'unsigned long long': (64, False), 'size_t': (64, False),
        'uint32_t': (32, False), 'unsigned int': (32, False), 'uint16_t': (16, False), 'unsigned short': (16, False),
        'uint8_t': (8, False), 'unsigned char': (8, False),
        'int': (32, True), 'int32_t': (32, True), 'int64_t': (64, True), 'long': (64, True), 'long long': (64, True),
        'secp256k1_uint128': (128, False), 'uint128_t': (128, False), 'unsigned __int128': (128, False),
        '__uint128_t': (128, False), 'int128_t': (128, True), '__int128': (128, True), 'secp256k1_int128': (128, True),
        'char': (8, True), 'signed char': (8, True), 'short': (16, True), '_Bool': (8, False),
    }
    if q in table: return table[q]
    raise Unsupported('type ' + qt)


# ---- IR construction helpers (Python tuples, printed as Lean terms at the end)
def lit(n): return ('lit', n)
def var(x): return ('var', x)
def idx(a, i): return ('idx', a, i)
def binop(op, w, a, b): return ('bin', op, w, a, b)
def cast(w, e): return ('cast', w, e)

BINOPS = {'+': 'add', '-': 'sub', '*': 'mul', '&': 'and', '|': 'or', '^': 'xor', '<<': 'shl', '>>': 'shr',
          '<': 'lt', '<=': 'le', '==': 'eq', '!=': 'ne'}


class Translator:
    def __init__(self, front, unroll=True):
        self.front = front
        self.unroll = unroll
        self.counter = 0
        self.scalars, self.arrays = [], []
        self.prologue, self.globals = [], {}

    def fresh(self, base):
        self.counter += 1
        return '%s_%d' % (base, self.counter)

    # ---------------------------------------------------------------- lvalues
    # an lvalue descriptor: ('var', name) | ('elem', arrayname, indexexpr) | ('array', name) | ('struct', prefix)
    def lvalue(self, n, env):
        k = n['kind']
        if k == 'ParenExpr': return self.lvalue(n['inner'][0], env)
        if k == 'DeclRefExpr':
            d = n['referencedDecl']
            if d['id'] in env: return env[d['id']]
            if d.get('kind') == 'VarDecl': return self.global_const(d['name'])
            raise Unsupported('reference to %s %s (global?)' % (d.get('kind'), d.get('name')))
        if k == 'UnaryOperator' and n['opcode'] == '*':
            p = self.pointer(n['inner'][0], env)
            if p[0] == 'array': return ('elem', p[1], ('lit', 0))
            return p
        if k == 'ArraySubscriptExpr':
            base = self.pointer(n['inner'][0], env)
            i, _ = self.expr(n['inner'][1], env)
            if base[0] == 'array': return ('elem', base[1], i)
            if base[0] == 'elem' and base[2] == ('lit', 0): return ('elem', base[1], i)
            raise Unsupported('subscript of ' + str(base))
        if k == 'MemberExpr':
            base = self.lvalue(n['inner'][0], env) if not n.get('isArrow') else self.pointer(n['inner'][0], env)
            if base[0] == 'var': base = ('struct', base[1])     # struct-typed local (e.g. emulated uint128)
            if base[0] == 'struct':
                qt = n['type']['qualType'].replace('const ', '').replace('volatile ', '').strip()
                name = base[1] + '.' + n['name']
                if '[' in qt: return ('array', name)
                if qt.startswith('secp256k1_') and not qt.startswith('secp256k1_uint128') and not qt.startswith('secp256k1_int128'):
                    return ('struct', name)
                return ('var', name)
            raise Unsupported('member of ' + str(base))
        if k == 'ImplicitCastExpr' and n.get('castKind') in ('NoOp', 'ArrayToPointerDecay'):
            return self.lvalue(n['inner'][0], env)
        raise Unsupported('lvalue kind ' + k)

    def pointer(self, n, env):
        """what a pointer-valued expression points to (as an lvalue descriptor)"""
        k = n['kind']
        if k == 'ParenExpr': return self.pointer(n['inner'][0], env)
        if k in ('ImplicitCastExpr', 'CStyleCastExpr'):
            ck = n.get('castKind')
            if ck in ('LValueToRValue', 'NoOp', 'BitCast'):
                inner = n['inner'][0]
                if ck == 'LValueToRValue':
                    lv = self.lvalue(inner, env)   # a pointer variable: env maps it to its target
                    return lv
                return self.pointer(inner, env)
            if ck == 'ArrayToPointerDecay':
                return self.lvalue(n['inner'][0], env)
            raise Unsupported('pointer cast ' + str(ck))
        if k == 'UnaryOperator' and n['opcode'] == '&':
            return self.lvalue(n['inner'][0], env)
        if k == 'DeclRefExpr':
            return self.lvalue(n, env)
        if k == 'BinaryOperator' and n['opcode'] == '+':
            base = self.pointer(n['inner'][0], env); off, _ = self.expr(n['inner'][1], env)
            if base[0] == 'array': return ('elem', base[1], off)
            raise Unsupported('pointer arithmetic on ' + str(base))
        raise Unsupported('pointer expression kind ' + k)

    def assigned_in(self, n, decl_id):
        """does the AST subtree write to (or take the address of) the declaration?"""
        k = n.get('kind')
        def refers(m):
            while m.get('kind') in ('ParenExpr',): m = m['inner'][0]
            return m.get('kind') == 'DeclRefExpr' and m['referencedDecl']['id'] == decl_id
        if k in ('CompoundAssignOperator',) or (k == 'BinaryOperator' and n.get('opcode') == '='):
            if refers(n['inner'][0]): return True
        if k == 'UnaryOperator' and n.get('opcode') in ('++', '--', '&') and refers(n['inner'][0]): return True
        return any(self.assigned_in(c, decl_id) for c in n.get('inner', []) if isinstance(c, dict))

    def read(self, lv):
        if lv[0] == 'const': return lit(lv[1])
        if lv[0] == 'var': return var(lv[1])
        if lv[0] == 'elem': return idx(lv[1], lv[2])
        raise Unsupported('reading ' + str(lv))

    def write(self, lv, e, out):
        if lv[0] == 'var': out.append(('assign', lv[1], e))
        elif lv[0] == 'elem': out.append(('store', lv[1], lv[2], e))
        else: raise Unsupported('writing ' + str(lv))

    # ---------------------------------------------------------------- expressions
    def convert(self, e, src, dst):
        (ws, ss), (wd, sd) = src, dst
        if wd == ws: return e
        if wd < ws: return cast(wd, e)
        # widening
        if ss:   # sign extension:  ((v xor m) - m) mod 2^wd,  m = 2^(ws-1)
            m = 1 << (ws - 1)
            return binop('sub', wd, binop('xor', wd, e, lit(m)), lit(m))
        return e

    def expr(self, n, env, out=None):
        """returns (IR expr, (width, signed)); side effects (calls with results) append to `out`"""
        k = n['kind']
        if k == 'ParenExpr': return self.expr(n['inner'][0], env, out)
        if k == 'ConstantExpr': return self.expr(n['inner'][0], env, out)
        if k == 'IntegerLiteral':
            return lit(int(n['value'])), width_of(n['type']['qualType'])
        if k == 'CharacterLiteral':
            return lit(int(n['value'])), width_of(n['type']['qualType'])
        if k in ('ImplicitCastExpr', 'CStyleCastExpr'):
            ck = n.get('castKind')
            inner = n['inner'][0]
            if ck == 'LValueToRValue':
                lv = self.lvalue(inner, env)
                return self.read(lv), width_of(n['type']['qualType'])
            if ck in ('IntegralCast', 'NoOp', 'IntegralToBoolean'):
                e, t = self.expr(inner, env, out)
                dst = width_of(n['type']['qualType'])
                if ck == 'IntegralToBoolean': return binop('ne', t[0], e, lit(0)), dst
                return self.convert(e, t, dst), dst
            if ck == 'ToVoid':
                return lit(0), (32, True)
            raise Unsupported('cast kind %s' % ck)
        if k == 'DeclRefExpr':
            d = n['referencedDecl']
            if d.get('kind') == 'EnumConstantDecl': raise Unsupported('enum constant')
            raise Unsupported('bare lvalue use of ' + str(d.get('name')))
        if k == 'UnaryOperator':
            op = n['opcode']
            if op in ('~', '-', '!', '+'):
                e, t = self.expr(n['inner'][0], env, out)
                rt = width_of(n['type']['qualType'])
                if op == '~': return ('not', rt[0], e), rt
                if op == '-': return ('neg', rt[0], e), rt
                if op == '+': return e, rt
                return ('lnot', e), rt
            raise Unsupported('unary ' + op + ' in expression')
        if k == 'BinaryOperator':
            op = n['opcode']
            if op == ',':
                self.stmt_expr(n['inner'][0], env, out)
                return self.expr(n['inner'][1], env, out)
            if op in ('&&', '||'):
                a, ta = self.expr(n['inner'][0], env, out); b, tb = self.expr(n['inner'][1], env, out)
                # NOTE: C short-circuits; translating to a non-short-circuit form is only valid when the
                # right operand has no side effects (guaranteed: side effects are rejected in expressions)
                na = binop('ne', ta[0], a, lit(0)); nb = binop('ne', tb[0], b, lit(0))
                return ('cond', na, nb, lit(0)) if op == '&&' else ('cond', na, lit(1), nb), (32, True)
            if op not in BINOPS and op not in ('>', '>='): raise Unsupported('binary operator ' + op)
            a, ta = self.expr(n['inner'][0], env, out); b, tb = self.expr(n['inner'][1], env, out)
            if op in ('>', '>='):
                a, b, ta, tb = b, a, tb, ta; op = '<' if op == '>' else '<='
            rt = width_of(n['type']['qualType'])
            if op in ('<', '<=', '==', '!=', '>', '>='):
                if ta[1] or tb[1]:
                    pass   # signed comparison of values assumed non-negative (flags / counters)
                return binop(BINOPS[op], ta[0], a, b), rt
            if op == '>>' and ta[1]: raise Unsupported('right shift of a signed value')
            return binop(BINOPS[op], rt[0], a, b), rt
        if k == 'ConditionalOperator':
            c, tc = self.expr(n['inner'][0], env, out)
            a, ta = self.expr(n['inner'][1], env, out); b, tb = self.expr(n['inner'][2], env, out)
            return ('cond', c, a, b), width_of(n['type']['qualType'])
        if k == 'CallExpr':
            if out is None: raise Unsupported('call in a context without statement output')
            return self.call(n, env, out, want_value=True)
        if k == 'ArraySubscriptExpr' or k == 'MemberExpr':
            lv = self.lvalue(n, env)
            return self.read(lv), width_of(n['type']['qualType'])
        raise Unsupported('expression kind ' + k)

    # ---------------------------------------------------------------- calls (inlined)
    def callee_name(self, n):
        f = n['inner'][0]
        while f['kind'] in ('ImplicitCastExpr', 'ParenExpr'): f = f['inner'][0]
        if f['kind'] != 'DeclRefExpr': raise Unsupported('indirect call')
        return f['referencedDecl']['name']

    def call(self, n, env, out, want_value=False):
        name = self.callee_name(n)
        if name in ('secp256k1_declassify',): return lit(0), (32, True)
        if name in ('memset', 'memcpy', 'memcmp', 'secp256k1_memclear_explicit', 'secp256k1_memcmp_var'):
            raise Unsupported('libc/memory call ' + name)
        fd = self.front.function(name)
        params = [c for c in fd['inner'] if c['kind'] == 'ParmVarDecl']
        body = [c for c in fd['inner'] if c['kind'] == 'CompoundStmt'][0]
        args = n['inner'][1:]
        cenv = {}
        tag = self.fresh(name.replace('secp256k1_', ''))
        for p, a in zip(params, args):
            qt = p['type']['qualType']
            if '*' in qt:
                cenv[p['id']] = self.pointer(a, env)
            else:
                e, t = self.expr(a, env, out)
                pt = width_of(qt)
                loc = '%s.%s' % (tag, p['name'])
                ce = fold(self.convert(e, t, pt))
                if ce[0] == 'lit' and not self.assigned_in(body, p['id']):
                    cenv[p['id']] = ('const', ce[1])      # literal argument, parameter never written: propagate
                else:
                    out.append(('assign', loc, ce))
                    cenv[p['id']] = ('var', loc)
        retvar = '%s.ret' % tag
        rt = fd['type']['qualType'].split('(')[0].strip()
        cout = []
        self.block(body, cenv, cout, tag, retvar=retvar, top=False)
        # an inlined callee may `return` only as its very last statement
        def has_marker(ss):
            return any(s[0] == '__return__' or (s[0] == 'ite' and (has_marker(s[2]) or has_marker(s[3]))) or (s[0] == 'loop' and has_marker(s[3])) for s in ss)
        if cout and cout[-1][0] == '__return__': cout = cout[:-1]
        if has_marker(cout): raise Unsupported('early return inside inlined callee ' + name)
        out.extend(cout)
        if rt == 'void': return lit(0), (32, True)
        return var(retvar), width_of(rt)

    # ---------------------------------------------------------------- statements
    def stmt_expr(self, n, env, out):
        """an expression evaluated for its side effects"""
        k = n['kind']
        if k == 'ParenExpr': return self.stmt_expr(n['inner'][0], env, out)
        if k in ('ImplicitCastExpr', 'CStyleCastExpr') and n.get('castKind') in ('ToVoid', 'NoOp', 'LValueToRValue'):
            inner = n['inner'][0]
            if inner['kind'] in ('DeclRefExpr', 'IntegerLiteral', 'MemberExpr', 'ArraySubscriptExpr', 'ParenExpr', 'ImplicitCastExpr', 'UnaryOperator') and not self.has_effect(inner): return
            return self.stmt_expr(inner, env, out)
        if k == 'BinaryOperator' and n['opcode'] == '=':
            lv = self.lvalue(n['inner'][0], env)
            if lv[0] == 'struct':
                self.struct_copy(lv, n['inner'][1], n['inner'][0]['type']['qualType'], env, out); return
            e, t = self.expr(n['inner'][1], env, out)
            self.write(lv, e, out); return
        if k == 'BinaryOperator' and n['opcode'] == ',':
            self.stmt_expr(n['inner'][0], env, out); self.stmt_expr(n['inner'][1], env, out); return
        if k == 'CompoundAssignOperator':
            op = n['opcode'][:-1]
            lv = self.lvalue(n['inner'][0], env)
            lt = width_of(n['inner'][0]['type']['qualType'])
            ct = width_of(n.get('computeResultType', n['type'])['qualType'])
            e, t = self.expr(n['inner'][1], env, out)
            lhs = self.convert(self.read(lv), lt, ct)
            if op in ('<<', '>>'): rhs = e
            else: rhs = self.convert(e, t, ct) if t != ct else e
            if op == '>>' and lt[1]: raise Unsupported('right shift of a signed value')
            r = binop(BINOPS[op], ct[0], lhs, rhs)
            self.write(lv, self.convert(r, ct, lt), out); return
        if k == 'UnaryOperator' and n['opcode'] in ('++', '--'):
            lv = self.lvalue(n['inner'][0], env); t = width_of(n['type']['qualType'])
            self.write(lv, binop('add' if n['opcode'] == '++' else 'sub', t[0], self.read(lv), lit(1)), out); return
        if k == 'CallExpr':
            self.call(n, env, out); return
        if k in ('IntegerLiteral',): return
        if not self.has_effect(n): return
        raise Unsupported('expression statement kind ' + k)

    def global_const(self, name):
        """a `static const` object of the translation unit: materialised once, in the function's prologue, from its initialiser"""
        if name in self.globals: return self.globals[name]
        vd = self.front.global_var(name)
        qt = vd['type']['qualType']
        if 'const' not in qt: raise Unsupported('reference to the non-const global ' + name)
        inits = [c for c in vd.get('inner', []) if 'kind' in c and c['kind'] not in ('FullComment',)]
        if not inits: raise Unsupported('global without initialiser ' + name)
        gname = 'g.' + name
        base = qt.replace('const ', '').replace('volatile ', '').strip()
        items = []
        def flat(n):
            k = n['kind']
            if k == 'InitListExpr':
                t = n['type']['qualType']
                ma = re.match(r'.*\[(\d+)\]$', t)
                kids = [c for c in n.get('inner', []) if isinstance(c, dict) and 'kind' in c]
                if ma and not re.match(r'.*\]\[\d+\]$', t) and not t.startswith('secp256k1_'):
                    items.append(('array', kids, int(ma.group(1))))
                elif ma: raise Unsupported('array of aggregates in the initialiser of ' + name)
                else:
                    for c in kids: flat(c)
            elif k == 'ImplicitValueInitExpr': items.append(('zero', n['type']['qualType']))
            else: items.append(('expr', n))
        flat(inits[0])
        if '[' in base:
            if len(items) != 1 or items[0][0] != 'array': raise Unsupported('initialiser shape of ' + name)
            for i in range(items[0][2]):
                e = self.expr(items[0][1][i], {}, self.prologue)[0] if i < len(items[0][1]) else lit(0)
                self.prologue.append(('store', gname, lit(i), fold(e)))
            r = ('array', gname)
        elif base.startswith('secp256k1_') and not re.match(r'secp256k1_u?int128', base):
            lay = self.front.layouts().get(base)
            if lay is None: raise Unsupported('no record layout for ' + base)
            if len(lay) != len(items): raise Unsupported('initialiser of %s has %d leaves, layout %d' % (name, len(items), len(lay)))
            for (path, n), it in zip(lay, items):
                if n is None:
                    e = lit(0) if it[0] == 'zero' else self.expr(it[1], {}, self.prologue)[0]
                    self.prologue.append(('assign', gname + '.' + path, fold(e)))
                else:
                    if it[0] == 'zero': kids = []
                    elif it[0] == 'array': kids = it[1]
                    else: raise Unsupported('initialiser shape of ' + name)
                    for i in range(n):
                        e = self.expr(kids[i], {}, self.prologue)[0] if i < len(kids) else lit(0)
                        self.prologue.append(('store', gname + '.' + path, lit(i), fold(e)))
            r = ('struct', gname)
        else:
            if len(items) != 1 or items[0][0] != 'expr': raise Unsupported('initialiser shape of ' + name)
            e, t = self.expr(items[0][1], {}, self.prologue)
            ce = fold(self.convert(e, t, width_of(base)))
            r = ('const', ce[1]) if ce[0] == 'lit' else None
            if r is None: raise Unsupported('non-literal scalar global ' + name)
        self.globals[name] = r
        return r

    def struct_copy(self, dst, rhs, qt, env, out):
        """`dst = rhs` for a struct type: field-wise copy following clang's record layout"""
        while rhs['kind'] in ('ParenExpr', 'ImplicitCastExpr') and (rhs['kind'] == 'ParenExpr' or rhs.get('castKind') in ('LValueToRValue', 'NoOp')):
            rhs = rhs['inner'][0]
        src = self.lvalue(rhs, env)
        if src[0] != 'struct': raise Unsupported('struct assignment from ' + str(src))
        tname = qt.replace('const ', '').replace('volatile ', '').strip()
        lay = self.front.layouts().get(tname)
        if lay is None: raise Unsupported('no record layout for ' + tname)
        for path, n in lay:
            if n is None: out.append(('assign', dst[1] + '.' + path, var(src[1] + '.' + path)))
            else:
                for i in range(n): out.append(('store', dst[1] + '.' + path, lit(i), idx(src[1] + '.' + path, lit(i))))

    def has_effect(self, n):
        k = n['kind']
        if k in ('CallExpr', 'CompoundAssignOperator'): return True
        if k == 'BinaryOperator' and n['opcode'] == '=': return True
        if k == 'UnaryOperator' and n['opcode'] in ('++', '--'): return True
        return any(self.has_effect(c) for c in n.get('inner', []) if isinstance(c, dict))

    def block(self, n, env, out, tag, retvar=None, top=True):
        for s in n.get('inner', []):
            self.stmt(s, env, out, tag, retvar, top)

    def stmt(self, s, env, out, tag, retvar, top):
        k = s['kind']
        if k == 'CompoundStmt': return self.block(s, env, out, tag, retvar, top)
        if k == 'NullStmt': return
        if k == 'DoStmt':
            # `do { ... } while(0)` from macros
            body, cond = s['inner'][0], s['inner'][1]
            c = cond
            while c['kind'] in ('ParenExpr', 'ImplicitCastExpr'): c = c['inner'][0]
            if c['kind'] == 'IntegerLiteral' and int(c['value']) == 0:
                return self.stmt(body, env, out, tag, retvar, top)
            raise Unsupported('do-while loop')
        if k == 'DeclStmt':
            for d in s['inner']:
                if d['kind'] != 'VarDecl':
                    if d['kind'] in ('StaticAssertDecl', 'TypedefDecl'): continue
                    raise Unsupported('declaration ' + d['kind'])
                qt = d['type']['qualType']
                name = ('%s.%s' % (tag, d['name'])) if tag else d['name']
                if '[' in qt:
                    env[d['id']] = ('array', name)
                    init = [c for c in d.get('inner', []) if c['kind'] == 'InitListExpr']
                    if init:
                        for i, c in enumerate(init[0].get('inner', [])):
                            e, t = self.expr(c, env, out); out.append(('store', name, lit(i), e))
                    continue
                if qt.startswith('secp256k1_') and not re.match(r'secp256k1_u?int128', qt):
                    env[d['id']] = ('struct', name)
                    inits = [c for c in d.get('inner', []) if 'kind' in c and c['kind'] not in ('FullComment',)]
                    if inits:
                        if inits[0]['kind'] == 'InitListExpr': raise Unsupported('struct initialiser list')
                        self.struct_copy(('struct', name), inits[0], qt, env, out)
                    continue
                if '*' in qt: raise Unsupported('pointer local ' + d['name'])
                env[d['id']] = ('var', name)
                inits = [c for c in d.get('inner', []) if 'kind' in c and c['kind'] not in ('FullComment',)]
                if inits:
                    e, t = self.expr(inits[0], env, out)
                    out.append(('assign', name, e))
            return
        if k == 'ReturnStmt':
            if s.get('inner'):
                e, t = self.expr(s['inner'][0], env, out)
                if top: out.append(('ret', e))
                else:
                    out.append(('assign', retvar, e)); out.append(('__return__',))
            else:
                if top: out.append(('ret', lit(0)))
                else: out.append(('__return__',))
            return
        if k == 'IfStmt':
            inner = s['inner']
            c, tc = self.expr(inner[0], env, out)
            t_out, e_out = [], []
            self.stmt(inner[1], env, t_out, tag, retvar, top)
            if len(inner) > 2: self.stmt(inner[2], env, e_out, tag, retvar, top)
            out.append(('ite', c, t_out, e_out)); return
        if k == 'ForStmt':
            init, cond, inc, body = s['inner'][0], s['inner'][2], s['inner'][3], s['inner'][4]
            # canonical:  i = a ; i < N ; i++   (or DeclStmt init)
            pre = []
            if init.get('kind') == 'DeclStmt': self.stmt(init, env, pre, tag, retvar, top)
            elif init and init.get('kind'): self.stmt_expr(init, env, pre)
            if len(pre) != 1 or pre[0][0] != 'assign' or pre[0][2][0] != 'lit': raise Unsupported('for-init not `i = literal`')
            ivar, start = pre[0][1], pre[0][2][1]
            c = cond
            while c['kind'] in ('ParenExpr', 'ImplicitCastExpr') and c.get('castKind') != 'LValueToRValue': c = c['inner'][0]
            if c['kind'] != 'BinaryOperator' or c['opcode'] not in ('<', '<='): raise Unsupported('for-cond')
            bound, _ = self.expr(c['inner'][1], env)
            lhs, _ = self.expr(c['inner'][0], env)
            if lhs != var(ivar) or bound[0] != 'lit': raise Unsupported('for-cond not `i < literal`')
            n_it = bound[1] + (1 if c['opcode'] == '<=' else 0)
            inc_out = []
            self.stmt_expr(inc, env, inc_out)
            if inc_out != [('assign', ivar, binop('add', 32, var(ivar), lit(1)))] and not (len(inc_out) == 1 and inc_out[0][0] == 'assign' and inc_out[0][1] == ivar and inc_out[0][2][0] == 'bin' and inc_out[0][2][1] == 'add' and inc_out[0][2][4] == lit(1)):
                raise Unsupported('for-increment not i++')
            b_out = []
            self.stmt(body, env, b_out, tag, retvar, top)
            if self.unroll:
                for i in range(start, n_it):
                    out.append(('assign', ivar, lit(i)))
                    out.extend(subst_list(b_out, ivar, i))
            else:
                if start != 0: raise Unsupported('loop not starting at 0')
                out.append(('loop', ivar, n_it, b_out))
            return
        # expression statements
        self.stmt_expr(s, env, out)

    # ---------------------------------------------------------------- whole functions
    def function(self, name):
        fd = self.front.function(name)
        params = [c for c in fd['inner'] if c['kind'] == 'ParmVarDecl']
        body = [c for c in fd['inner'] if c['kind'] == 'CompoundStmt'][0]
        env = {}
        scalars, arrays = [], []
        for p in params:
            qt = p['type']['qualType']
            if '*' in qt:
                base = qt.replace('const ', '').replace('*', '').replace('restrict', '').replace('__restrict', '').strip()
                if base.startswith('secp256k1_') and (not re.match(r'secp256k1_u?int128', base) or self.front.config == 'struct'):
                    env[p['id']] = ('struct', p['name'])      # (emulated int128: a struct {lo, hi})
                else:
                    env[p['id']] = ('array', p['name']); arrays.append(p['name'])
            else:
                env[p['id']] = ('var', p['name']); scalars.append(p['name'])
        out = []
        self.block(body, env, out, '', top=True)
        out = self.prologue + out
        out = resolve_returns(out)
        return {'name': name, 'scalars': scalars, 'arrays': arrays, 'body': out}


def subst_expr(e, x, v):
    if e[0] == 'var': return lit(v) if e[1] == x else e
    if e[0] == 'lit': return e
    if e[0] == 'idx': return ('idx', e[1], subst_expr(e[2], x, v))
    if e[0] == 'bin': return ('bin', e[1], e[2], subst_expr(e[3], x, v), subst_expr(e[4], x, v))
    if e[0] in ('cast', 'not', 'neg'): return (e[0], e[1], subst_expr(e[2], x, v))
    if e[0] == 'lnot': return ('lnot', subst_expr(e[1], x, v))
    if e[0] == 'cond': return ('cond',) + tuple(subst_expr(c, x, v) for c in e[1:])
    raise Unsupported('subst ' + str(e[0]))


def subst_list(ss, x, v):
    r = []
    for s in ss:
        if s[0] == 'assign': r.append(('assign', s[1], subst_expr(s[2], x, v)))
        elif s[0] == 'store': r.append(('store', s[1], subst_expr(s[2], x, v), subst_expr(s[3], x, v)))
        elif s[0] == 'ite': r.append(('ite', subst_expr(s[1], x, v), subst_list(s[2], x, v), subst_list(s[3], x, v)))
        elif s[0] == 'ret': r.append(('ret', subst_expr(s[1], x, v)))
        elif s[0] == 'loop': r.append(('loop', s[1], s[2], subst_list(s[3], x, v)))
        else: r.append(s)
    return r


def fold(e):
    """constant folding of index expressions after unrolling (only what is needed for literal indices)"""
    if e[0] == 'bin':
        a, b = fold(e[3]), fold(e[4])
        if a[0] == 'lit' and b[0] == 'lit':
            w = e[2]; m = 1 << w
            ops = {'add': lambda: (a[1] + b[1]) % m, 'sub': lambda: (a[1] - b[1]) % m, 'mul': lambda: (a[1] * b[1]) % m,
                   'shl': lambda: (a[1] << b[1]) % m, 'shr': lambda: a[1] >> b[1], 'and': lambda: a[1] & b[1],
                   'or': lambda: a[1] | b[1], 'xor': lambda: a[1] ^ b[1]}
            if e[1] in ops: return lit(ops[e[1]]())
        return ('bin', e[1], e[2], a, b)
    if e[0] == 'cast':
        a = fold(e[2])
        if a[0] == 'lit': return lit(a[1] % (1 << e[1]))
        return ('cast', e[1], a)
    if e[0] == 'idx': return ('idx', e[1], fold(e[2]))
    return e


def fold_indices(ss):
    def fe(e):
        if e[0] == 'idx': return ('idx', e[1], fold(fe(e[2])))
        if e[0] == 'bin': return fold(('bin', e[1], e[2], fe(e[3]), fe(e[4])))
        if e[0] == 'cast': return fold(('cast', e[1], fe(e[2])))
        if e[0] in ('not', 'neg'): return (e[0], e[1], fe(e[2]))
        if e[0] == 'lnot': return ('lnot', fe(e[1]))
        if e[0] == 'cond': return ('cond',) + tuple(fe(c) for c in e[1:])
        return e
    r = []
    for s in ss:
        if s[0] == 'assign': r.append(('assign', s[1], fe(s[2])))
        elif s[0] == 'store': r.append(('store', s[1], fold(fe(s[2])), fe(s[3])))
        elif s[0] == 'ite': r.append(('ite', fe(s[1]), fold_indices(s[2]), fold_indices(s[3])))
        elif s[0] == 'ret': r.append(('ret', fe(s[1])))
        elif s[0] == 'loop': r.append(('loop', s[1], s[2], fold_indices(s[3])))
        else: r.append(s)
    return r


def resolve_returns(ss):
    """an inlined callee's `return` may only be the LAST statement of its (straight-line) body: the
    marker is then dropped. Anything else is unsupported."""
    out = []
    for i, s in enumerate(ss):
        if s[0] == '__return__':
            continue   # see check below
        if s[0] == 'ite':
            out.append(('ite', s[1], resolve_returns(s[2]), resolve_returns(s[3])))
        elif s[0] == 'loop':
            out.append(('loop', s[1], s[2], resolve_returns(s[3])))
        else: out.append(s)
    return out


def check_inlined_returns(fn_ast_body):
    pass


# ---------------------------------------------------------------- Lean printing
def lean_expr(e):
    k = e[0]
    if k == 'lit': return '(.lit %d)' % e[1]
    if k == 'var': return '(.var "%s")' % e[1]
    if k == 'idx': return '(.idx "%s" %s)' % (e[1], lean_expr(e[2]))
    if k == 'bin': return '(.bin .%s %d %s %s)' % (e[1], e[2], lean_expr(e[3]), lean_expr(e[4]))
    if k in ('cast', 'not', 'neg'): return '(.%s %d %s)' % (k, e[1], lean_expr(e[2]))
    if k == 'lnot': return '(.lnot %s)' % lean_expr(e[1])
    if k == 'cond': return '(.cond %s %s %s)' % tuple(lean_expr(c) for c in e[1:])
    raise Unsupported('print ' + k)


def lean_stmts(ss, ind):
    pad = ' ' * ind
    items = []
    for s in ss:
        if s[0] == 'assign': items.append('%s.assign "%s" %s' % (pad, s[1], lean_expr(s[2])))
        elif s[0] == 'store': items.append('%s.store "%s" %s %s' % (pad, s[1], lean_expr(s[2]), lean_expr(s[3])))
        elif s[0] == 'ret': items.append('%s.ret %s' % (pad, lean_expr(s[1])))
        elif s[0] == 'ite': items.append('%s.ite %s [\n%s\n%s] [\n%s\n%s]' % (pad, lean_expr(s[1]), lean_stmts(s[2], ind + 2), pad, lean_stmts(s[3], ind + 2), pad))
        elif s[0] == 'loop': items.append('%s.loop "%s" %d [\n%s\n%s]' % (pad, s[1], s[2], lean_stmts(s[3], ind + 2), pad))
        else: raise Unsupported('print stmt ' + s[0])
    return ',\n'.join(items)


def lean_fn(defname, fn, comment):
    return ('/-- %s -/\ndef %s : MiniC.Fn := {\n  name := "%s"\n  scalars := [%s]\n  arrays := [%s]\n  body := [\n%s\n  ]\n}\n' %
            (comment, defname, fn['name'], ', '.join('"%s"' % s for s in fn['scalars']), ', '.join('("%s", 0)' % a for a in fn['arrays']), lean_stmts(fn['body'], 4)))


# target sets: lean def name -> (C function, config, unroll)
TARGET_SETS = {
    'field5x52': [
        ('fe_mul_inner', 'secp256k1_fe_mul_inner', 'native', True),
        ('fe_sqr_inner', 'secp256k1_fe_sqr_inner', 'native', True),
        ('fe_mul_inner_struct', 'secp256k1_fe_mul_inner', 'struct', True),
        ('fe_sqr_inner_struct', 'secp256k1_fe_sqr_inner', 'struct', True),
        ('fe_normalize', 'secp256k1_fe_impl_normalize', 'native', True),
        ('fe_normalize_weak', 'secp256k1_fe_impl_normalize_weak', 'native', True),
        ('fe_add', 'secp256k1_fe_impl_add', 'native', True),
        ('fe_mul_int', 'secp256k1_fe_impl_mul_int_unchecked', 'native', True),
        ('fe_half', 'secp256k1_fe_impl_half', 'native', True),
    ],
    'field10x26': [
        ('fe_mul_inner', 'secp256k1_fe_mul_inner', 'int64', True),
        ('fe_sqr_inner', 'secp256k1_fe_sqr_inner', 'int64', True),
        ('fe_normalize', 'secp256k1_fe_impl_normalize', 'int64', True),
        ('fe_normalize_weak', 'secp256k1_fe_impl_normalize_weak', 'int64', True),
        ('fe_add', 'secp256k1_fe_impl_add', 'int64', True),
        ('fe_mul_int', 'secp256k1_fe_impl_mul_int_unchecked', 'int64', True),
        ('fe_half', 'secp256k1_fe_impl_half', 'int64', True),
        ('fe_negate', 'secp256k1_fe_impl_negate_unchecked', 'int64', True),
    ],
    'int128struct': [
        ('umul128', 'secp256k1_umul128', 'struct', True),
        ('u128_mul', 'secp256k1_u128_mul', 'struct', True),
        ('u128_accum_mul', 'secp256k1_u128_accum_mul', 'struct', True),
        ('u128_accum_u64', 'secp256k1_u128_accum_u64', 'struct', True),
        ('u128_rshift', 'secp256k1_u128_rshift', 'struct', True),
        ('u128_to_u64', 'secp256k1_u128_to_u64', 'struct', True),
        ('u128_hi_u64', 'secp256k1_u128_hi_u64', 'struct', True),
        ('u128_from_u64', 'secp256k1_u128_from_u64', 'struct', True),
        ('u128_check_bits', 'secp256k1_u128_check_bits', 'struct', True),
    ],
    'scalar4x64': [
        ('scalar_mul_512', 'secp256k1_scalar_mul_512', 'native', True),
        ('scalar_reduce_512', 'secp256k1_scalar_reduce_512', 'native', True),
        ('scalar_mul', 'secp256k1_scalar_mul', 'native', True),
        ('scalar_add', 'secp256k1_scalar_add', 'native', True),
        ('scalar_negate', 'secp256k1_scalar_negate', 'native', True),
        ('scalar_half', 'secp256k1_scalar_half', 'native', True),
        ('scalar_cadd_bit', 'secp256k1_scalar_cadd_bit', 'native', True),
        ('scalar_mul_shift_var', 'secp256k1_scalar_mul_shift_var', 'native', True),
    ],
    'scalar8x32': [
        ('scalar_mul_512', 'secp256k1_scalar_mul_512', 'int64', True),
        ('scalar_reduce_512', 'secp256k1_scalar_reduce_512', 'int64', True),
        ('scalar_mul', 'secp256k1_scalar_mul', 'int64', True),
        ('scalar_add', 'secp256k1_scalar_add', 'int64', True),
        ('scalar_negate', 'secp256k1_scalar_negate', 'int64', True),
        ('scalar_half', 'secp256k1_scalar_half', 'int64', True),
        ('scalar_cadd_bit', 'secp256k1_scalar_cadd_bit', 'int64', True),
        ('scalar_mul_shift_var', 'secp256k1_scalar_mul_shift_var', 'int64', True),
    ],
    'ct': [
        ('fe_cmov', 'secp256k1_fe_impl_cmov', 'native', False),
        ('fe_storage_cmov', 'secp256k1_fe_storage_cmov', 'native', False),
        ('scalar_cmov', 'secp256k1_scalar_cmov', 'native', False),
        ('scalar_cond_negate', 'secp256k1_scalar_cond_negate', 'native', False),
        ('scalar_negate', 'secp256k1_scalar_negate', 'native', False),
        ('scalar_add', 'secp256k1_scalar_add', 'native', False),
        ('scalar_is_high', 'secp256k1_scalar_is_high', 'native', False),
        ('scalar_check_overflow', 'secp256k1_scalar_check_overflow', 'native', False),
        ('scalar_is_zero', 'secp256k1_scalar_is_zero', 'native', False),
        ('int_cmov', 'secp256k1_int_cmov', 'native', False),
        ('fe_normalize', 'secp256k1_fe_impl_normalize', 'native', False),
        ('fe_normalizes_to_zero', 'secp256k1_fe_impl_normalizes_to_zero', 'native', False),
        ('fe_negate', 'secp256k1_fe_impl_negate_unchecked', 'native', False),
        ('fe_half', 'secp256k1_fe_impl_half', 'native', False),
        ('fe_mul_inner', 'secp256k1_fe_mul_inner', 'native', False),
        ('fe_sqr_inner', 'secp256k1_fe_sqr_inner', 'native', False),
        ('gej_cmov', 'secp256k1_gej_cmov', 'native', False),
        ('ge_storage_cmov', 'secp256k1_ge_storage_cmov', 'native', False),
        ('gej_add_ge', 'secp256k1_gej_add_ge', 'native', False),
        ('gej_double', 'secp256k1_gej_double', 'native', False),
        ('gej_neg', 'secp256k1_gej_neg', 'native', False),
        ('ge_to_storage', 'secp256k1_ge_to_storage', 'native', False),
        ('fe_get_b32', 'secp256k1_fe_impl_get_b32', 'native', False),
        ('scalar_mul', 'secp256k1_scalar_mul', 'native', False),
    ],
    'ct32': [
        ('fe_cmov', 'secp256k1_fe_impl_cmov', 'int64', False),
        ('fe_storage_cmov', 'secp256k1_fe_storage_cmov', 'int64', False),
        ('scalar_cmov', 'secp256k1_scalar_cmov', 'int64', False),
        ('scalar_cond_negate', 'secp256k1_scalar_cond_negate', 'int64', False),
        ('scalar_negate', 'secp256k1_scalar_negate', 'int64', False),
        ('scalar_add', 'secp256k1_scalar_add', 'int64', False),
        ('scalar_is_high', 'secp256k1_scalar_is_high', 'int64', False),
        ('scalar_check_overflow', 'secp256k1_scalar_check_overflow', 'int64', False),
        ('scalar_is_zero', 'secp256k1_scalar_is_zero', 'int64', False),
        ('int_cmov', 'secp256k1_int_cmov', 'int64', False),
        ('fe_normalize', 'secp256k1_fe_impl_normalize', 'int64', False),
        ('fe_normalizes_to_zero', 'secp256k1_fe_impl_normalizes_to_zero', 'int64', False),
        ('fe_negate', 'secp256k1_fe_impl_negate_unchecked', 'int64', False),
        ('fe_half', 'secp256k1_fe_impl_half', 'int64', False),
        ('fe_mul_inner', 'secp256k1_fe_mul_inner', 'int64', False),
        ('fe_sqr_inner', 'secp256k1_fe_sqr_inner', 'int64', False),
        ('gej_cmov', 'secp256k1_gej_cmov', 'int64', False),
        ('ge_storage_cmov', 'secp256k1_ge_storage_cmov', 'int64', False),
        ('gej_add_ge', 'secp256k1_gej_add_ge', 'int64', False),
        ('gej_double', 'secp256k1_gej_double', 'int64', False),
        ('gej_neg', 'secp256k1_gej_neg', 'int64', False),
        ('ge_to_storage', 'secp256k1_ge_to_storage', 'int64', False),
        ('fe_get_b32', 'secp256k1_fe_impl_get_b32', 'int64', False),
        ('scalar_mul', 'secp256k1_scalar_mul', 'int64', False),
    ],
}


def regenerate(setname, repo, lean_dir):
    from c2lean import write_if_changed
    errors, targets = [], []
    fronts = {}
    body = ['import SecpZkp.Model.MiniC',
            '/- GENERATED by tools/c2lean_k.py (mode K) from the C sources in the current working tree via clang-14\'s',
            '   typed AST. One `MiniC.Fn` per translated C function; callees are inlined. DO NOT EDIT. -/',
            'namespace SecpZkp', 'namespace Gen', 'namespace %s' % setname, 'open MiniC', '']
    names = []
    for defname, cfn, config, unroll in TARGET_SETS[setname]:
        try:
            fr = fronts.setdefault(config, Front(repo, config))
            tr = Translator(fr, unroll=unroll)
            fn = tr.function(cfn)
            fn['body'] = fold_indices(fn['body'])
            body.append(lean_fn(defname, fn, '`%s` (configuration: %s%s)' % (cfn, config, ', loops unrolled' if unroll else '')))
            names.append(defname)
            targets.append({'mode': 'K', 'set': setname, 'name': defname, 'c_function': cfn, 'config': config, 'statements': count_stmts(fn['body'])})
        except Unsupported as e:
            errors.append('K:%s:%s (%s): %s' % (setname, defname, cfn, e))
    body.append('def all : List (String × MiniC.Fn) := [%s]' % ', '.join('("%s", %s)' % (n, n) for n in names))
    body += ['', 'end %s' % setname, 'end Gen', 'end SecpZkp', '']
    write_if_changed(os.path.join(lean_dir, 'SecpZkp', 'Gen', 'K_%s.lean' % setname), '\n'.join(body))
    return {'errors': errors, 'targets': targets, 'obligations': len(names)}


def count_stmts(ss):
    n = 0
    for s in ss:
        n += 1
        if s[0] == 'ite': n += count_stmts(s[2]) + count_stmts(s[3])
        if s[0] == 'loop': n += count_stmts(s[3])
    return n


if __name__ == '__main__':
    import sys
    root = os.path.dirname(os.path.dirname(os.path.abspath(__file__)))
    sys.path.insert(0, os.path.join(root, 'tools'))
    for s in sys.argv[1:] or list(TARGET_SETS):
        r = regenerate(s, os.environ.get('VERIF_REPO', '/repo'), os.path.join(root, 'lean'))
        print(json.dumps({'errors': r['errors'], 'ok': [t['name'] + ':' + str(t['statements']) for t in r['targets']]}, indent=1))
