#!/usr/bin/env python3
"""seed_batch.py <pid>...: for each /tmp/mut_<pid>: wait for _seed/confirm.json, evaluate every confirmed change with the
checks, and store it under /verif/seeded/<pid>-<k>/ (patch.diff, demo, meta.json)."""
import sys, os, json, time, shutil, subprocess
ROOT = os.path.dirname(os.path.dirname(os.path.abspath(__file__)))
sys.path.insert(0, os.path.join(ROOT, 'tools'))
import seed_eval
EXTRA = {'C03': ['C07'], 'C10': ['C07'], 'C11': ['C07'], 'C05': ['C01'], 'C08': []}
for pid in sys.argv[1:]:
    wt = '/tmp/mut_' + pid; seed = os.path.join(wt, '_seed')
    cj = os.path.join(seed, 'confirm.json')
    for _ in range(720):
        if os.path.exists(cj):
            c = json.load(open(cj))
            if len(c) >= len([f for f in os.listdir(seed) if f.startswith('change') and f.endswith('.diff')]): break
        time.sleep(10)
    c = json.load(open(cj)) if os.path.exists(cj) else {}
    notes = open(os.path.join(seed, 'NOTES.md')).read() if os.path.exists(os.path.join(seed, 'NOTES.md')) else ''
    for k in (1, 2):
        key = 'change%d' % k
        if key not in c: continue
        out = os.path.join(ROOT, 'seeded', '%s-%d' % (pid, k)); os.makedirs(out, exist_ok=True)
        shutil.copy(os.path.join(seed, 'change%d.diff' % k), os.path.join(out, 'patch.diff'))
        for f in os.listdir(seed):
            if f.startswith('demo%d' % k): shutil.copy(os.path.join(seed, f), os.path.join(out, f))
        meta = {'property': pid, 'confirmed_by_me': c[key], 'origin': 'independent sub-agent given only the property text and a scratch worktree',
                'agent_notes_file': 'NOTES.md'}
        open(os.path.join(out, 'NOTES.md'), 'w').write(notes)
        if c[key].get('confirmed'):
            ev = seed_eval.evaluate(os.path.join(out, 'patch.diff'), [pid] + EXTRA.get(pid, []))
            meta['check_results'] = ev
            meta['detected'] = any(v['exit'] != 0 for v in ev.get('checks', {}).values())
        else:
            meta['detected'] = None
        json.dump(meta, open(os.path.join(out, 'meta.json'), 'w'), indent=1)
        print(pid, k, 'confirmed' if c[key].get('confirmed') else 'NOT-confirmed', 'detected=%s' % meta['detected'], flush=True)
