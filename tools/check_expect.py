#!/usr/bin/env python3
"""check_expect.py <corpus file>...

Runs every operation line of the given corpus files through the compiled Lean model
(lean/.lake/build/bin/secpmodel) and checks every `# expect <free text> -> <tok> ...` comment exactly the way
tools/check.py does: the expectation applies to the NEXT operation line, and the model's output line must START
with exactly these whitespace-separated tokens.  Prints every mismatch (file:line, expected prefix, model output)
and every `ERR` answer of the model; exit status 1 if there was any."""
import sys, os, subprocess, concurrent.futures

ROOT = os.path.dirname(os.path.dirname(os.path.abspath(__file__)))
EXE = os.path.join(ROOT, 'lean', '.lake', 'build', 'bin', 'secpmodel')
NPROC = int(os.environ.get('VERIF_JOBS', '16'))


def read_corpus(path):
    """-> [(line number, operation line, expected tokens | None, free text)]  (same rules as tools/check.py)"""
    cases = []; pending = None; text = ''
    for no, l in enumerate(open(path), 1):
        l = l.strip()
        if l.startswith('# expect') and '->' in l:
            pending = l.split('->', 1)[1].split(); text = l[len('# expect'):].split('->', 1)[0].strip()
        if l and not l.startswith('//') and not l.startswith('#'):
            cases.append((no, l, pending or None, text if pending else ''))
            pending = None
    return cases


def run_model(lines):
    if not lines: return []
    nchunks = min(NPROC, max(1, len(lines) // 4))
    chunks = [lines[i::nchunks] for i in range(nchunks)]
    def work(ch):
        p = subprocess.run([EXE], input='\n'.join(ch) + '\n', stdout=subprocess.PIPE, stderr=subprocess.PIPE, text=True)
        out = p.stdout.split('\n')
        if out and out[-1] == '': out.pop()
        if len(out) != len(ch):
            out = out + ['ERR model-crashed rc=%d %s' % (p.returncode, p.stderr[-200:].replace('\n', ' '))] * (len(ch) - len(out))
        return out
    with concurrent.futures.ThreadPoolExecutor(nchunks) as ex:
        outs = list(ex.map(work, chunks))
    res = [None] * len(lines)
    for i, o in enumerate(outs): res[i::nchunks] = o
    return res


def main():
    if len(sys.argv) < 2:
        print(__doc__); return 2
    bad = 0
    for path in sys.argv[1:]:
        cases = read_corpus(path)
        outs = run_model([c[1] for c in cases])
        nexp = nbad = nerr = 0
        for (no, line, exp, text), out in zip(cases, outs):
            if out.startswith('ERR'):
                nerr += 1
                print('%s:%d: model answered %s\n    op      : %s' % (path, no, out[:200], line[:300]))
            if exp is None: continue
            nexp += 1
            if out.split()[:len(exp)] != exp:
                nbad += 1
                print('%s:%d: MISMATCH (%s)\n    op      : %s\n    expected: %s\n    model   : %s' % (path, no, text, line[:400], ' '.join(exp)[:400], out[:400]))
        print('%s: %d operation lines, %d with an expectation, %d mismatches, %d ERR answers' % (path, len(cases), nexp, nbad, nerr))
        bad += nbad + nerr
    return 1 if bad else 0


if __name__ == '__main__':
    sys.exit(main())
