#!/usr/bin/env python3
"""seed_import2.py: imports the fourth round of seeded changes (/tmp/mut4_<key>/_seed, confirmed by tools/seed_confirm.py)
into /verif/seeded/<property>-<k>/ (k continues after the first round)."""
import os, json, shutil, sys
ROOT = os.path.dirname(os.path.dirname(os.path.abspath(__file__)))
MAP = {'C03': ('C03', 5), 'C05': ('C05', 7), 'C07': ('C07', 5), 'C09': ('C09', 5), 'C12': ('C12', 5), 'C13': ('C13', 5), 'C14': ('C14', 5), 'C17': ('C17', 5), 'C20': ('C20', 5)}
for key, (pid, base) in sorted(MAP.items()):
    seed = '/tmp/mut4_%s/_seed' % key
    cj = os.path.join(seed, 'confirm.json')
    if not os.path.exists(cj): print(key, 'not confirmed yet'); continue
    c = json.load(open(cj))
    notes = open(os.path.join(seed, 'NOTES.md')).read() if os.path.exists(os.path.join(seed, 'NOTES.md')) else ''
    for k in (1, 2):
        r = c.get('change%d' % k)
        if not r: continue
        sid = '%s-%d' % (pid, base + k - 1)
        out = os.path.join(ROOT, 'seeded', sid); os.makedirs(out, exist_ok=True)
        shutil.copy(os.path.join(seed, 'change%d.diff' % k), os.path.join(out, 'patch.diff'))
        for f in os.listdir(seed):
            if f.startswith('demo%d' % k) and not f.endswith('.bin'): shutil.copy(os.path.join(seed, f), os.path.join(out, f))
        open(os.path.join(out, 'NOTES.md'), 'w').write('(Change %d of the notes below is this seed.)\n\n' % k + notes)
        mf = os.path.join(out, 'meta.json')
        meta = json.load(open(mf)) if os.path.exists(mf) else {}
        meta.update({'property': pid, 'round': 4, 'confirmed_by_me': r,
                     'origin': 'independent sub-agent (fourth round) given only the property text, a focus area and a scratch worktree',
                     'agent_notes_file': 'NOTES.md', 'notes_change_number': k})
        json.dump(meta, open(mf, 'w'), indent=1)
        print(sid, 'confirmed' if r.get('confirmed') else 'NOT confirmed', r.get('ctest'), 'demo exits', r.get('demo_exit_pristine'), r.get('demo_exit_changed'))
