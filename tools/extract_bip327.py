#!/usr/bin/env python3
"""Extracts the BIP-327 (MuSig2) test vectors of $VERIF_REPO/src/modules/musig/vectors.h into protocol lines with the
published results as expectations (corpus/C12/bip327_vectors.txt).  The flows follow the library's consumers
musig_test_vectors_{keyagg,noncegen,nonceagg,signverify,tweak,sigagg} in src/modules/musig/tests_impl.h, one protocol
line per API call.

Objects that travel between calls without a public serialization (keyagg cache, session) must be written on the
input side of the next line.  They are NOT taken from any implementation: this script recomputes them with its own
small transcription of BIP-327 KeyAgg / ApplyTweak / the session values (hashlib + the big-integer curve arithmetic
of tools/gen/common.py).  Expectations, in contrast, only ever contain published values (return values, aggregate
keys, nonces, partial signatures, final signatures) -- plus the even-y lift of a published x-only key where the
protocol prints a point.  If the recomputed objects were wrong, the published partial signatures could not come out."""
import os, re, sys
sys.path.insert(0, os.path.dirname(os.path.abspath(__file__)))
from gen.common import P, N, G, lift_x, padd, pneg, pmul, pt, h32, ser33, tagged

REPO = os.environ.get('VERIF_REPO', '/repo')
ROOT = os.path.dirname(os.path.dirname(os.path.abspath(__file__)))
CACHE_MAGIC, SESSION_MAGIC, SECNONCE_MAGIC = 'f4adbbdf', '9dede917', '220edcf1'


# ---------------------------------------------------------------- C initializer -> nested lists
def c_init(src, name):
    a = src.index('static const struct %s %s = {' % (name, name)); a = src.index('{', a)
    toks = re.findall(r'[{}]|0x[0-9A-Fa-f]+|\d+|[A-Za-z_]\w*', re.sub(r'/\*.*?\*/', '', src[a:], flags=re.S))
    pos = 0
    def parse():
        nonlocal pos
        assert toks[pos] == '{'; pos += 1
        items = []
        while toks[pos] != '}':
            if toks[pos] == '{': items.append(parse())
            else:
                t = toks[pos]; pos += 1
                items.append(int(t, 0) if t[0].isdigit() else t)
        pos += 1
        return items
    return parse()

def by(l): return bytes(l)
def hx(l): return bytes(l).hex()


# ---------------------------------------------------------------- BIP-327 pieces (input construction only)
def cpoint(b):
    """33-byte compressed encoding -> point | None (invalid)"""
    b = bytes(b)
    if len(b) != 33 or b[0] not in (2, 3): return None
    x = int.from_bytes(b[1:], 'big')
    return lift_x(x, b[0] & 1) if x < P else None

def cpoint_ext(b): return None if bytes(b) == bytes(33) else cpoint(b)
def ext33(p): return bytes(33) if p is None else ser33(p)
def x32(p): return p[0].to_bytes(32, 'big')
def i32(b): return int.from_bytes(b, 'big')

class Cache:
    def __init__(self, pk, second, L, pacc=0, tw=0): self.pk, self.second, self.L, self.pacc, self.tw = pk, second, L, pacc, tw
    def tok(self): return '%s:%s:%s:%s:%d:%s' % (CACHE_MAGIC, pt(self.pk), pt(self.second), self.L.hex(), self.pacc, h32(self.tw))
    def coef(self, p):
        if self.second is not None and p == self.second: return 1
        return i32(tagged(b'KeyAgg coefficient', self.L + ser33(p))) % N
    def xonly(self): return lift_x(self.pk[0], 0)

def keyagg(pks):
    L = tagged(b'KeyAgg list', b''.join(ser33(p) for p in pks))
    c = Cache(None, next((p for p in pks[1:] if p != pks[0]), None), L)
    q = None
    for p in pks: q = padd(q, pmul(c.coef(p), p))
    assert q is not None
    c.pk = q
    return c

def apply_tweak(c, t, xonly):
    """-> new Cache | None (the call fails)"""
    t = i32(t)
    if t >= N: return None
    pk, pacc, tw = c.pk, c.pacc, c.tw
    if xonly and pk[1] & 1: pk = pneg(pk); pacc ^= 1; tw = (-tw) % N
    tw = (tw + t) % N
    pk = padd(pk, pmul(t, G))
    if pk is None: return None
    return Cache(pk, c.second, c.L, pacc, tw)

def session_tok(c, aggnonce, msg):
    r1, r2 = cpoint_ext(aggnonce[:33]), cpoint_ext(aggnonce[33:])
    q = x32(c.pk)
    b = i32(tagged(b'MuSig/noncecoef', ext33(r1) + ext33(r2) + q + msg)) % N
    r = padd(r1, pmul(b, r2) if r2 is not None else None)
    if r is None: r = G
    e = i32(tagged(b'BIP0340/challenge', x32(r) + q + msg)) % N
    s = 0
    if c.tw: s = e * c.tw % N; s = (-s) % N if c.pk[1] & 1 else s
    return '%s:%d:%s:%s:%s:%s' % (SESSION_MAGIC, r[1] & 1, h32(r[0]), h32(b), h32(e), h32(s))

def nonce_agg(pubnonces):
    a = b = None
    for pn in pubnonces: a = padd(a, cpoint(pn[:33])); b = padd(b, cpoint(pn[33:]))
    return ext33(a) + ext33(b)

def secnonce_tok(sn64, pk): return '%s:%s:%s:%s' % (SECNONCE_MAGIC, bytes(sn64[:32]).hex(), bytes(sn64[32:64]).hex(), pt(pk))


# ---------------------------------------------------------------- emission
class Out:
    def __init__(self): self.lines = []; self.stats = {}
    def note(self, s): self.lines.append('// ' + s)
    def op(self, line, text=None, expect=None):
        if expect is not None: self.lines.append('# expect %s -> %s' % (text.replace('->', '=>'), expect))
        self.lines.append(line)
    def count(self, fam, n=1): self.stats[fam] = self.stats.get(fam, 0) + n

def parse_keys(o, name, pubkeys33, indices):
    """one pubkey_parse line per key; -> points or None if one of them is invalid (as in musig_vectors_keyagg_and_tweak)"""
    pts = []
    for i in indices:
        q = cpoint(pubkeys33[i])
        if q is None:
            o.op('pubkey_parse ' + hx(pubkeys33[i]), '%s: public key %d is invalid' % (name, i), '0'); return None
        o.op('pubkey_parse ' + hx(pubkeys33[i]), '%s: public key %d' % (name, i), '1 ' + pt(q)); pts.append(q)
    return pts

def do_keyagg(o, name, pts, expected_x=None):
    c = keyagg(pts)
    if expected_x is None: o.op('musig_pubkey_agg - ' + ' '.join(map(pt, pts)), name + ': key aggregation', '1')
    else: o.op('musig_pubkey_agg - ' + ' '.join(map(pt, pts)), name + ': aggregate x-only key', '1 ' + pt(lift_x(i32(expected_x), 0)))
    return c

def do_tweaks(o, name, c, tweaks32, tidx, is_xonly, must_succeed=True):
    """-> cache after all tweaks | None after the first failing one"""
    for j, ti in enumerate(tidx):
        t = by(tweaks32[ti]); xo = is_xonly[j]
        c2 = apply_tweak(c, t, xo)
        line = 'musig_%s_tweak_add - %s %s' % ('xonly' if xo else 'ec', c.tok(), t.hex())
        if c2 is None:
            assert not must_succeed, name
            o.op(line, '%s: tweak %d (%s) is rejected' % (name, ti, 'x-only' if xo else 'plain'), '0'); return None
        o.op(line, '%s: tweak %d (%s)' % (name, ti, 'x-only' if xo else 'plain'), '1'); c = c2
    return c


def main():
    src = open(os.path.join(REPO, 'src/modules/musig/vectors.h')).read()
    o = Out()
    o.note('BIP-327 MuSig2 test vectors (src/modules/musig/vectors.h), produced by tools/extract_bip327.py; `# expect` lines carry the')
    o.note('published results. Cache / session tokens on the input side are recomputed by the extraction script from BIP-327.')

    # ================= key aggregation
    pubkeys, tweaks, valid, error = c_init(src, 'musig_key_agg_vector')
    o.note('---- key_agg_vectors')
    for k, (n, idx, exp) in enumerate(valid):
        name = 'key_agg valid %d' % k; idx = idx[:n]
        pts = parse_keys(o, name, pubkeys, idx); assert pts
        c = do_keyagg(o, name, pts, by(exp))
        # the library's path to the x-only key: pubkey_get on the cache, then xonly_pubkey_from_pubkey
        o.op('musig_pubkey_get ' + c.tok(), name + ': pubkey_get', '1')
        o.op('xonly_from_pubkey ' + pt(c.pk), name + ': x-only form of the aggregate key', '1 ' + pt(lift_x(i32(by(exp)), 0)))
        o.count('key_agg valid')
    for k, (n, idx, tn, tidx, xo, err) in enumerate(error):
        name = 'key_agg error %d (%s)' % (k, err); idx = idx[:n]; tidx = tidx[:tn]
        pts = parse_keys(o, name, pubkeys, idx)
        assert (pts is None) == (err == 'MUSIG_PUBKEY'), name
        if pts is not None:
            c = do_keyagg(o, name, pts)
            assert err == 'MUSIG_TWEAK' and do_tweaks(o, name, c, tweaks, tidx, xo, must_succeed=False) is None, name
        o.count('key_agg error')

    # ================= nonce generation
    (cases,) = c_init(src, 'musig_nonce_gen_vector')
    o.note('---- nonce_gen_vectors (those with a 32-byte message, as in the library)')
    for k, (rand, has_sk, sk, pk, has_aggpk, aggpk, has_msg, msg, has_extra, extra, exp_sn, exp_pn) in enumerate(cases):
        name = 'nonce_gen %d' % k
        q = cpoint(pk); assert q is not None and by(exp_sn[64:]) == by(pk), name
        cache = '_'
        if has_aggpk:   # the library's test builds a cache that holds nothing but the aggregate key
            cache = Cache(lift_x(i32(by(aggpk)), 0), None, bytes(32)).tok()
        o.op('musig_nonce_gen - %s %s %s %s %s %s' % (hx(rand), hx(sk) if has_sk else '_', pt(q), hx(msg) if has_msg else '_', cache, hx(extra) if has_extra else '_'),
             name + ': secnonce (k1, k2, pk) and pubnonce', '1 z0 %s %s' % (secnonce_tok(exp_sn, q), hx(exp_pn)))
        o.count('nonce_gen')

    # ================= nonce aggregation
    pnonces, valid, error = c_init(src, 'musig_nonce_agg_vector')
    o.note('---- nonce_agg_vectors')
    for k, case in enumerate(valid):
        idx, exp = case[0], case[1]; name = 'nonce_agg valid %d' % k
        for i in idx: o.op('musig_pubnonce_parse ' + hx(pnonces[i]), '%s: pubnonce %d' % (name, i), '1 ' + hx(pnonces[i]))
        o.op('musig_nonce_agg - ' + ' '.join(hx(pnonces[i]) for i in idx), name + ': aggregate nonce', '1 ' + hx(exp))
        o.count('nonce_agg valid')
    for k, (idx, _e, bad) in enumerate(error):
        name = 'nonce_agg error %d' % k
        for j, i in enumerate(idx):
            if j == bad: o.op('musig_pubnonce_parse ' + hx(pnonces[i]), '%s: pubnonce %d is invalid' % (name, i), '0')
            else: o.op('musig_pubnonce_parse ' + hx(pnonces[i]), '%s: pubnonce %d' % (name, i), '1 ' + hx(pnonces[i]))
        o.count('nonce_agg error')

    # ================= sign / verify
    sk, pubkeys, secnonces, pubnonces, aggnonces, msgs, valid, sign_err, ver_fail, ver_err = c_init(src, 'musig_sign_verify_vector')
    pubnonces = [pn[:66] for pn in pubnonces]
    sk = by(sk); signer = pmul(i32(sk), G); assert signer == cpoint(pubkeys[0]) and by(secnonces[0][64:97]) == by(pubkeys[0])
    o.note('---- sign_verify_vectors (the signer owns public key 0, secnonce 0, pubnonce 0)')
    def sign_flow(name, pts, aggnonce, msg, secnonce64):
        """keyagg .. partial_sign; -> (cache, session token, partial_sign line)"""
        c = do_keyagg(o, name, pts)
        o.op('musig_aggnonce_parse ' + aggnonce.hex(), name + ': aggnonce', '1 ' + aggnonce.hex())
        se = session_tok(c, aggnonce, msg)
        o.op('musig_nonce_process - %s %s %s _' % (aggnonce.hex(), msg.hex(), c.tok()), name + ': nonce_process', '1')
        return c, se, 'musig_partial_sign - %s %s %s %s %s' % (secnonce_tok(secnonce64, signer), sk.hex(), pt(signer), c.tok(), se)
    for k, (n, idx, ai, mi, si, exp) in enumerate(valid):
        name = 'sign valid %d' % k; idx = idx[:n]; assert idx[si] == 0
        pts = parse_keys(o, name, pubkeys, idx); assert pts
        c, se, line = sign_flow(name, pts, by(aggnonces[ai]), by(msgs[mi]), secnonces[0])
        o.op(line, name + ': partial signature', '1 ' + hx(exp))
        o.op('musig_pubnonce_parse ' + hx(pubnonces[0]), name + ': pubnonce 0', '1 ' + hx(pubnonces[0]))
        o.op('musig_partial_sig_verify %s %s %s %s %s' % (hx(exp), hx(pubnonces[0]), pt(signer), c.tok(), se), name + ': partial signature verifies', '1')
        o.count('sign valid')
    for k, (n, idx, ai, mi, sni, err) in enumerate(sign_err):
        name = 'sign error %d (%s)' % (k, err); idx = idx[:n]
        pts = parse_keys(o, name, pubkeys, idx)
        if k == 0:
            # BIP-327: "the signer's pubkey is not in the list of pubkeys" must be an error.  The library documents that it
            # does not detect this (its own test skips the vector), so the lines are kept without an expectation.
            assert 0 not in idx and pts and err == 'MUSIG_PUBKEY'
            o.note('sign error 0: signer key not in the key list; BIP-327 demands an error, the library (and its test) do not check this: no expectation')
            c = keyagg(pts); an = by(aggnonces[ai]); msg = by(msgs[mi])
            o.op('musig_pubkey_agg - ' + ' '.join(map(pt, pts)))
            o.op('musig_nonce_process - %s %s %s _' % (an.hex(), msg.hex(), c.tok()))
            o.op('musig_partial_sign - %s %s %s %s %s' % (secnonce_tok(secnonces[sni], signer), sk.hex(), pt(signer), c.tok(), session_tok(c, an, msg)))
            o.count('sign error (kept without expectation)'); continue
        if err == 'MUSIG_PUBKEY': assert pts is None; o.count('sign error'); continue
        assert pts
        an = by(aggnonces[ai])
        if err == 'MUSIG_AGGNONCE':
            do_keyagg(o, name, pts)
            o.op('musig_aggnonce_parse ' + an.hex(), name + ': aggnonce is invalid', '0'); o.count('sign error'); continue
        assert err == 'MUSIG_SECNONCE'
        c, se, line = sign_flow(name, pts, an, by(msgs[mi]), secnonces[sni])
        o.op(line, name + ': secnonce is all-zero, signing refused', '0')
        o.count('sign error')
    for k, (sig, n, idx, nn, nidx, mi, si, err) in enumerate(ver_fail):
        name = 'verify fail %d (%s)' % (k, err); idx = idx[:n]; nidx = nidx[:nn]; sig = by(sig); msg = by(msgs[mi])
        for i in nidx: o.op('musig_pubnonce_parse ' + hx(pubnonces[i]), '%s: pubnonce %d' % (name, i), '1 ' + hx(pubnonces[i]))
        pts = parse_keys(o, name, pubkeys, idx); assert pts
        c = do_keyagg(o, name, pts)
        an = nonce_agg([by(pubnonces[i]) for i in nidx])
        # aggnonces[0] of the vector file is the published aggregate of pubnonces 0, 1, 2
        pub_an = by(aggnonces[0]) if nidx == [0, 1, 2] and an == by(aggnonces[0]) else None
        o.op('musig_nonce_agg - ' + ' '.join(hx(pubnonces[i]) for i in nidx), name + ': nonce aggregation' + (' gives aggnonce 0' if pub_an else ''),
             '1 ' + pub_an.hex() if pub_an else '1')
        se = session_tok(c, an, msg)
        o.op('musig_nonce_process - %s %s %s _' % (an.hex(), msg.hex(), c.tok()), name + ': nonce_process', '1')
        if err == 'MUSIG_SIG':
            o.op('musig_partial_sig_parse ' + sig.hex(), name + ': partial signature is out of range', '0')
        else:
            assert err == 'MUSIG_SIG_VERIFY'
            o.op('musig_partial_sig_parse ' + sig.hex(), name + ': partial signature parses', '1 ' + sig.hex())
            # BIP-327 verifies against the signer's own pubnonce; the library's test always hands over pubnonce[0]
            for pn in dict.fromkeys([nidx[si], nidx[0]]):
                o.op('musig_partial_sig_verify %s %s %s %s %s' % (sig.hex(), hx(pubnonces[pn]), pt(pts[si]), c.tok(), se),
                     '%s: wrong partial signature of signer %d (pubnonce %d)' % (name, si, pn), '0')
        o.count('verify fail')
    for k, (sig, n, idx, nn, nidx, mi, si, err) in enumerate(ver_err):
        name = 'verify error %d (%s)' % (k, err); idx = idx[:n]; nidx = nidx[:nn]
        pts = parse_keys(o, name, pubkeys, idx)
        assert (pts is None) == (err == 'MUSIG_PUBKEY')
        if pts is not None:
            assert err == 'MUSIG_PUBNONCE'
            do_keyagg(o, name, pts)
            o.op('musig_pubnonce_parse ' + hx(pubnonces[nidx[si]]), '%s: pubnonce %d is invalid' % (name, nidx[si]), '0')
        o.count('verify error')

    # ================= tweaks
    sk, secnonce, aggnonce, msg, pubkeys, pubnonces, tweaks, valid, error = c_init(src, 'musig_tweak_vector')
    pubnonces = [pn[:66] for pn in pubnonces]
    sk = by(sk); aggnonce = by(aggnonce); msg = by(msg); signer = pmul(i32(sk), G); assert signer == cpoint(pubkeys[0]) and by(secnonce[64:97]) == by(pubkeys[0])
    o.note('---- tweak_vectors')
    o.op('musig_aggnonce_parse ' + aggnonce.hex(), 'tweak vectors: aggnonce', '1 ' + aggnonce.hex())
    for k, (n, idx, nn, nidx, tn, tidx, xo, si, exp) in enumerate(valid):
        name = 'tweak valid %d' % k; idx = idx[:n]; nidx = nidx[:nn]; tidx = tidx[:tn]; assert idx[si] == 0
        pts = parse_keys(o, name, pubkeys, idx); assert pts
        c = do_tweaks(o, name, do_keyagg(o, name, pts), tweaks, tidx, xo)
        se = session_tok(c, aggnonce, msg)
        o.op('musig_nonce_process - %s %s %s _' % (aggnonce.hex(), msg.hex(), c.tok()), name + ': nonce_process', '1')
        o.op('musig_partial_sign - %s %s %s %s %s' % (secnonce_tok(secnonce, signer), sk.hex(), pt(signer), c.tok(), se), name + ': partial signature', '1 ' + hx(exp))
        pn = pubnonces[nidx[si]]
        o.op('musig_pubnonce_parse ' + hx(pn), name + ': pubnonce of the signer', '1 ' + hx(pn))
        o.op('musig_partial_sig_verify %s %s %s %s %s' % (hx(exp), hx(pn), pt(signer), c.tok(), se), name + ': partial signature verifies', '1')
        o.count('tweak valid')
    for k, (n, idx, nn, nidx, tn, tidx, xo, si, exp) in enumerate(error):
        name = 'tweak error %d' % k; idx = idx[:n]; tidx = tidx[:tn]
        pts = parse_keys(o, name, pubkeys, idx); assert pts
        assert do_tweaks(o, name, do_keyagg(o, name, pts), tweaks, tidx, xo, must_succeed=False) is None
        o.count('tweak error')

    # ================= signature aggregation
    pubkeys, tweaks, psigs, msg, valid, error = c_init(src, 'musig_sig_agg_vector')
    msg = by(msg)
    o.note('---- sig_agg_vectors')
    for k, (n, idx, tn, tidx, xo, an, pn, pidx, exp, _bad) in enumerate(valid):
        name = 'sig_agg valid %d' % k; idx = idx[:n]; tidx = tidx[:tn]; pidx = pidx[:pn]; an = by(an); exp = by(exp)
        pts = parse_keys(o, name, pubkeys, idx); assert pts
        c = do_tweaks(o, name, do_keyagg(o, name, pts), tweaks, tidx, xo)
        o.op('musig_aggnonce_parse ' + an.hex(), name + ': aggnonce', '1 ' + an.hex())
        se = session_tok(c, an, msg)
        o.op('musig_nonce_process - %s %s %s _' % (an.hex(), msg.hex(), c.tok()), name + ': nonce_process', '1')
        for i in pidx: o.op('musig_partial_sig_parse ' + hx(psigs[i]), '%s: partial signature %d' % (name, i), '1 ' + hx(psigs[i]))
        o.op('musig_partial_sig_agg - %s %s' % (se, ' '.join(hx(psigs[i]) for i in pidx)), name + ': final signature', '1 ' + exp.hex())
        o.op('schnorr_verify %s %s %s' % (exp.hex(), msg.hex(), pt(c.xonly())), name + ': final signature is a BIP-340 signature of the (tweaked) aggregate key', '1')
        o.count('sig_agg valid')
    for k, (n, idx, tn, tidx, xo, an, pn, pidx, exp, bad) in enumerate(error):
        name = 'sig_agg error %d' % k; pidx = pidx[:pn]
        for j, i in enumerate(pidx):
            if j == bad: o.op('musig_partial_sig_parse ' + hx(psigs[i]), '%s: partial signature %d is out of range' % (name, i), '0')
            else: o.op('musig_partial_sig_parse ' + hx(psigs[i]), '%s: partial signature %d' % (name, i), '1 ' + hx(psigs[i]))
        o.count('sig_agg error')

    os.makedirs(os.path.join(ROOT, 'corpus/C12'), exist_ok=True)
    open(os.path.join(ROOT, 'corpus/C12/bip327_vectors.txt'), 'w').write('\n'.join(o.lines) + '\n')
    nops = sum(1 for l in o.lines if not l.startswith(('#', '//')))
    print('corpus/C12/bip327_vectors.txt: %d lines, %d operation lines, %d expectations;' % (len(o.lines), nops, sum(1 for l in o.lines if l.startswith('# expect'))), o.stats)


if __name__ == '__main__':
    main()
