#!/usr/bin/env python3
"""Extracts the BIP-324 ElligatorSwift vectors of $VERIF_REPO/src/modules/ellswift/tests_impl.h
(ellswift_xswiftec_inv_tests, ellswift_decode_tests, ellswift_xdh_tests_bip324) into protocol lines with the published
results as expectations (corpus/C18/bip324_vectors.txt).  The library's consumers are
ellswift_{encoding,decoding,xdh}_test_vectors_tests in the same file:
  * inverse map:  xswiftec_inv(x, u, c) succeeds iff bit c of enc_bitmap is set, and then returns encs[c];
                  the forward map sends (u, encs[c]) back to x
                  -> `xswiftec_inv x u c` expected `1 t` / `0`, and `ellswift_decode u||t` expected `1 04||x||y`
                     (the forward-map op `xswiftec` prints x only as its 4th token, which a prefix expectation
                      cannot reach; decode prints the point; y is the square root of x^3+7 with the parity of t,
                      the BIP-324 decoding rule, recomputed here)
  * decoding:     ellswift_decode(enc) = point with the published x and the published parity of y
  * x-only ECDH:  ellswift_xdh(ell_a, ell_b, priv, party, bip324 hash) = published 32-byte secret (the harness prints
                  its 64-byte output buffer, pre-filled with 0xAA, so the token is secret || aa..aa)."""
import os, re, sys
sys.path.insert(0, os.path.dirname(os.path.abspath(__file__)))
from gen.common import P, lift_x, pt, h32

REPO = os.environ.get('VERIF_REPO', '/repo')
ROOT = os.path.dirname(os.path.dirname(os.path.abspath(__file__)))


def table(src, name):
    a = src.index(name + '[] = {'); b = src.index('\n};', a)
    return [l for l in src[a:b].split('\n')[1:] if l.strip().startswith('{')]

def fe(m): return int(''.join('%08x' % int(w.strip(), 0) for w in m.split(',')), 16)
def fes(line): return [fe(m) for m in re.findall(r'SECP256K1_FE_CONST\(([^)]*)\)', line)]
def byte_arrays(line): return [bytes(int(b, 16) for b in re.findall(r'0x([0-9a-fA-F]{2})', m)) for m in re.findall(r'\{((?:\s*0x[0-9a-fA-F]{2}\s*,?)+)\}', line)]


def main():
    src = open(os.path.join(REPO, 'src/modules/ellswift/tests_impl.h')).read()
    out = ['// BIP-324 ElligatorSwift vectors (src/modules/ellswift/tests_impl.h), produced by tools/extract_bip324.py;',
           '// `# expect` lines carry the published results.']
    st = {'inv-testcases': 0, 'inv-lines': 0, 'inv-solutions': 0, 'inv-roundtrip-decodes': 0, 'decode': 0, 'xdh': 0}

    for k, line in enumerate(table(src, 'ellswift_xswiftec_inv_tests')):
        bitmap = int(re.match(r'\s*\{(0x[0-9a-fA-F]+|\d+),', line).group(1), 0)
        f = fes(line); assert len(f) == 10, (k, len(f))
        u, x, encs = f[0], f[1], f[2:]
        assert lift_x(x) is not None, 'x of inverse-map vector %d is not on the curve' % k   # precondition of the C function
        st['inv-testcases'] += 1
        for c in range(8):
            st['inv-lines'] += 1
            if (bitmap >> c) & 1:
                t = encs[c]; st['inv-solutions'] += 1
                out.append('# expect xswiftec_inv vector %d case %d: solution -> 1 %s' % (k, c, h32(t)))
                out.append('xswiftec_inv %s %s %d' % (h32(x), h32(u), c))
                q = lift_x(x, t & 1); st['inv-roundtrip-decodes'] += 1
                out.append('# expect xswiftec_inv vector %d case %d: forward map of (u, t) gives x again (y: parity of t) -> 1 %s' % (k, c, pt(q)))
                out.append('ellswift_decode %s%s' % (h32(u), h32(t)))
            else:
                assert encs[c] == 0
                out.append('# expect xswiftec_inv vector %d case %d: no solution -> 0' % (k, c))
                out.append('xswiftec_inv %s %s %d' % (h32(x), h32(u), c))

    for k, line in enumerate(table(src, 'ellswift_decode_tests')):
        arrs = byte_arrays(line); f = fes(line)
        odd = int(re.search(r'\),\s*(\d)\s*\}\s*,?\s*$', line).group(1))
        assert len(arrs) == 1 and len(arrs[0]) == 64 and len(f) == 1, k
        q = lift_x(f[0], odd); assert q is not None, k
        st['decode'] += 1
        out.append('# expect ellswift_decode vector %d: x = %s, y %s -> 1 %s' % (k, h32(f[0]), 'odd' if odd else 'even', pt(q)))
        out.append('ellswift_decode ' + arrs[0].hex())

    for k, line in enumerate(table(src, 'ellswift_xdh_tests_bip324')):
        arrs = byte_arrays(line)
        m = re.search(r'\},\s*(\d),\s*\{', line)
        assert [len(a) for a in arrs] == [32, 64, 64, 32] and m, k
        priv, ours, theirs, shared = arrs; initiating = int(m.group(1))
        party = 0 if initiating else 1
        ea, eb = (theirs, ours) if party else (ours, theirs)
        st['xdh'] += 1
        out.append('# expect ellswift_xdh bip324 vector %d (%s) -> 1 %s%s' % (k, 'initiator' if initiating else 'responder', shared.hex(), 'aa' * 32))
        out.append('ellswift_xdh %s %s %s %d b _' % (ea.hex(), eb.hex(), priv.hex(), party))

    os.makedirs(os.path.join(ROOT, 'corpus/C18'), exist_ok=True)
    open(os.path.join(ROOT, 'corpus/C18/bip324_vectors.txt'), 'w').write('\n'.join(out) + '\n')
    print('corpus/C18/bip324_vectors.txt: %d lines;' % len(out), st)


if __name__ == '__main__':
    main()
