"""Per-property configuration of the check: generators, harness configurations, translation targets."""

ALLCONF = ['default', 'asm', 'int128struct', 'int64', 'verify']

# how a configuration name maps to a harness build / run
CONFIG_RUN = {
    'default': {}, 'asm': {}, 'int128struct': {}, 'int64': {}, 'verify': {}, 'o2': {},
}

def C(quick, thorough=None):
    return {'quick': quick, 'thorough': thorough or ALLCONF}

PROPS = {
    'C08': {'gens': ['c08'], 'configs': C(['default', 'int64'])},
    'C05': {'gens': ['c05'], 'configs': C(['default', 'int64', 'int128struct'], ALLCONF + ['o2']),
            'assumptions': ['x86-64 assembly, safegcd modinv and ecmult internals are tied by correspondence only']},
}
