"""Per-property configuration of the check: generators, harness configurations, translation targets."""

ALLCONF = ['default', 'asm', 'int128struct', 'int64', 'verify']

# how a configuration name maps to a harness build / run
CONFIG_RUN = {
    'default': {}, 'asm': {}, 'int128struct': {}, 'int64': {}, 'verify': {}, 'o2': {}, 'builtins': {},
    'memcheck': {'build': 'o1plain', 'sanitize': False, 'wrapper': ['valgrind', '-q', '--error-exitcode=96'], 'sample': 400,
                 'prefer': ['corpus', 'rangeproof_rewind', 'rangeproof_verify', 'surj_verify', 'wl_verify', 'bppp_verify', 'adaptor_recover', 'sig_parse_der']},
    'tsan': {'build': 'tsan', 'sanitize': False, 'only': ['ctx_threads'], 'env': {'TSAN_OPTIONS': 'halt_on_error=1:exitcode=98'}},
}

def C(quick, thorough=None):
    return {'quick': quick, 'thorough': thorough or ALLCONF}

PROPS = {
    'C11': {'gens': ['c11'], 'translate': ['G:guards'], 'configs': C(['default', 'int64', 'builtins'], ALLCONF + ['builtins'])},
    'C13': {'gens': ['c13'], 'translate': ['S:seq'], 'configs': C(['default', 'int64'])},
    'C12': {'gens': ['c12'], 'translate': ['G:guards'], 'configs': C(['default', 'int64'])},
    'C01': {'gens': ['c01', 'c01p', 'c01q'], 'translate': ['G:guards', 'P:ecdsa', 'P:api'], 'configs': C(['default', 'int64'])},
    'C02': {'gens': ['c02', 'c02p'], 'translate': ['G:guards', 'P:schnorr'], 'configs': C(['default', 'int64'])},
    'C03': {'gens': ['c03'], 'translate': ['G:guards'], 'configs': C(['default', 'int64'])},
    'C04': {'gens': ['c04', 'c04p'], 'translate': ['G:guards', 'P:keys'], 'configs': C(['default', 'int64'])},
    'C05': {'gens': ['c05', 'c05k'], 'translate': ['K:field5x52', 'K:ct', 'K:field10x26', 'K:scalar4x64', 'K:scalar8x32', 'K:ct32', 'K:int128struct', 'F:group', 'F:ellswift', 'F:generator'], 'configs': C(['default', 'asm', 'int64', 'int128struct'], ALLCONF + ['o2']),
            'assumptions': ['x86-64 assembly, safegcd modinv and ecmult internals are tied by correspondence only']},
    'C06': {'gens': ['c06'], 'translate': ['K:ct', 'K:ct32'], 'ct_valgrind': True, 'configs': C(['default', 'int64'], ['default', 'int64', 'verify']),
            'assumptions': ['compiler and CPU behaviour are outside the Lean model; valgrind observes the executed paths of the built binaries only']},
    'C07': {'gens': ['c07'], 'configs': C(['default', 'int64', 'memcheck'], ['default', 'asm', 'int128struct', 'int64', 'verify', 'memcheck']),
            'corpus_from': ['C10', 'C11'],
            # VERIFY builds abort (VERIFY_CHECK, eckey_impl.h:39) when secp256k1_ecdsa_adaptor_recover is handed a signature
            # object with s = 0; production builds return 0 (observation in DESIGN.md 10.5) - the op runs in every other configuration
            'exclude': {'verify': ['adaptor_recover']},
            'assumptions': ['memory safety of the compiled code is observed by ASan/UBSan/LeakSanitizer/valgrind on the generated inputs only']},
    'C08': {'gens': ['c08', 'c08k'], 'translate': ['G:guards', 'F:group', 'F:generator'], 'configs': C(['default', 'int64'])},
    'C09': {'gens': ['c09'], 'translate': ['G:guards'], 'configs': C(['default', 'int64', 'builtins'], ALLCONF + ['builtins'])},
    'C10': {'gens': ['c10'], 'translate': ['G:guards'], 'configs': C(['default', 'int64', 'builtins'], ALLCONF + ['builtins'])},
    'C14': {'gens': ['c14'], 'translate': ['G:guards'], 'configs': C(['default', 'int64'], ['default', 'asm', 'int128struct', 'int64', 'verify']),
            'exclude': {'verify': ['adaptor_recover']},
            'assumptions': ['VERIFY build: the op adaptor_recover is not run (secp256k1_ecdsa_adaptor_recover with a signature whose s = 0 reaches '
                            'secp256k1_eckey_pubkey_serialize33 on the point at infinity: VERIFY_CHECK abort, eckey_impl.h:39); '
                            'production builds return 0 and leave deckey32 untouched, which is what the model says']},
    'C15': {'gens': ['c15'], 'translate': ['G:guards'], 'configs': C(['default', 'int64'])},
    'C16': {'gens': ['c16'], 'translate': ['G:guards'], 'configs': C(['default', 'int64'])},
    'C17': {'gens': ['c17'], 'translate': ['G:guards'], 'configs': C(['default', 'int64'])},
    'C18': {'gens': ['c18', 'c18k'], 'translate': ['G:guards', 'F:group', 'F:ellswift'], 'configs': C(['default', 'int64'])},
    'C20': {'gens': ['c20'], 'configs': C(['default', 'int64', 'tsan'], ['default', 'asm', 'int128struct', 'int64', 'verify', 'tsan']),
            'translate': ['statics', 'G:guards']},
    'C19': {'gens': ['c19'], 'translate': ['G:guards'], 'configs': C(['default', 'int64', 'builtins'], ALLCONF + ['builtins'])},
}
