#!/usr/bin/env python3
"""Extracts the BIP-340 test vectors from /repo/src/modules/schnorrsig/tests_impl.h into protocol lines
(corpus/C02/bip340_vectors.txt, committed: the check does not depend on the repo's test files staying intact).
The expected results are embedded as comment lines; the vectors are run through model AND implementation on every
C02 check, which validates the MODEL against the standard (the implementation passes them in its own suite)."""
import re, sys, os
sys.path.insert(0, os.path.join(os.path.dirname(os.path.abspath(__file__))))
from gen.common import lift_x, pt, pmul, G
from gen.common import P as FIELD_P
REPO = os.environ.get('VERIF_REPO', '/repo')
ROOT = os.path.dirname(os.path.dirname(os.path.abspath(__file__)))
src = open(os.path.join(REPO, 'src/modules/schnorrsig/tests_impl.h')).read()
body = src[src.index('static void test_schnorrsig_bip_vectors(void)'):]
body = body[:body.index('\n}\n')]
blocks = re.split(r'\n    \{\n', body)[1:]
out = ['// BIP-340 test vectors (from src/modules/schnorrsig/tests_impl.h); `# expect` lines give the published result']
for b in blocks:
    arrs = {m.group(1): bytes(int(x, 16) for x in re.findall(r'0x([0-9A-Fa-f]{2})', m.group(2))) for m in re.finditer(r'const unsigned char (\w+)\[\d*\] = \{(.*?)\};', b, re.S)}
    name = re.search(r'/\* (Test vector \d+)', b)
    sign = 'check_signing(' in b
    ver = re.search(r'check_verify\(pk, (\w+), [^,]+, sig, (\d)\)', b)
    msg = arrs.get('msg', b'')
    ms = re.search(r'unsigned char msg\[(\d+)\];\s*memset\(msg, 0x([0-9A-Fa-f]{2}), sizeof\(msg\)\)', b)
    if ms: msg = bytes([int(ms.group(2), 16)]) * int(ms.group(1))
    if 'check_verify(pk, NULL' in b or ('check_signing' in b and 'aux_rand, NULL' in b): msg = b''
    if 'CHECK(!secp256k1_xonly_pubkey_parse' in b and 'pk' in arrs:
        out.append('# expect %s xonly_pubkey_parse -> 0' % (name.group(1) if name else ''))
        out.append('xonly_parse %s' % arrs['pk'].hex())
        continue
    pkx = int.from_bytes(arrs['pk'], 'big')
    P = lift_x(pkx, 0) if pkx < FIELD_P else None      # BIP-340: lift_x fails for x >= p
    if sign:
        d = int.from_bytes(arrs['sk'], 'big'); Q = pmul(d, G)
        out.append('# expect %s sign -> 1 %s' % (name.group(1) if name else '', arrs['sig'].hex()))
        out.append('schnorr_sign %s %s %s _ %s' % (msg.hex() or '-', arrs['sk'].hex(), pt(Q), arrs['aux_rand'].hex()))
    if ver:
        out.append('# expect %s verify -> %s' % (name.group(1) if name else '', ver.group(2)))
        if P is not None:
            out.append('schnorr_verify %s %s %s' % (arrs['sig'].hex(), msg.hex() or '-', pt(P)))
        else:
            out.append('xonly_parse %s' % arrs['pk'].hex())   # public key not on the curve: parsing must fail
os.makedirs(os.path.join(ROOT, 'corpus/C02'), exist_ok=True)
open(os.path.join(ROOT, 'corpus/C02/bip340_vectors.txt'), 'w').write('\n'.join(out) + '\n')
print(len(out), 'lines')
