"""C11: surjection proofs. parse / serialize structural enumeration, initialize (subset selection), generate and
verify with honest and adversarial provers (the latter built by the model-only op `surj_mk_adv`)."""
from .common import *


def bl_of(n): return (n + 7) // 8
def popcount(b): return sum(bin(x).count('1') for x in b)
def ser(nfield, bitmap, sig): return bytes([nfield & 255, (nfield >> 8) & 255]) + bitmap + sig
def bitmap_of(n_bytes, idxs):
    b = bytearray(n_bytes)
    for i in idxs: b[i // 8] |= 1 << (i % 8)
    return bytes(b)


# ------------------------------------------------------------------------------------------------
# parser
N_CLASSES = [0, 1, 2, 3, 7, 8, 9, 15, 16, 17, 31, 32, 33, 63, 64, 65, 127, 128, 129, 247, 248, 249, 254, 255, 256,
             257, 258, 259, 260, 261, 262, 263, 264, 265, 271, 272, 511, 512, 513, 768, 1024, 4096, 32767, 32768,
             65280, 65281, 65534, 65535]

def parse_cases(rng, T):
    cases = []
    def add(b, cls): cases.append(('surj_parse ' + hx(b), ('parse', cls)))
    for b in [b'', b'\x00', b'\x01', b'\x00\x00', b'\x01\x00', b'\x00\x01', b'\xff\xff', b'\x00' * 33, b'\x00' * 34, b'\x00' * 35,
              b'\x01\x00\x00' + b'\x00' * 32, b'\x01\x00\x01' + b'\x00' * 64, b'\x01\x00\x01' + b'\x00' * 32, b'\x01\x00\x00' + b'\x00' * 64]:
        add(b, 'tiny-%d' % len(b))
    nfields = list(N_CLASSES)
    if T: nfields = sorted(set(nfields + list(range(0, 601)) + list(range(600, 65536, 997)) + [rng.randint(0, 65535) for _ in range(100)]))
    for nf in nfields:
        bl = bl_of(nf)
        cls = 'n%d' % nf if nf in N_CLASSES else ('n<=256' if nf <= 256 else 'n>256')
        # for absurd n fields the bitmap is materialised only once (zero pattern); other patterns are cut short
        pats = [('zero', bytes(bl))]
        if 0 < nf <= 272:
            pats.append(('first', bitmap_of(bl, [0])))
            pats.append(('last', bitmap_of(bl, [nf - 1])))
            pats.append(('all', bitmap_of(bl, range(nf))))
            for _ in range(3 if T else 1):
                pats.append(('rand', bitmap_of(bl, [i for i in range(nf) if rng.random() < rng.choice([0.1, 0.5, 0.9])])))
        for pn, bm in pats:
            sig = rng.bytes(32 * (1 + popcount(bm)))
            enc = ser(nf, bm, sig)
            add(enc, cls + '-' + pn)
            if pn in ('zero', 'rand', 'all') and (nf in N_CLASSES or rng.random() < 0.1):
                add(enc[:-1], cls + '-' + pn + '-len-1')
                add(enc + b'\x00', cls + '-' + pn + '-len+1')
                if pn != 'all' or nf <= 64:
                    add(enc + rng.bytes(32), cls + '-' + pn + '-len+32')
                    add(enc[:-32], cls + '-' + pn + '-len-32')
                    add(enc[:2 + bl], cls + '-' + pn + '-nosig')
                    add(enc[:2 + bl - 1] if bl else enc[:2], cls + '-' + pn + '-cutbitmap')
        # padding bits: each single padding bit, all padding bits; signature length counted with / without them
        if nf % 8 and nf <= 272:
            base_idx = [i for i in range(nf) if rng.random() < 0.5]
            padbits = list(range(nf, 8 * bl))
            for pset, pn in [([p], 'pad%d' % (p % 8)) for p in padbits] + [(padbits, 'padall')]:
                bm = bitmap_of(bl, base_idx + pset)
                for count_pad in (0, 1):
                    nsig = 1 + len(base_idx) + (len(pset) if count_pad else 0)
                    add(ser(nf, bm, rng.bytes(32 * nsig)), '%s-%s-%s' % (cls, pn, 'counted' if count_pad else 'uncounted'))
    # the length argument is a size_t: lengths that are right only modulo 2^8 / 2^16 / 2^32 / 2^63 must be refused
    for nf, idx in [(1, [0]), (3, [0, 2]), (8, [1, 5]), (9, []), (64, list(range(0, 64, 3))), (256, [0, 255])]:
        bm = bitmap_of(bl_of(nf), idx); enc = ser(nf, bm, rng.bytes(32 * (1 + len(idx))))
        for d, cls in ((0, 'claimed-exact'), (1 << 32, 'claimed+2^32'), (5 << 32, 'claimed+5*2^32'), (1 << 63, 'claimed+2^63'), (1 << 16, 'claimed+2^16'), (1 << 8, 'claimed+2^8')):
            cases.append(('surj_parse_len %s %d' % (hx(enc), len(enc) + d), ('parse', cls)))
    # byte order of the n_inputs field: 0x0100 is 256, 0x0001 is 1
    add(ser(256, bytes(32), rng.bytes(32)), 'n256-le')
    add(bytes([1, 0]) + bytes(32) + rng.bytes(32), 'n1-as-be256')
    add(bytes([0, 1]) + bytes(1) + rng.bytes(32), 'n256-as-be1')
    return cases


def serialize_cases(rng, T):
    cases = []
    for n, idxs in [(0, []), (1, []), (1, [0]), (5, [0, 4]), (8, list(range(8))), (9, [8]), (256, [0, 255]), (256, list(range(256)))]:
        bm = bitmap_of(bl_of(n), idxs)
        enc = ser(n, bm, rng.bytes(32 * (1 + len(idxs))))
        sz = len(enc)
        for ol in sorted({0, 1, 2, sz - 33, sz - 1, sz, sz + 1, sz + 32, 8258, 10000}):
            if ol < 0: continue
            cases.append(('surj_serialize %s %d' % (hx(enc), ol), ('serialize', 'small' if ol < sz else 'exact' if ol == sz else 'large')))
    cases.append(('surj_serialize %s 100' % hx(ser(3, b'\x0f', rng.bytes(32 * 5))), ('serialize', 'noparse')))
    return cases


# ------------------------------------------------------------------------------------------------
# scenarios: fixed tags + blinding keys; ephemeral tags are obtained from the model's generator_generate
class Eph:
    """cache of ephemeral tags (generator objects) = generator(tag) + blind*G, computed by the model"""
    def __init__(self, ctx): self.ctx = ctx; self.cache = {}; self.pending = []
    def want(self, tag, blind):
        k = (tag, blind % N)
        if k not in self.cache and k not in self.pending: self.pending.append(k)
        return k
    def resolve(self):
        if not self.pending: return
        outs = self.ctx.model(['generator_generate %s %s' % (hx(t), h32(b)) for t, b in self.pending])
        for k, o in zip(self.pending, outs):
            f = o.split(' ')
            assert f[0] == '1' and len(f[1]) == 130, o
            self.cache[k] = f[1]
        self.pending = []
    def tok(self, tag, blind): return self.cache[(tag, blind % N)]


class Scen:
    def __init__(self, n, k, tags, out_tag, in_blinds, out_blind, seed, max_iter, cls):
        self.n, self.k, self.tags, self.out_tag, self.in_blinds, self.out_blind = n, k, tags, out_tag, in_blinds, out_blind
        self.seed, self.max_iter, self.cls = seed, max_iter, cls
        self.ret = None; self.idx = None; self.proof = None
    def init_line(self):
        return 'surj_initialize %d %d %s %s / %s' % (self.k, self.max_iter, hx(self.seed), hx(self.out_tag), ' '.join(hx(t) for t in self.tags))
    def want(self, eph):
        for t, b in zip(self.tags, self.in_blinds): eph.want(t, b)
        eph.want(self.out_tag, self.out_blind)
    def in_toks(self, eph): return [eph.tok(t, b) for t, b in zip(self.tags, self.in_blinds)]
    def out_tok(self, eph): return eph.tok(self.out_tag, self.out_blind)


def neg_tok(t):
    y = int(t[66:], 16); return t[:66] + h32(P - y)


def make_scenarios(rng, T):
    """returns list of scenarios; small n exhaustive over (n, k) (several match patterns in thorough)"""
    TAGS = [rng.bytes(32) for _ in range(10)] + [bytes(32), b'\xff' * 32]
    BL = [0, 1, N - 1, (N - 1) // 2, 2] + [rng.randint(1, N - 1) for _ in range(7)]
    SEEDS = [bytes(32), b'\xff' * 32]
    BIG = [rng.bytes(32) for _ in range(256)]
    BIGBL = [rng.randint(1, N - 1) for _ in range(256)]
    scens = []

    def small(n, k, pattern, max_iter, seed=None, pos=None):
        out_tag = rng.choice(TAGS)
        others = [t for t in TAGS if t != out_tag]
        if pos is not None: pass
        elif pattern == 'none': pos = []
        elif pattern == 'one': pos = [rng.randint(0, n - 1)] if n else []
        elif pattern == 'first': pos = [0] if n else []
        elif pattern == 'last': pos = [n - 1] if n else []
        elif pattern == 'dups': pos = rng.sample(range(n), min(n, rng.randint(2, 4)))
        else: pos = list(range(n))
        # non-matching inputs may repeat among themselves as well
        tags = [out_tag if i in pos else rng.choice(others[:3] if rng.random() < 0.3 else others) for i in range(n)]
        out_blind = rng.choice(BL)
        in_blinds = [rng.choice([b for b in BL if b != out_blind]) for _ in range(n)]
        sd = seed if seed is not None else (rng.choice(SEEDS) if rng.random() < 0.15 else rng.bytes(32))
        scens.append(Scen(n, k, tags, out_tag, in_blinds, out_blind, sd, max_iter, 'n%d-k%d-%s-it%d' % (n, k, pattern, max_iter)))

    patterns = ['none', 'one', 'first', 'last', 'dups', 'all']
    for n in range(1, 9):
        for k in range(0, n + 1):
            if T:
                for p in patterns:
                    for mi in (0, 1, 2, 100):
                        small(n, k, p, mi)
                    small(n, k, p, 100, rng.choice(SEEDS))
                # every position of a single match, every multiplicity of the match
                for q in range(n): small(n, k, 'pos%d' % q, 100, pos=[q])
                for m in range(2, n + 1): small(n, k, 'mult%d' % m, rng.choice([1, 2, 100]), pos=rng.sample(range(n), m))
            else:
                small(n, k, 'one', 100)
                small(n, k, rng.choice(['dups', 'all', 'first', 'last']), rng.choice([0, 1, 2, 100]))
                if rng.random() < 0.5: small(n, k, rng.choice(['none', 'one']), rng.choice([0, 1, 2, 3]))
    # max_iter boundaries with a single match and a small subset (success depends on the iteration count)
    for mi in (0, 1, 2, 3, 5, 100):
        for _ in range(4 if T else 2):
            small(8, 1, 'one', mi); small(6, 2, 'one', mi)
    # n = 0
    for mi in (0, 1, 5): small(0, 0, 'none', mi)
    # argument checks
    small(3, 4, 'one', 100); small(0, 1, 'none', 100); small(8, 9, 'all', 1); small(2, 257, 'one', 1); small(1, 1 << 20, 'one', 1)

    def big(n, k, npos, max_iter, cls=None, out_blind=None):
        pos = rng.sample(range(n), npos)
        tags = list(BIG[:n]); in_blinds = list(BIGBL[:n])
        out_tag = BIG[pos[0]] if pos else TAGS[0]
        for p in pos: tags[p] = out_tag
        ob = rng.choice(BL) if out_blind is None else out_blind
        for p in pos[1:]: in_blinds[p] = rng.choice([b for b in BL if b != ob])   # duplicates of the output tag, other keys
        scens.append(Scen(n, k, tags, out_tag, in_blinds, ob, rng.bytes(32), max_iter, cls or 'n%d-k%d-m%d-it%d' % (n, k, npos, max_iter)))

    for n in ([9, 16, 17, 64, 255, 256] if not T else [9, 10, 15, 16, 17, 31, 32, 33, 63, 64, 65, 100, 128, 200, 254, 255, 256]):
        ks = sorted({0, 1, 2, 3, n // 2, n - 1, n})
        for k in ks:
            big(n, k, 1, 100 if k else 2)
            if k and k <= 3: big(n, k, rng.randint(2, 5), 100)
            if k >= n - 1: big(n, k, 0, 2)           # no match: fails after max_iter rounds
            if k == 1: big(n, k, 1, 1)                # one round only: usually fails
    big(256, 257, 1, 1); big(255, 256, 1, 1)
    # 257 inputs: argument check
    t257 = [rng.bytes(32) for _ in range(257)]
    scens.append(Scen(257, 1, t257, t257[5], [1] * 257, 2, rng.bytes(32), 10, 'n257-argcheck'))
    scens.append(Scen(257, 257, t257, t257[5], [1] * 257, 2, rng.bytes(32), 10, 'n257-k257-argcheck'))
    return scens


def gen_variants(rng, T, sc, eph):
    """lines for surj_generate on an initialized proof"""
    ins = sc.in_toks(eph); out = sc.out_tok(eph); idx = sc.idx
    n = sc.n
    used = [i for i in range(n) if bytes.fromhex(sc.proof)[2 + i // 8] >> (i % 8) & 1]
    unused = [i for i in range(n) if i not in used]
    ib = sc.in_blinds[idx] if idx < n else 1; ob = sc.out_blind
    def line(proof=None, index=idx, inb=ib, outb=ob, o=out, i=ins):
        return 'surj_generate %s %d %s %s %s / %s' % (proof or sc.proof, index, h32(inb), h32(outb), o, ' '.join(i))
    res = [(line(), 'ok', True)]
    var = []
    var.append((line(inb=(ib + 1) % N), 'wrong-in-key'))
    var.append((line(outb=(ob + N - 1) % N), 'wrong-out-key'))
    var.append((line(inb=ob, outb=ib), 'keys-swapped'))
    var.append((line(inb=ib + N if ib + N < M256 else M256 - 1), 'in-key-overflow'))
    var.append((line(outb=ob + N if ob + N < M256 else N), 'out-key-overflow'))
    var.append((line(inb=N), 'in-key-N'))
    var.append((line(inb=0, outb=(ob - ib) % N), 'key-shifted-in0'))          # same difference: still valid
    var.append((line(inb=(ib - ob) % N, outb=0), 'key-shifted-out0'))
    others_used = [i for i in used if i != idx]
    # a wrong index signs at another ring position (position 0 if the index is not selected): the result is a valid
    # proof only if that position holds an identical ephemeral tag
    def same(j): return '-samekey' if ins[used[used.index(j) if j in used else 0]] == ins[idx] else ''
    if others_used: j = rng.choice(others_used); var.append((line(index=j), 'index-other-used' + same(j)))
    if unused: j = rng.choice(unused); var.append((line(index=j), 'index-unused' + same(j)))
    var.append((line(index=n), 'index-n' + same(n))); var.append((line(index=n + 1000), 'index-oob' + same(n)))
    i2 = list(ins); i2[idx] = out
    var.append((line(i=i2), 'selected-in==out'))
    if unused:
        i2 = list(ins); i2[rng.choice(unused)] = out; var.append((line(i=i2), 'unselected-in==out'))
    if others_used:
        i2 = list(ins); i2[rng.choice(others_used)] = out; var.append((line(i=i2), 'other-selected-in==out'))
    if n > 1: var.append((line(i=ins[:-1]), 'count-1'))
    var.append((line(i=ins + [ins[0]]), 'count+1'))
    var.append((line(i=[]), 'count0'))
    i2 = list(ins); i2[idx] = neg_tok(ins[idx]); var.append((line(i=i2), 'selected-in-negated'))
    var.append((line(o=neg_tok(out)), 'out-negated'))
    if n > 1:
        j = rng.choice([i for i in range(n) if i != idx]); i2 = list(ins); i2[idx], i2[j] = i2[j], i2[idx]
        var.append((line(i=i2), 'inputs-swapped' + ('-identical' if ins[idx] == ins[j] else '')))
    # proof object edits before generate: no bit set (ARG_CHECK), all bits cleared but one
    pb = bytes.fromhex(sc.proof); blen = bl_of(n)
    var.append((line(proof=hx(ser(n, bytes(blen), bytes(32)))), 'proof-no-bits'))
    var.append((line(proof=hx(pb[:-1])), 'proof-noparse'))
    if not T and n > 12: var = rng.sample(var, 4)
    elif not T: var = rng.sample(var, 5)
    return res + [(l, c, False) for l, c in var]


def replace_s(pb, n, j, val):
    off = 2 + bl_of(n) + 32 + 32 * j
    return pb[:off] + val.to_bytes(32, 'big') + pb[off + 32:]


def verify_mutations(rng, T, proof_hex, ins, out, n, forged=None, base='honest'):
    """forged: {ring position: small s value} for adversarially built proofs"""
    pb = bytes.fromhex(proof_hex); blen = bl_of(n)
    bm = pb[2:2 + blen]
    used = [i for i in range(n) if bm[i // 8] >> (i % 8) & 1]
    unused = [i for i in range(n) if i not in used]
    nu = len(used)
    def line(p=pb, o=out, i=ins): return 'surj_verify %s %s / %s' % (hx(p), o, ' '.join(i))
    always = [(line(), base + '-valid')]
    m = []
    # scalars
    for j, s in (forged or {}).items():
        m.append((line(p=replace_s(pb, n, j, s + N)), 's+N'))
        m.append((line(p=replace_s(pb, n, j, s + 1)), 's+1'))
    j = rng.randint(0, nu - 1)
    m.append((line(p=replace_s(pb, n, j, 0)), 's=0'))
    m.append((line(p=replace_s(pb, n, j, N)), 's=N'))
    m.append((line(p=replace_s(pb, n, j, M256 - 1)), 's=max'))
    m.append((line(p=replace_s(pb, n, j, N - 1)), 's=N-1'))
    sv = int.from_bytes(pb[2 + blen + 32 + 32 * j:][:32], 'big')
    if sv + N < M256: m.append((line(p=replace_s(pb, n, j, sv + N)), 's+N'))
    # bit flips
    def flip(b, pos): return b[:pos // 8] + bytes([b[pos // 8] ^ (1 << (pos % 8))]) + b[pos // 8 + 1:]
    for _ in range(3 if T else 1):
        m.append((line(p=flip(pb, 8 * (2 + blen) + rng.randint(0, 255))), 'flip-e0'))
        m.append((line(p=flip(pb, 8 * (2 + blen + 32) + rng.randint(0, 256 * nu - 1))), 'flip-s'))
        m.append((line(p=flip(pb, 16 + rng.randint(0, n - 1))), 'flip-bitmap-raw'))
        m.append((line(p=flip(pb, rng.randint(0, 15))), 'flip-nfield'))
    m.append((line(p=flip(pb, 8 * (2 + blen + 32 + 32 * j) + 255)), 'flip-s-msb'))
    # bitmap edits with the signature length fixed up
    if unused:
        a = rng.choice(unused); pos = len([u for u in used if u < a])
        bm2 = flip(bm, a); sig = pb[2 + blen:]
        sig2 = sig[:32 + 32 * pos] + rng.bytes(32) + sig[32 + 32 * pos:]
        m.append((line(p=ser(n, bm2, sig2)), 'bitmap-add-fixlen'))
    if nu > 1:
        a = rng.choice(used); pos = used.index(a)
        bm2 = flip(bm, a); sig = pb[2 + blen:]
        m.append((line(p=ser(n, bm2, sig[:32 + 32 * pos] + sig[64 + 32 * pos:])), 'bitmap-del-fixlen'))
    if unused and nu >= 1:
        a = rng.choice(unused); b = rng.choice(used)
        m.append((line(p=pb[:2] + flip(flip(bm, a), b) + pb[2 + blen:]), 'bitmap-move' + ('-to-identical-tag' if ins[a] == ins[b] else '')))
    m.append((line(p=ser(n, bytes(blen), pb[2 + blen:2 + blen + 32])), 'bitmap-empty'))
    if n % 8:
        pbit = rng.randint(n, 8 * blen - 1)
        m.append((line(p=pb[:2] + flip(bm, pbit) + pb[2 + blen:]), 'padding-bit'))
        m.append((line(p=pb[:2] + flip(bm, pbit) + pb[2 + blen:] + rng.bytes(32)), 'padding-bit-fixlen'))
    # n_inputs field
    for nf in [0, 1, n - 1, n + 1, 255, 256, 257, 263, 65535, n + 256, n << 8]:
        if nf < 0 or nf == n or nf > 65535: continue
        same = bl_of(nf) == blen
        m.append((line(p=ser(nf, bm, pb[2 + blen:])), 'nfield-%s%s' % ('samebl' if same else 'otherbl', '-gt256' if nf > 256 else '')))
    for nf in range(8 * blen - 7, 8 * blen + 1):
        if nf != n and nf > max(used):
            p2 = ser(nf, bm, pb[2 + blen:])
            m.append((line(p=p2), 'nfield-samebl-count-mismatch'))
            ins2 = (ins + [rng.choice(ins)] * 8)[:nf] if nf > n else ins[:nf]
            m.append((line(p=p2, i=ins2), 'nfield-samebl-count-adjusted'))
    # length
    m.append((line(p=pb[:-1]), 'len-1')); m.append((line(p=pb + b'\x00'), 'len+1'))
    m.append((line(p=pb[:-32]), 'len-32')); m.append((line(p=pb + rng.bytes(32)), 'len+32'))
    m.append((line(p=pb[:2]), 'len2')); m.append((line(p=b''), 'len0'))
    # tags
    other = rng.choice([t for t in ins if t != out] or [neg_tok(out)])
    m.append((line(o=other), 'out-replaced'))
    m.append((line(o=neg_tok(out)), 'out-negated'))
    a = rng.choice(used); i2 = list(ins); i2[a] = neg_tok(ins[a]); m.append((line(i=i2), 'used-in-negated'))
    i2 = list(ins); i2[a] = out; m.append((line(i=i2), 'used-in:=out'))
    if unused:
        a = rng.choice(unused); i2 = list(ins); i2[a] = neg_tok(ins[a]); m.append((line(i=i2), 'unused-in-negated'))
        i2 = list(ins); i2[a] = out; m.append((line(i=i2), 'unused-in:=out'))
    if n > 1:
        a, b = rng.sample(range(n), 2); i2 = list(ins); i2[a], i2[b] = i2[b], i2[a]
        m.append((line(i=i2), 'swap-identical' if ins[a] == ins[b] else 'swap-%s-%s' % ('u' if a in used else 'x', 'u' if b in used else 'x')))
        m.append((line(i=ins[1:] + ins[:1]), 'rotate'))
        m.append((line(i=ins[:-1]), 'count-1'))
        a = rng.randint(0, n - 1); b = rng.choice([x for x in range(n) if x != a]); i2 = list(ins); i2[a] = ins[b]
        m.append((line(i=i2), 'dup-overwrite' + ('-identical' if ins[a] == ins[b] else '')))
    m.append((line(i=ins + [ins[-1]]), 'count+1'))
    m.append((line(i=[]), 'count0'))
    if not T: m = rng.sample(m, min(len(m), 7 if n <= 12 else 3))
    return always + m


def generate(rng, tier, ctx):
    T = tier == 'thorough'
    cases = []
    cases += parse_cases(rng, T)
    cases += serialize_cases(rng, T)

    # ---- initialize
    scens = make_scenarios(rng, T)
    outs = ctx.model([s.init_line() for s in scens])
    # near-miss tags: inputs that share a long PREFIX (8, 16, 31 bytes) or suffix with the output tag but differ —
    # none of them may count as a match; with a true match elsewhere the true index must be returned
    for plen in (1, 4, 8, 16, 31):
        for mode in ('nomatch', 'match-after', 'match-before'):
            out = rng.bytes(32)
            near = out[:plen] + bytes(b ^ 0x5a for b in out[plen:])
            nsuf = bytes(b ^ 0xa5 for b in out[:32 - plen]) + out[32 - plen:]
            tags = {'nomatch': [near, nsuf, rng.bytes(32)], 'match-after': [near, nsuf, out], 'match-before': [out, near, nsuf]}[mode]
            for k in (1, 2, 3):
                line = 'surj_initialize %d %d %s %s / %s' % (k, 50, hx(rng.bytes(32)), hx(out), ' '.join(hx(t) for t in tags))
                cases.append((line, ('initialize', 'near-miss-prefix%d-%s' % (plen, mode))))
    for s, o in zip(scens, outs):
        cases.append((s.init_line(), ('initialize', s.cls)))
        f = o.split(' ')
        if len(f) == 4 and not o.startswith('ERR'):
            s.ret, s.idx, s.proof = int(f[0]), int(f[1]), f[2]

    # ---- generate: every successful small scenario, big ones with few used inputs, one with 256 used inputs
    eph = Eph(ctx)
    chosen = []
    full256 = False
    for s in scens:
        if not s.ret or s.n > 256: continue
        if s.n <= 8: chosen.append(s)
        elif s.k <= 3 and (T or rng.random() < 0.6 or s.n >= 255): chosen.append(s)
        elif s.n == 256 and s.k == 256 and not full256: chosen.append(s); full256 = True
        elif T and s.k <= 17: chosen.append(s)
    # some scenarios whose initialization failed (subset without the output tag): generate cannot succeed meaningfully
    failed = [s for s in scens if s.ret == 0 and 0 < s.k <= s.n <= 8 and s.proof and not s.proof.startswith('0300' + '05' + 'aa')]
    failed = failed if T else rng.sample(failed, min(6, len(failed)))
    for s in chosen + failed: s.want(eph)
    eph.resolve()
    gen_lines = []
    for s in chosen:
        big = s.n > 12
        for l, c, main in gen_variants(rng, T, s, eph):
            gen_lines.append((l, c, main, s))
    for s in failed:
        ins = s.in_toks(eph)
        l = 'surj_generate %s %d %s %s %s / %s' % (s.proof, 0, h32(s.in_blinds[0]), h32(s.out_blind), s.out_tok(eph), ' '.join(ins))
        gen_lines.append((l, 'init-failed', False, s))
    gouts = ctx.model([g[0] for g in gen_lines])
    for (l, c, main, s), o in zip(gen_lines, gouts):
        cases.append((l, ('generate', c + ('-big' if s.n > 12 else ''))))

    # ---- verify: honest bases
    for (l, c, main, s), o in zip(gen_lines, gouts):
        f = o.split(' ')
        if len(f) != 4 or f[0] != '1': continue
        if main or (c.startswith('key-shifted') and rng.random() < 0.3):
            if f[2] != '1': continue
            if s.n == 256 and s.k == 256:
                cases.append(('surj_verify %s %s / %s' % (f[1], s.out_tok(eph), ' '.join(s.in_toks(eph))), ('verify', 'honest-valid-256used')))
                pb = bytes.fromhex(f[1])
                cases.append(('surj_verify %s %s / %s' % (hx(replace_s(pb, 256, 255, 0)), s.out_tok(eph), ' '.join(s.in_toks(eph))), ('verify', 's=0-256used')))
                continue
            for vl, vc in verify_mutations(rng, T, f[1], s.in_toks(eph), s.out_tok(eph), s.n, base='honest'):
                cases.append((vl, ('verify', vc + ('-big' if s.n > 12 else ''))))
        elif c in ('wrong-in-key', 'index-unused', 'index-other-used') and rng.random() < (1.0 if T else 0.3):
            # generate said 1 but the proof is not valid: verify on its own must say 0
            cases.append(('surj_verify %s %s / %s' % (f[1], s.out_tok(eph), ' '.join(s.in_toks(eph))), ('verify', 'from-misused-generate')))

    # ---- verify: adversarial bases (forged scalars and nonce chosen by the prover)
    TAGS = [rng.bytes(32) for _ in range(6)]
    BL = [0, 1, N - 1] + [rng.randint(1, N - 1) for _ in range(5)]
    advs = []
    ncount = 60 if T else 24
    for t in range(ncount):
        n = rng.choice([1, 1, 2, 3, 4, 5, 7, 8, 9, 12]) if t >= 10 else t % 10 + 1
        nu = rng.randint(1, min(n, 6)); used = sorted(rng.sample(range(n), nu)); r = rng.randint(0, nu - 1)
        kind = ['plain', 'selected==out', 'unselected==out', 'wrong-sec', 's0-built', 'dup-selected', 'dup-unselected'][t % 7] if t >= 4 else 'plain'
        if kind in ('selected==out', 's0-built', 'dup-selected') and nu < 2:
            if n < 2: n = 3
            nu = 2; used = sorted(rng.sample(range(n), nu)); r = rng.randint(0, nu - 1)
        if kind in ('unselected==out', 'dup-unselected') and nu == n:
            n += 2
        out_tag = TAGS[0]; ob = rng.choice(BL)
        tags = [rng.choice(TAGS[1:]) for _ in range(n)]; ibs = [rng.choice(BL) for _ in range(n)]
        tags[used[r]] = out_tag; ibs[used[r]] = rng.choice([b for b in BL if b != ob])
        copy_out = None
        if kind == 'selected==out':
            cand = [u for u in used if u != used[r]]
            if cand: copy_out = rng.choice(cand)
            else: kind = 'plain'
        if kind == 'unselected==out':
            cand = [u for u in range(n) if u not in used]
            if cand: copy_out = rng.choice(cand)
            else: kind = 'plain'
        if kind == 'dup-selected':
            cand = [u for u in used if u != used[r]]
            if cand: c0 = rng.choice(cand); tags[c0] = out_tag; ibs[c0] = ibs[used[r]]      # identical ephemeral tag twice in the ring
            else: kind = 'plain'
        if kind == 'dup-unselected':      # an unselected input identical to a selected one: the bitmap bit can be moved
            c0 = rng.choice([u for u in range(n) if u not in used]); c1 = rng.choice(used); tags[c0] = tags[c1]; ibs[c0] = ibs[c1]
        if copy_out is not None: tags[copy_out] = out_tag; ibs[copy_out] = ob
        sec = (ob - ibs[used[r]]) % N
        if kind == 'wrong-sec': sec = (sec + 1) % N
        svals = [rng.choice([1, 2, 3, 0xffff, (1 << 64) - 1, (1 << 127) + 5, rng.randint(1, 1 << 100)]) for _ in range(nu)]
        if kind == 's0-built': svals[rng.choice([j for j in range(nu) if j != r])] = 0
        nonce = rng.randint(1, N - 1)
        for tg, b in zip(tags, ibs): eph.want(tg, b)
        eph.want(out_tag, ob)
        advs.append(dict(n=n, used=used, r=r, sec=sec, nonce=nonce, s=svals, tags=tags, ibs=ibs, out=(out_tag, ob), kind=kind))
    eph.resolve()
    alines = []
    for a in advs:
        a['ins'] = [eph.tok(t, b) for t, b in zip(a['tags'], a['ibs'])]; a['outtok'] = eph.tok(*a['out'])
        alines.append('surj_mk_adv %s %d %s %s %s / %s / %s' % (hx(bitmap_of(bl_of(a['n']), a['used'])), a['r'], h32(a['sec']), h32(a['nonce']),
                      a['outtok'], ' '.join(a['ins']), ' '.join(h32(x) for x in a['s'])))
    aouts = ctx.model(alines)
    for a, o in zip(advs, aouts):
        f = o.split(' ')
        if f[0] != '1': continue
        forged = {j: a['s'][j] for j in range(len(a['used'])) if j != a['r'] and a['s'][j] != 0}
        if a['kind'] in ('plain', 'unselected==out', 'dup-selected', 'dup-unselected'):
            for vl, vc in verify_mutations(rng, True, f[1], a['ins'], a['outtok'], a['n'], forged=forged, base='adv-' + a['kind']):
                cases.append((vl, ('verify', vc)))
        else:
            cases.append(('surj_verify %s %s / %s' % (f[1], a['outtok'], ' '.join(a['ins'])), ('verify', 'adv-' + a['kind'])))
    return cases
