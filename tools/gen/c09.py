"""C09: range-proof creation pipeline (sign -> verify / info / rewind of the produced proof), buffer and
message capacity boundaries, parameter clamps (exhaustive exp x min_bits grid on the internal
secp256k1_range_proveparams), size bound, rewind with other nonces / message buffers."""
from .common import *
from .c08 import HGEN, commit_bytes, commit_pt

U64MAX = (1 << 64) - 1
I64MAX = (1 << 63) - 1


def clz64(x): return 64 - x.bit_length()


def est_params(minv, exp, min_bits, value):
    """Port of sign_impl's argument checks + secp256k1_range_proveparams. Used ONLY to budget model time, to
    pick boundary buffer / message sizes and to label classes - never as an oracle."""
    if minv > value or min_bits > 64 or min_bits < 0 or exp < -1 or exp > 18: return {'fail': 'argrange'}
    if minv == U64MAX: exp = -1
    if exp >= 0:
        if (minv and value > I64MAX) or (value and minv >= I64MAX): return {'fail': 'proveparams'}
        max_bits = clz64(minv) if minv else 64
        min_bits = min(min_bits, max_bits)
        if min_bits > 61 or value > I64MAX: exp = 0
        v = value - minv
        v2 = (U64MAX >> (64 - min_bits)) if min_bits else 0
        i = 0
        while i < exp and v2 <= U64MAX // 10:
            v //= 10; v2 *= 10; i += 1
        exp = i
        minv = value - v * 10 ** exp
        mant = v.bit_length() if v else 1
        mant = max(mant, min_bits)
        rings = (mant + 1) >> 1
        npub = 4 * rings - (2 if mant & 1 else 0)
        hdr = 2 + (8 if minv else 0)
        need = hdr + 32 * (npub + rings - 1) + 32 + ((rings + 6) >> 3)
        return {'fail': None, 'mant': mant, 'rings': rings, 'npub': npub, 'need': need, 'plen': need, 'cap': 128 * (rings - 1), 'exp': exp, 'minv': minv}
    hdr = 1 + (8 if value else 0)
    return {'fail': None, 'mant': 0, 'rings': 1, 'npub': 1, 'need': hdr + 96, 'plen': hdr + 64, 'cap': 0, 'exp': -1, 'minv': value}


def sign_line(minv, blind, nonce, exp, mb, value, msg, extra, gen, buflen, commit=None):
    """None when the commitment would be the point at infinity"""
    if commit is None:
        cp = commit_pt(blind % N, value, gen)
        if cp is None: return None
        commit = commit_bytes(cp)
    return 'rangeproof_sign %d %s %s %s %d %d %d %s %s %s %d' % (minv, hx(commit), h32(blind), hx(nonce), exp, mb, value, opt(msg), opt(extra), pt(gen), buflen)


VALUES = [0, 1, 2, 3, 4, 5, 7, 9, 15, 16, 99, 100, 255, 256, 1000] + [10 ** k for k in range(1, 20)] + [2 ** k for k in range(2, 64)] + \
         [2 ** k - 1 for k in (8, 16, 31, 32, 33, 62, 63, 64)] + [I64MAX - 1, I64MAX, I64MAX + 1, I64MAX + 2, U64MAX - 1, U64MAX, 10 ** 18 + 1, 10 ** 19 + 1, 12345678901234567890]
BLINDS = [0, 1, N - 1, N, M256 - 1]


def pick_value(rng):
    u = rng.random()
    if u < 0.5: return rng.choice(VALUES)
    if u < 0.8: return rng.randint(0, (1 << rng.randint(1, 12)) - 1)
    return rng.randint(0, (1 << rng.randint(1, 64)) - 1)


def pick_min(rng, value):
    u = rng.random()
    if u < 0.45: return 0
    if u < 0.55: return value
    if u < 0.65: return max(0, value - rng.randint(1, 20))
    if u < 0.85: return rng.randint(0, value)
    if u < 0.9: return min(value, rng.choice([1, I64MAX - 1, I64MAX, I64MAX + 1]))
    return rng.randint(0, min(value, 1000))


def pick_msg(rng, cap):
    u = rng.random()
    if u < 0.15: return None
    if u < 0.3: return b''
    if cap == 0: return rng.choice([None, b''])
    if u < 0.7: return rng.bytes(min(cap, rng.randint(1, 40)))
    if u < 0.85 and cap > 0: return rng.bytes(rng.choice([cap, cap - 1, max(1, cap - 31), max(1, cap - 32), max(1, cap - 33)]))
    if cap > 0: return rng.bytes(rng.randint(1, cap))
    return None


def pick_extra(rng):
    u = rng.random()
    if u < 0.3: return None
    if u < 0.4: return b''
    return rng.bytes(rng.choice([1, 31, 32, 33, 55, 56, 63, 64, 65, 100, rng.randint(1, 100)]))


def pick_blind(rng, ok_only=False):
    if rng.random() < 0.7: return rng.rand256() % N or 1
    if ok_only: return rng.choice([1, N - 1, 2, N - 2])
    return rng.choice(BLINDS)


def generate(rng, tier, ctx):
    cases = []
    n = {'quick': 1, 'thorough': 6}[tier]
    gens = [HGEN, pmul(rng.seckey(), G), pmul(rng.seckey(), G)]

    # ---- A. exhaustive exp x min_bits grid on the internal parameter derivation
    pairs = [(0, 0), (1, 0), (12345678, 12345), (10 ** 18 + 7, 0), (I64MAX, 0), (I64MAX, I64MAX - 1), (I64MAX + 1, 0), (U64MAX, 0),
             (I64MAX, I64MAX), (I64MAX + 1, 1), (U64MAX, U64MAX), (3, 3), (4611686018427387904, 1)]
    if tier != 'quick':
        for _ in range(12):
            v = pick_value(rng); pairs.append((v, pick_min(rng, v)))
    for (v, mv) in pairs:
        for e in range(-1, 19):
            for mb in range(0, 65):
                cases.append(('range_proveparams %d %d %d %d' % (mv, e, mb, v), ('proveparams', 'grid-e%d-b%d' % (e, mb))))
    # random points of the same function
    for _ in range(300 * n):
        v = pick_value(rng); mv = pick_min(rng, v)
        cases.append(('range_proveparams %d %d %d %d' % (mv, rng.randint(-1, 18), rng.randint(0, 64), v), ('proveparams', 'random')))

    # ---- B. size bound
    for v in [0, 1, 2, 3, 4, 255, 256, 10 ** 18, I64MAX, I64MAX + 1, U64MAX] + [pick_value(rng) for _ in range(8 * n)]:
        for mb in range(-1, 66):
            cases.append(('rangeproof_max_size %d %d' % (v, mb), ('max_size', 'v%d-b%d' % (v.bit_length(), mb))))

    # ---- C. creation pipeline; model cost is about 12 point multiplications per mantissa bit
    quota = {'small': 170 * n, 'medium': 45 * n, 'large': 14 * n}
    fixed_large = [(0, 0, 64, U64MAX), (0, 0, 0, U64MAX), (0, 0, 64, 0), (0, 3, 63, 5), (0, 0, 0, I64MAX + 1), (1, 0, 0, I64MAX), (0, 18, 61, 1), (0, 18, 62, 1)]
    for (mv, e, mb, v) in fixed_large:
        bl = rng.rand256() % N; msg = rng.bytes(rng.choice([0, 17, 3968])); g = rng.choice(gens)
        est = est_params(mv, e, mb, v)
        if len(msg) > est['cap']: msg = msg[:est['cap']]
        l = sign_line(mv, bl, rng.bytes(32), e, mb, v, msg, pick_extra(rng), g, 5134)
        cases.append((l, ('sign', 'fixed-m%d-e%d' % (est['mant'], e)))); quota['large'] -= 1
    tries = 0
    while any(q > 0 for q in quota.values()) and tries < 100000:
        tries += 1
        v = pick_value(rng); mv = pick_min(rng, v)
        e = rng.choice([-1, 0, 0, 1, 2, 3, 18, rng.randint(-1, 18), rng.randint(0, 18)])
        if v >= 10 ** 6 and rng.random() < 0.5: e = min(18, max(0, len(str(v)) - rng.randint(1, 4)))
        mb = rng.choice([0, 0, 0, 1, 2, 3, 4, 5, 8, rng.randint(0, 16), rng.randint(0, 64), 61, 62, 63, 64])
        est = est_params(mv, e, mb, v)
        if est['fail']: continue
        bucket = 'small' if est['mant'] <= 8 else 'medium' if est['mant'] <= 32 else 'large'
        if quota[bucket] <= 0: continue
        bl = pick_blind(rng, ok_only=True)
        msg = pick_msg(rng, est['cap']); extra = pick_extra(rng); g = rng.choice(gens)
        buflen = 5134 if rng.random() < 0.7 else rng.choice([est['need'], est['need'] + 1, rng.randint(est['need'], 5134)])
        l = sign_line(mv, bl, rng.bytes(32), e, mb, v, msg, extra, g, buflen)
        if l is None: continue
        quota[bucket] -= 1
        cls = 'ok-m%d-e%d%s%s%s' % (est['mant'], est['exp'], '-min' if est['minv'] else '', '-mineqv' if mv == v else '',
                                    '-msgcap' if msg and len(msg) == est['cap'] else '-msg' if msg else '')
        cases.append((l, ('sign', cls)))

    # ---- failing (and borderline) parameter sets: cheap on the model side, only small mantissas when they succeed
    def small_ok(rng):
        v = rng.randint(0, 255); mv = rng.choice([0, 0, v, rng.randint(0, v)]); e = rng.choice([-1, 0, 0, 1]); mb = rng.choice([0, 0, 1, 3, 4])
        return mv, e, mb, v
    for _ in range(25 * n):       # argument ranges
        mv, e, mb, v = small_ok(rng)
        kind = rng.choice(['exp-2', 'exp19', 'bits-1', 'bits65', 'min>value', 'buf64', 'buf0', 'buf65'])
        buflen = 5134
        if kind == 'exp-2': e = -2
        if kind == 'exp19': e = 19
        if kind == 'bits-1': mb = -1
        if kind == 'bits65': mb = 65
        if kind == 'min>value': mv = v + rng.choice([1, 2, 1 << 40]);
        if kind == 'buf64': buflen = 64
        if kind == 'buf0': buflen = 0
        if kind == 'buf65': buflen = 65
        l = sign_line(mv, rng.rand256() % N or 1, rng.bytes(32), e, mb, v, pick_msg(rng, 0), pick_extra(rng), rng.choice(gens), buflen)
        if l: cases.append((l, ('sign', 'bad-' + kind)))
    for _ in range(20 * n):       # 2^63 guards
        kind = rng.choice(['min&big', 'bigmin', 'big-min0', 'minmax', 'i64max-min1', 'bigmin-v0'])
        e = rng.choice([-1, 0, 0, 5]); mb = 0
        if kind == 'min&big': v = rng.choice([I64MAX + 1, U64MAX, I64MAX + 5]); mv = rng.choice([1, 5, I64MAX])
        if kind == 'bigmin': v = rng.choice([I64MAX, I64MAX + 1, U64MAX]); mv = rng.choice([I64MAX, v])
        if kind == 'big-min0': v = rng.choice([I64MAX + 1, U64MAX, U64MAX - 1]); mv = 0; mb = rng.choice([0, 64]); e = rng.choice([-1, 0, 7])
        if kind == 'minmax': v = U64MAX; mv = U64MAX
        if kind == 'i64max-min1': v = I64MAX; mv = rng.choice([1, I64MAX - 1]); e = 0
        if kind == 'bigmin-v0': v = rng.choice([I64MAX - 1, I64MAX]); mv = v
        est = est_params(mv, e, mb, v)
        if not est['fail'] and est['mant'] > 40 and rng.random() < 0.7: continue   # 64-bit proofs are expensive in the model
        l = sign_line(mv, rng.rand256() % N or 1, rng.bytes(32), e, mb, v, None, pick_extra(rng), rng.choice(gens), 5134)
        if l: cases.append((l, ('sign', 'guard-' + kind + ('-fail' if est['fail'] else '-ok'))))
    for _ in range(30 * n):       # message capacity
        mv, e, mb, v = small_ok(rng)
        est = est_params(mv, e, mb, v)
        if est['fail']: continue
        ln = rng.choice([est['cap'] + 1, est['cap'] + 1, est['cap'] + 2, est['cap'] + 129, 4000, 4096, rng.randint(est['cap'] + 1, 4000), est['cap']])
        if ln == 0: continue
        l = sign_line(mv, rng.rand256() % N or 1, rng.bytes(32), e, mb, v, rng.bytes(ln), pick_extra(rng), rng.choice(gens), 5134)
        if l: cases.append((l, ('sign', 'msglen-cap%+d' % (ln - est['cap']) if ln - est['cap'] < 3 else 'msglen-over')))
    for _ in range(45 * n):       # buffer sizes around the requirement
        mv, e, mb, v = small_ok(rng)
        est = est_params(mv, e, mb, v)
        if est['fail']: continue
        d = rng.choice([-1, 0, 1, -32, -33, 'plen', 'plen-1', 'rand'])
        buflen = est['plen'] if d == 'plen' else est['plen'] - 1 if d == 'plen-1' else rng.randint(0, est['need']) if d == 'rand' else est['need'] + d
        l = sign_line(mv, rng.rand256() % N or 1, rng.bytes(32), e, mb, v, None, None, rng.choice(gens), max(0, buflen))
        if l: cases.append((l, ('sign', 'buf-%s%s' % (d, '-exact' if est['mant'] == 0 else ''))))
    for _ in range(40 * n):       # blinding factors
        mv, e, mb, v = small_ok(rng)
        if rng.random() < 0.4: mb = rng.choice([0, 1, 2, 3])
        bl = rng.choice(BLINDS + [N + 1, N + 5, M256 - 2, 2, N - 2])
        l = sign_line(mv, bl, rng.bytes(32), e, mb, v, pick_msg(rng, 0), pick_extra(rng), rng.choice(gens), 5134)
        if l:
            est = est_params(mv, e, mb, v)
            cases.append((l, ('sign', 'blind-%s-r%d' % ('ov' if bl >= N else '0' if bl == 0 else 'edge', est['rings']))))
    for _ in range(10 * n):       # commitment that does not open to (blind, value): proof is made but must not verify
        mv, e, mb, v = small_ok(rng)
        g = rng.choice(gens); bl = rng.rand256() % N or 1
        kind = rng.choice(['value+1', 'blind+1', 'othergen', 'random'])
        cp = commit_pt(bl, v + 1, g) if kind == 'value+1' else commit_pt(bl + 1, v, g) if kind == 'blind+1' else commit_pt(bl, v, gens[(gens.index(g) + 1) % 3]) if kind == 'othergen' else rng.point()
        if cp is None: continue
        l = sign_line(mv, bl, rng.bytes(32), e, mb, v, None, None, g, 5134, commit=commit_bytes(cp))
        cases.append((l, ('sign', 'wrongcommit-' + kind)))

    # ---- E. rewind of library proofs with other nonces / message buffers (first pass through the model)
    base = []
    for _ in range(14 * n):
        mv, e, mb, v = small_ok(rng)
        est = est_params(mv, e, mb, v)
        if est['fail']: continue
        g = rng.choice(gens); bl = rng.rand256() % N or 1; nonce = rng.bytes(32); extra = pick_extra(rng)
        msg = pick_msg(rng, est['cap'])
        cp = commit_pt(bl, v, g)
        if cp is None: continue
        l = sign_line(mv, bl, nonce, e, mb, v, msg, extra, g, 5134)
        base.append((l, hx(commit_bytes(cp)), nonce, extra, g, est))
    outs = ctx.model([b[0] for b in base])
    for (l, c, nonce, extra, g, est), o in zip(base, outs):
        t = o.split(' ')
        if t[0] != '1': continue
        proof = t[2]
        cases.append(('rangeproof_verify %s %s %s %s' % (c, proof, opt(extra), pt(g)), ('verify', 'library-m%d' % est['mant'])))
        cases.append(('rangeproof_info %s' % proof, ('info', 'library-m%d' % est['mant'])))
        # ... and the same calls on damaged copies (C10 does this systematically)
        pb = bytes.fromhex(proof); k = rng.randint(0, len(pb) * 8 - 1)
        flipped = pb[:k // 8] + bytes([pb[k // 8] ^ (1 << (k % 8))]) + pb[k // 8 + 1:]
        for kind, q in [('bitflip', flipped), ('trunc-1', pb[:-1]), ('trail+1', pb + b'\0'), ('reserved', bytes([pb[0] | 128]) + pb[1:]), ('trunc64', pb[:64])]:
            cases.append(('rangeproof_verify %s %s %s %s' % (c, hx(q), opt(extra), pt(g)), ('verify', 'library-' + kind)))
            cases.append(('rangeproof_info %s' % hx(q), ('info', 'library-' + kind)))
        full = 32 * max(0, est['npub'] - 2)
        for mbuf in ['_', 'x', '0', '1', '31', '32', '33', str(max(0, full - 1)), str(full), str(full + 1), '4096']:
            cases.append(('rangeproof_rewind %s %s %s %s %s %s' % (c, proof, hx(nonce), opt(extra), pt(g), mbuf), ('rewind', 'buf-' + (mbuf if not mbuf.isdigit() or int(mbuf) < 40 or mbuf == '4096' else 'full%+d' % (int(mbuf) - full)))))
        for kind in ['flip', 'random', 'zero']:
            nb = bytearray(nonce)
            if kind == 'flip': nb[rng.randint(0, 31)] ^= 1 << rng.randint(0, 7)
            if kind == 'random': nb = bytearray(rng.bytes(32))
            if kind == 'zero': nb = bytearray(32)
            cases.append(('rangeproof_rewind %s %s %s %s %s 4096' % (c, proof, hx(bytes(nb)), opt(extra), pt(g)), ('rewind', 'othernonce-' + kind)))
        # rewinding against other extra data / generator must fail as verification does
        cases.append(('rangeproof_rewind %s %s %s %s %s 4096' % (c, proof, hx(nonce), hx((extra or b'') + b'\x00'), pt(g)), ('rewind', 'otherextra')))
        cases.append(('rangeproof_rewind %s %s %s %s %s 4096' % (c, proof, hx(nonce), opt(extra), pt(gens[(gens.index(g) + 1) % 3])), ('rewind', 'othergen')))
    # ---- message blocks that hit the rare refusal: the prover's stream XOR message block is a scalar >= n (probability
    # 2^-128 per block for a random message; a caller who knows the nonce can aim for it). The stream is taken from
    # the model (`rangeproof_genrand`, model only); exp = 0, min_value = 0, min_bits = m make the header predictable.
    from .c10 import header_bytes, layout
    first = []
    for _ in range(6 * n):
        m = rng.choice([4, 6, 8, 10]); rings, rsizes, npub = layout(m)
        v = rng.randint(1 << (m - 1), (1 << m) - 1)
        g = rng.choice(gens); nonce = rng.bytes(32); bl = rng.rand256() % N or 1
        cp = commit_pt(bl, v, g)
        first.append(('rangeproof_genrand %s %s %s %s %d' % (hx(nonce), hx(commit_bytes(cp)), hx(header_bytes(0, m, 0)), pt(g), m), m, v, g, nonce, bl, npub, rings))
    for (l, m, v, g, nonce, bl, npub, rings), o in zip(first, ctx.model([f[0] for f in first])):
        parts = o.split(' / ')
        if len(parts) != 3 or parts[0] != '1': continue
        blocks = [bytes.fromhex(x) for x in parts[2].split(' ')]
        for j in rng.sample(range(4 * (rings - 1)), min(3, 4 * (rings - 1))):
            for top in (b'\xff' * 32, b'\xff' * 16 + rng.bytes(16), N.to_bytes(32, 'big'), (N - 1).to_bytes(32, 'big'), bytes(32)):
                msg = bytearray(rng.bytes(32 * 4 * (rings - 1)) if rng.random() < 0.5 else bytes(32 * 4 * (rings - 1)))
                msg[32 * j:32 * j + 32] = bytes(a ^ c for a, c in zip(blocks[j], top))
                cls = 'msg-xor-stream-' + ('ones' if top[0] == 0xff and top[31] == 0xff else 'ge-n' if top[:16] == b'\xff' * 16 else 'eq-n' if top == N.to_bytes(32, 'big') else 'n-1' if top != bytes(32) else 'zero')
                ln = sign_line(0, bl, nonce, 0, m, v, bytes(msg), None, g, 5134)
                if ln: cases.append((ln, ('sign_crafted', cls)))
    return cases
