"""C13: a MuSig secret nonce signs at most once.  Histories of API calls over a pool of two secnonce objects,
executed inside one protocol line (`musig_history`): exhaustive enumeration of all step sequences up to a
bounded depth, plus random longer histories.  The model's answers are additionally compared, inside the
generator, with an abstract single-use model (a slot is either empty or holds a live nonce; every signing call
that is handed the slot empties it; only a live nonce with the right keypair / cache / session signs)."""
import itertools
from .common import *
from .c12 import drive, ser66

GEN_MODES = ['gen', 'genbad', 'genbadsk', 'genbadcache', 'gennullpub', 'genctr', 'genctrbadkp', 'genctrzerosec', 'genctrovfsec']
SIGN_MODES = ['ok', 's2', 'wrongkp', 'negkp', 'zerokp', 'nullout', 'nullkp', 'nullcache', 'nullsession', 'badcache', 'badsession',
              'zeroed', 'badmagic', 'nullnonce']
FULL = [g + s for g in GEN_MODES for s in '01'] + ['sign%s:%s' % (s, m) for m in SIGN_MODES for s in '01'] + ['copy01', 'copy10']
CORE = ['gen0', 'gen1', 'genbad0', 'genctr0', 'genctrzerosec0', 'sign0:ok', 'sign1:ok', 'sign0:s2', 'sign0:wrongkp', 'sign0:negkp', 'sign0:nullout',
        'sign0:badcache', 'sign0:badsession', 'sign0:zeroed', 'copy01', 'copy10']

def sanity(cond, what):
    if not cond: raise RuntimeError('c13 abstract-model check failed: ' + what)

def abstract(steps):
    """expected (ret, illegal, slot0 empty, slot1 empty, wiped) per step; nonce ids stand for live nonces"""
    slots = [None, None]; fresh = 0; exp = []
    for st in steps:
        wiped = None
        if st.startswith('copy'):
            a, b = int(st[4]), int(st[5]); slots[b] = slots[a]; ret, ill = 1, 0
        elif st.startswith('gen'):
            i = int(st[-1]); m = st[:-1]
            if m in ('gen', 'genctr'): fresh += 1; slots[i] = fresh; ret, ill = 1, 0
            else: slots[i] = None; ret = 0; ill = 0 if m in ('genbad', 'genbadsk', 'genctrzerosec', 'genctrovfsec') else 1
            if not m.startswith('genctr'): wiped = 1 if m in ('gen', 'genbad') else 0
        else:
            i = int(st[4]); m = st[6:]
            if m == 'nullnonce': ret, ill = 0, 1
            else:
                live = slots[i] is not None and m not in ('zeroed', 'badmagic')
                slots[i] = None                                   # whatever happens, the object is consumed
                if live and m in ('ok', 's2'): ret, ill = 1, 0
                else: ret, ill = 0, 1
        exp.append((ret, ill, int(slots[0] is None), int(slots[1] is None), wiped))
    return exp

def check_against_abstract(line, out):
    lt = line.split(); steps = lt[lt.index('/') + 1:]
    ot = out.split(); k = ot.index('/'); res = ot[:k]; tail = ot[k + 1:]
    sanity(len(res) == len(steps) and len(tail) == 2, 'step count: ' + out[:200])
    ab = abstract(steps)
    for st, e, r in zip(steps, ab, res):
        f = r.split(',')
        got = (int(f[0]), int(f[1][1:]), int(f[2][1]), int(f[2][2]))
        sanity(got == e[:4], 'step %s of [%s]: expected %s got %s' % (st, ' '.join(steps), e[:4], r))
        w = [x for x in f[3:] if x.startswith('w')]
        sanity((e[4] is None and not w) or (e[4] is not None and w == ['w%d' % e[4]]), 'randomness wipe flag at %s: %s' % (st, r))
        has_sig = any(len(x) == 64 for x in f[3:])
        sanity(has_sig == (st.startswith('sign') and e[0] == 1), 'signature presence at %s: %s' % (st, r))
    z = (ab[-1][2], ab[-1][3]) if ab else (1, 1)
    for k in (0, 1): sanity((tail[k] == '00000000:' + '0' * 64 + ':' + '0' * 64 + ':Z') == bool(z[k]), 'final dump of slot %d: %s' % (k, tail[k][:80]))

def setup(rng):
    sk = rng.seckey(); sk2 = rng.seckey()
    while sk2 in (sk, N - sk): sk2 = rng.seckey()
    pk, pk2 = pmul(sk, G), pmul(sk2, G)
    order = [pk, pk2] if rng.random() < 0.5 else [pk2, pk]
    out = yield [('musig_pubkey_agg - ' + ' '.join(map(pt, order)), ('setup', 'keyagg'))]
    cache = out[0].split()[2]
    if rng.random() < 0.5:
        out = yield [('musig_xonly_tweak_add - %s %s' % (cache, h32(rng.seckey())), ('setup', 'tweak'))]
        cache = out[0].split()[2]
    msg = rng.bytes(32); msg2 = rng.bytes(32)
    pns = [ser66(pmul(rng.seckey(), G), pmul(rng.seckey(), G)) for _ in range(2)]
    out = yield [('musig_nonce_agg - ' + ' '.join(pns), ('setup', 'nonceagg'))]
    an = out[0].split()[1]
    out = yield [('musig_nonce_process - %s %s %s _' % (an, hx(msg), cache), ('setup', 'process')),
                 ('musig_nonce_process - %s %s %s _' % (an, hx(msg2), cache), ('setup', 'process'))]
    se, se2 = out[0].split()[1], out[1].split()[1]
    seed = rng.bytes(28) + b'\0\0\0\0'
    if rng.random() < 0.3: seed = b'\0' * 32               # step 0 then has all-zero randomness even for `gen`
    ctr = rng.choice([0, 1, (1 << 32) - 2, (1 << 64) - 3, rng.randint(0, (1 << 64) - 1)])
    return '%s %s %s %s %s %s %s %s %s %d' % (h32(sk), pt(pk), h32(sk2), pt(pk2), hx(msg), cache, se, se2, hx(seed), ctr)

def hist(prefixes, seqs, fam, cls_of):
    lines = [('musig_history %s / %s' % (prefixes[k % len(prefixes)], ' '.join(s)), (fam, cls_of(s))) for k, s in enumerate(seqs)]
    out = yield lines
    for (l, _t), o in zip(lines, out):
        if l.split()[9] == '00' * 32: continue    # all-zero seed: `gen` at step 0 behaves like `genbad`
        check_against_abstract(l, o)

def generate(rng, tier, ctx):
    quick = tier == 'quick'
    # setups (run through the model to obtain cache and sessions)
    box = []
    def grab(rng):
        r = yield from setup(rng); box.append(r)
    nsetup = 3 if quick else 8
    cases = drive(ctx, [grab(rng) for _ in range(nsetup)])
    normal = [b for b in box if b.split()[8] != '00' * 32] or box
    while len(normal) < 2:
        extra = []
        def grab2(rng):
            r = yield from setup(rng); extra.append(r)
        cases += drive(ctx, [grab2(rng)])
        normal += [b for b in extra if b.split()[8] != '00' * 32]; box += extra
    seqs = []
    depth = 3 if quick else 4
    for d in range(0, depth + 1): seqs += list(itertools.product(CORE, repeat=d))
    coros = [hist(normal[:1], seqs, 'exhaustive_core', lambda s: 'depth%d-%s' % (len(s), s[-1] if s else 'empty'))]
    coros.append(hist(normal[1:2], list(itertools.product(FULL, repeat=2)) + [(a,) for a in FULL], 'exhaustive_full',
                      lambda s: '%s' % (s[-1])))
    # every failing call in front of every signing attempt, with and without a copy taken before the failing call
    focus = []
    for g in ['gen0', 'genctr0']:
        for m in SIGN_MODES:
            for fin in ['sign0:ok', 'sign0:s2', 'sign1:ok']:
                focus.append((g, 'sign0:' + m, fin)); focus.append((g, 'copy01', 'sign0:' + m, fin, 'sign1:ok'))
        for gm in GEN_MODES:
            focus.append((g, gm + '0', 'sign0:ok')); focus.append((g, 'copy01', gm + '0', 'sign0:ok', 'sign1:ok'))
    coros.append(hist(normal, focus, 'focus', lambda s: ' '.join(s[1:])))
    nrand = 150 if quick else 1500
    rnd = []
    for _ in range(nrand):
        L = rng.choice([5, 10, 20, 50, rng.randint(1, 50)])
        alpha = FULL if rng.random() < 0.5 else CORE + ['gen1', 'genctr1', 'sign1:s2', 'sign1:wrongkp', 'sign1:badmagic', 'sign1:negkp']
        rnd.append(tuple(rng.choice(alpha) for _ in range(L)))
    coros.append(hist(box, rnd, 'random', lambda s: 'len%d' % (len(s) // 10 * 10)))
    cases += drive(ctx, coros)
    return cases
