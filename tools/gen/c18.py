"""C18: ECDH and ElligatorSwift (decode / encode / create / xdh + internal map pieces).

Python-side copies of the forward and inverse map are used only to *construct* inputs that reach a
chosen branch; results are never used as an oracle (the check diffs the C code against the Lean model)."""
import os, re
from .common import *

REPO = os.environ.get('VERIF_REPO', '/repo')
C1 = 0x851695d49a83f8ef919bb86153cbcb16630fb68aed0a766a3ec693d68e6afa40
C2 = 0x7ae96a2b657c07106e64479eac3434e99cf0497512f58995c1396c28719501ee
C3 = 0x7ae96a2b657c07106e64479eac3434e99cf0497512f58995c1396c28719501ef
C4 = 0x851695d49a83f8ef919bb86153cbcb16630fb68aed0a766a3ec693d68e6afa41

def is_sq(a): return pow(a % P, (P - 1) // 2, P) in (0, 1)
def sqrt(a):
    a %= P; r = pow(a, (P + 1) // 4, P)
    return r if r * r % P == a else None
def on_curve_x(x): return is_sq(x * x * x + 7)

def xswiftec(u, t):
    """returns (x, branch) with branch in {3, 2, 1}, plus flags of remapped exceptional cases"""
    u %= P; t %= P; flags = []
    if u == 0: u = 1; flags.append('u0')
    s = t * t % P
    if t == 0: s = 1; flags.append('t0')
    g = (u * u * u + 7) % P
    if (g + s) % P == 0: s = 4 * s % P; flags.append('gs0')
    p = (g + s) % P
    d = 3 * s * u * u % P
    n = (d * u - p * p) % P
    x3 = n * inv(d) % P
    if on_curve_x(x3): return x3, 3, flags
    x2 = u * (C1 * s + C2 * g) % P * inv(p) % P
    if on_curve_x(x2): return x2, 2, flags
    return (-(x2 + u)) % P, 1, flags

def xswiftec_inv(x, u, c):
    x %= P; u %= P
    if not (c & 2):
        if on_curve_x(-x - u): return None
        s = (-(u * u + u * x + x * x)) % P
        g = (u * u * u + 7) % P
        if not is_sq(s * g): return None
        s = g * inv(s) % P if s else 0
        v = x
    else:
        s = (x - u) % P
        if not is_sq(s): return None
        q = (-s * (4 * (u * u * u + 7) + 3 * u * u * s)) % P
        r = sqrt(q)
        if r is None: return None
        if (c & 1) and r == 0: return None
        if s == 0: return None
        v = (r * inv(s) - u) * inv(2) % P
    w = sqrt(s)
    if w is None: return None
    m = (-w) % P if (c & 5) in (0, 5) else w
    return m * ((C4 if c & 1 else C3) * u + v) % P

def enc_variants(rng, v):
    """32-byte encodings of the field element v: canonical, and v+P when it fits"""
    out = [v % P]
    if v % P + P < M256: out.append(v % P + P)
    return out

def ell(u, t): return h32(u) + h32(t)

FIELD_EDGES = [0, 1, 2, P - 2, P - 1, P, P + 1, M256 - 1]
SECRETS = [0, 1, 2, N - 2, N - 1, N, N + 1, M256 - 1, (N - 1) // 2, (N + 1) // 2, 1 << 255, P, P - 1]
RNDS = [0, 1, M256 - 1, 1 << 255, N, P]

def parse_vectors():
    """fixed vectors of /repo/src/modules/ellswift/tests_impl.h: (inv tests (u, x)), decode encodings, xdh tests"""
    try:
        src = open(os.path.join(REPO, 'src/modules/ellswift/tests_impl.h')).read()
    except OSError:
        return [], [], []
    def fe(m): return int(''.join('%08x' % int(w.strip(), 0) for w in m.split(',')), 16)
    def bytes_of(m): return bytes(int(b, 16) for b in re.findall(r'0x([0-9a-fA-F]{2})', m))
    inv_tests, dec_tests, xdh_tests = [], [], []
    a = src.find('ellswift_xswiftec_inv_tests[] = {'); b = src.find('\n};', a)
    for line in src[a:b].split('\n')[1:]:
        fes = re.findall(r'SECP256K1_FE_CONST\(([^)]*)\)', line)
        if len(fes) >= 2: inv_tests.append((fe(fes[0]), fe(fes[1])))
    a = src.find('ellswift_decode_tests[] = {'); b = src.find('\n};', a)
    for line in src[a:b].split('\n')[1:]:
        m = re.match(r'\s*\{\{([^}]*)\}', line)
        if m and len(bytes_of(m.group(1))) == 64: dec_tests.append(bytes_of(m.group(1)))
    a = src.find('ellswift_xdh_tests_bip324[] = {'); b = src.find('\n};', a)
    for line in src[a:b].split('\n')[1:]:
        m = re.match(r'\s*\{\{([^}]*)\},\s*\{([^}]*)\},\s*\{([^}]*)\},\s*(\d),\s*\{([^}]*)\}\}', line)
        if m:
            xdh_tests.append((bytes_of(m.group(1)), bytes_of(m.group(2)), bytes_of(m.group(3)), int(m.group(4))))
    return inv_tests, dec_tests, xdh_tests

def curve_x(rng):
    """x coordinate of a valid point: random or edge-lifted"""
    return rng.point()[0]

def generate(rng, tier, ctx):
    cases = []
    n = {'quick': 1, 'thorough': 8}[tier]
    def sk_class(s): return 'zero' if s == 0 else 'ov' if s >= N else 'ok'

    # =========================== ECDH ===========================
    hashes = [('_', None), ('d', None), ('x', None), ('x', 'data'), ('f', None), ('d', 'data'), ('_', 'data')]
    def ecdh_line(peer, s, h, d):
        data = '_' if d is None else hx(rng.bytes(32))
        return 'ecdh %s %s %s %s' % (pt(peer), h32(s), h, data)
    for s in SECRETS:
        for h, d in hashes:
            cases.append((ecdh_line(rng.point(), s, h, d), ('ecdh', 'sk-%s-h%s%s' % (sk_class(s), h, 'D' if d else ''))))
    for _ in range(40 * n):
        s = rng.scalar(0.5); h, d = rng.choice(hashes)
        cases.append((ecdh_line(rng.point(), s, h, d), ('ecdh', 'rand-%s-h%s' % (sk_class(s), h))))
    # both roles: a*(b*G) and b*(a*G)
    for _ in range(15 * n):
        a, b = rng.seckey(), rng.seckey(); h, d = rng.choice(hashes[:4])
        A_, B_ = pmul(a, G), pmul(b, G)
        data = '_' if d is None else hx(rng.bytes(32))
        cases.append(('ecdh %s %s %s %s' % (pt(B_), h32(a), h, data), ('ecdh', 'role-a')))
        cases.append(('ecdh %s %s %s %s' % (pt(A_), h32(b), h, data), ('ecdh', 'role-b')))
    # peers with edge x coordinates, both parities; secret*peer = infinity is impossible for valid secrets,
    # secret = N-1 gives -peer
    for x in [1, 2, 3, 4, P - 1, P - 2, P - 3, 1 << 255, (1 << 256) - (1 << 32), N, N + 1]:
        for odd in (0, 1):
            q = lift_x(x % P, odd)
            if q is None: continue
            s = rng.choice([1, N - 1, rng.seckey()])
            cases.append((ecdh_line(q, s, rng.choice(['_', 'x']), None), ('ecdh', 'edge-x')))

    # invalid (all-zero) public-key object: pubkey_load raises the illegal callback; its return value is ignored
    for h, d in hashes[:5]:
        cases.append(('ecdh Z %s %s %s' % (h32(rng.choice([0, 1, N, rng.seckey()])), h, '_' if d is None else hx(rng.bytes(32))), ('ecdh', 'invalid-pubkey')))

    # =========================== forward map / decode ===========================
    uts = []     # (u, t, class)
    for u in FIELD_EDGES:
        for t in FIELD_EDGES:
            uts.append((u, t, 'edge-edge'))
        for _ in range(2 * n):
            uts.append((u, rng.rand256(), 'edge-u')); uts.append((rng.rand256(), u, 'edge-t'))
    for _ in range(60 * n): uts.append((rng.rand256(), rng.rand256(), 'random'))
    for _ in range(20 * n): uts.append((rng.scalar(0.7), rng.scalar(0.7), 'edge-scalar'))
    # u^3 + t^2 + 7 = 0 family
    cnt = 0
    while cnt < 24 * n:
        u = rng.choice([rng.rand256() % P, rng.randint(1, 50), P - rng.randint(1, 50)])
        t = sqrt(-(u * u * u + 7))
        if t is None or t == 0: continue
        cnt += 1
        for uu in enc_variants(rng, u):
            for tt in enc_variants(rng, rng.choice([t, P - t])):
                uts.append((uu, tt, 'gs0'))
    # u = 0 (remapped to 1) with t^2 = -8, t = 0 (s remapped to 1) with u^3 = -8: both remappings + g+s = 0
    t8 = sqrt(-8)
    if t8 is not None:
        for uu in (0, P):
            for tt in (t8, P - t8): uts.append((uu, tt, 'u0-gs0'))
    for u in (P - 2, (-2 * C1) % P, (-2 * C2) % P):          # the three cube roots of -8
        if pow(u, 3, P) == P - 8:
            for tt in (0, P): uts.append((u, tt, 't0-gs0'))
    for u, t, cl in uts:
        cases.append(('xswiftec %s %s' % (h32(u), h32(t)), ('xswiftec', cl)))
        cases.append(('ellswift_decode ' + ell(u, t), ('decode', cl)))

    inv_tests, dec_tests, xdh_tests = parse_vectors()
    for e in dec_tests:
        cases.append(('ellswift_decode ' + hx(e), ('decode', 'vector')))
        cases.append(('xswiftec %s %s' % (hx(e[:32]), hx(e[32:])), ('xswiftec', 'vector')))

    # =========================== inverse map ===========================
    # crafted branch selection: for each x and each c find u with a solution, feed (u, t) forward again
    xs = [curve_x(rng) for _ in range(6 * n)]
    for x in [1, 2, 3, 4, P - 1, P - 2, P - 3, P - 4, 1 << 255]:
        if on_curve_x(x): xs.append(x)
    for x in xs:
        for c in range(8):
            for _ in range(200):
                u = rng.rand256() % P
                t = xswiftec_inv(x, u, c)
                if t is not None: break
            else: continue
            cases.append(('xswiftec_inv %s %s %d' % (h32(x), h32(u), c), ('xswiftec_inv', 'hit-c%d' % c)))
            _, br, _ = xswiftec(u, t)
            for tt in (t, (-t) % P):
                cases.append(('xswiftec %s %s' % (h32(u), h32(tt)), ('xswiftec', 'crafted-c%d-x%d' % (c, br))))
                cases.append(('ellswift_decode ' + ell(u, tt), ('decode', 'crafted-c%d-x%d' % (c, br))))
    # non-canonical encodings u+P, t+P of crafted pairs: small u so that u+P fits in 32 bytes
    for x in xs[:4 * n]:
        for c in range(8):
            for _ in range(300):
                u = rng.randint(1, (1 << 32) + 976)
                t = xswiftec_inv(x, u, c)
                if t is not None: break
            else: continue
            cases.append(('ellswift_decode ' + ell(u + P, t), ('decode', 'crafted-u+P')))
            cases.append(('xswiftec %s %s' % (h32(u + P), h32(t)), ('xswiftec', 'crafted-u+P')))
            cases.append(('xswiftec_inv %s %s %d' % (h32(x), h32(u + P), c), ('xswiftec_inv', 'u+P')))
    # all c for random / edge (x, u)
    for _ in range(25 * n):
        x = curve_x(rng); u = rng.choice([rng.rand256(), rng.choice(FIELD_EDGES), rng.scalar(0.8)])
        for c in range(8):
            cases.append(('xswiftec_inv %s %s %d' % (h32(x), h32(u), c), ('xswiftec_inv', 'allc-' + ('u0' if u % P == 0 else 'u'))))
    # x given as x+P (small valid x)
    for x in [x for x in range(1, 40) if on_curve_x(x)][:4 * n]:
        u = rng.rand256()
        for c in range(8):
            cases.append(('xswiftec_inv %s %s %d' % (h32(x + P), h32(u), c), ('xswiftec_inv', 'x+P')))
    # s = x - u = 0
    for _ in range(3 * n):
        x = curve_x(rng)
        for c in range(8):
            cases.append(('xswiftec_inv %s %s %d' % (h32(x), h32(x), c), ('xswiftec_inv', 'u-eq-x')))
    # r = 0 with s != 0: s = -4(u^3+7)/(3u^2), x = u + s on the curve, s square
    cnt = 0
    for _ in range(4000):
        if cnt >= 3 * n: break
        u = rng.rand256() % P
        if u == 0: continue
        s = (-4 * (u * u * u + 7)) * inv(3 * u * u) % P
        x = (u + s) % P
        if s == 0 or not is_sq(s) or not on_curve_x(x): continue
        cnt += 1
        for c in range(8):
            cases.append(('xswiftec_inv %s %s %d' % (h32(x), h32(u), c), ('xswiftec_inv', 'r-zero')))
            t = xswiftec_inv(x, u, c)
            if t is not None: cases.append(('ellswift_decode ' + ell(u, t), ('decode', 'r-zero')))
    for u, x in inv_tests:
        if not on_curve_x(x): continue
        for c in range(8):
            cases.append(('xswiftec_inv %s %s %d' % (h32(x), h32(u), c), ('xswiftec_inv', 'vector')))

    # =========================== encode ===========================
    for _ in range(12 * n):
        q = rng.point()
        for r in [rng.choice(RNDS), rng.rand256()]:
            cases.append(('ellswift_encode %s %s' % (pt(q), h32(r)), ('encode', 'rnd-edge' if r in RNDS else 'rnd-random')))
    for r in RNDS:
        cases.append(('ellswift_encode %s %s' % (pt(G), h32(r)), ('encode', 'G')))
    for x in [1, 2, 3, 4, P - 1, P - 2, P - 3, 1 << 255]:
        for odd in (0, 1):
            q = lift_x(x, odd)
            if q: cases.append(('ellswift_encode %s %s' % (pt(q), h32(rng.rand256())), ('encode', 'edge-x')))
    # same key, many randomness values (different encodings, all decode to the key)
    q = rng.point()
    for i in range(16 * n):
        cases.append(('ellswift_encode %s %s' % (pt(q), h32(i)), ('encode', 'counter')))
    cases.append(('ellswift_encode Z %s' % h32(rng.rand256()), ('encode', 'invalid-pubkey')))
    cases.append(('ellswift_encode Z %s' % h32(0), ('encode', 'invalid-pubkey')))

    # =========================== create ===========================
    for s in SECRETS:
        for aux in ['_', h32(0), h32(M256 - 1), h32(rng.rand256())]:
            cases.append(('ellswift_create %s %s' % (h32(s), aux), ('create', 'sk-%s-%s' % (sk_class(s), 'noaux' if aux == '_' else 'aux'))))
    for _ in range(30 * n):
        s = rng.scalar(0.4); aux = rng.choice(['_', h32(rng.scalar(0.5))])
        cases.append(('ellswift_create %s %s' % (h32(s), aux), ('create', 'rand-%s-%s' % (sk_class(s), 'noaux' if aux == '_' else 'aux'))))

    # =========================== xdh ===========================
    # first pass: real encodings of known keys from the model
    nk = 10 * n
    sks = [rng.seckey() for _ in range(nk)]
    outs = ctx.model(['ellswift_create %s %s' % (h32(s), rng.choice(['_', h32(rng.rand256())])) for s in sks])
    keys = []
    for s, o in zip(sks, outs):
        f = o.split(' ')
        if len(f) >= 2 and f[0] == '1' and len(f[1]) == 128: keys.append((s, f[1]))
    xh = [('b', None), ('p', 'd'), ('x', None), ('x', 'd'), ('b', 'd')]
    def xdh_line(ea, eb, s, party, h, d):
        return 'ellswift_xdh %s %s %s %d %s %s' % (ea, eb, h32(s), party, h, '_' if d is None else hx(d))
    for i in range(len(keys)):
        (sa, ea), (sb, eb) = keys[i], keys[(i + 1) % len(keys)]
        for h, d in xh:
            data = rng.bytes(64) if d else None
            cases.append((xdh_line(ea, eb, sa, 0, h, data), ('xdh', 'role-a-h' + h)))
            cases.append((xdh_line(ea, eb, sb, 1, h, data), ('xdh', 'role-b-h' + h)))
        cases.append((xdh_line(ea, eb, sa, 0, 'f', None), ('xdh', 'hash-fails')))
        cases.append((xdh_line(ea, eb, sb, 2, 'b', None), ('xdh', 'party-2')))
        cases.append((xdh_line(ea, eb, sa, 0, '_', None), ('xdh', 'null-hashfp')))
        # wrong role (same secret, other side): still succeeds, different secret
        cases.append((xdh_line(ea, eb, sa, 1, 'b', None), ('xdh', 'self')))
    # arbitrary 64-byte strings as peer encodings, edge secrets
    specials = [ell(u, t) for u, t, cl in uts if cl in ('edge-edge', 'gs0', 'u0-gs0', 't0-gs0')]
    for s in SECRETS:
        for h, d in xh[:3] + [('f', None)]:
            ea = rng.choice(specials + [hx(rng.bytes(64))]); eb = rng.choice(specials + [hx(rng.bytes(64))])
            data = rng.bytes(64) if d else None
            party = rng.randint(0, 1)
            cases.append((xdh_line(ea, eb, s, party, h, data), ('xdh', 'sk-%s-h%s' % (sk_class(s), h))))
    for _ in range(40 * n):
        ea = rng.choice(specials + [hx(rng.bytes(64))] * 3); eb = rng.choice(specials + [hx(rng.bytes(64))] * 3)
        h, d = rng.choice(xh); data = rng.bytes(64) if d else None
        s = rng.scalar(0.3)
        cases.append((xdh_line(ea, eb, s, rng.randint(0, 1), h, data), ('xdh', 'rand-%s-h%s' % (sk_class(s), h))))
    for priv, ours, theirs, initiating in xdh_tests:
        party = 0 if initiating else 1
        ea, eb = (theirs, ours) if party else (ours, theirs)
        cases.append((xdh_line(hx(ea), hx(eb), int.from_bytes(priv, 'big'), party, 'b', None), ('xdh', 'bip324-vector')))

    # =========================== ecmult_const_xonly ===========================
    qs = [1, 2, 3, N - 1, N - 2, N + 1, (N - 1) // 2, (N + 1) // 2, LAMBDA, M256 - 1]
    for _ in range(60 * n):
        x = curve_x(rng); q = rng.choice(qs + [rng.rand256()] * 4)
        if q % N == 0: continue
        mode = rng.choice(['plain', 'frac', 'frac', 'frac-edge-d'])
        known = rng.randint(0, 1)
        if mode == 'plain':
            cases.append(('ecmult_const_xonly %s _ %s %d' % (h32(x), h32(q), known), ('xonly', 'on-plain-k%d' % known)))
        else:
            d = rng.rand256() % P if mode == 'frac' else rng.choice([1, 2, P - 1, P + 1, M256 - 1])
            if d % P == 0: continue
            nn = x * d % P
            cases.append(('ecmult_const_xonly %s %s %s %d' % (h32(nn), h32(d), h32(q), known), ('xonly', 'on-%s-k%d' % (mode, known))))
    # not on the curve: only with known_on_curve = 0 (returns 0)
    cnt = 0
    while cnt < 12 * n:
        x = rng.choice([rng.rand256() % P, rng.randint(0, 20), P - rng.randint(1, 20)])
        if on_curve_x(x): continue
        cnt += 1
        q = rng.seckey()
        if rng.random() < 0.5:
            cases.append(('ecmult_const_xonly %s _ %s 0' % (h32(x), h32(q)), ('xonly', 'off-plain')))
        else:
            d = rng.randint(1, P - 1)
            cases.append(('ecmult_const_xonly %s %s %s 0' % (h32(x * d % P), h32(d), h32(q)), ('xonly', 'off-frac')))
    return cases
