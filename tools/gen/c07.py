"""C07: untrusted bytes never cause undefined behaviour or callback aborts.
All parse / verify entry points, on (a) the structured cases of the other generators, (b) byte-level mutations of
their byte-string arguments (bit flips, truncation, extension, length-field edits, boundary substitutions) and
(c) random bytes.  The run is under ASan+UBSan+LeakSanitizer (every config) and a sample under valgrind-memcheck
(uninitialised reads).  Lines the protocol cannot express (wrong fixed sizes) are dropped by a model pre-pass."""
import importlib
from .common import *

PARSE_OPS = {
    'c03': ['pubkey_parse', 'xonly_parse', 'sig_parse_der', 'sig_parse_compact', 'pubkey_serialize'],
    'c01': ['ecdsa_verify', 'ecdsa_recover', 'rec_parse_compact'],
    'c02': ['schnorr_verify'],
    'c08': ['generator_parse', 'commit_parse', 'verify_tally'],
    'c10': ['rangeproof_verify', 'rangeproof_info', 'rangeproof_rewind'],
    'c11': ['surj_parse', 'surj_verify'],
    'c12': ['musig_pubnonce_parse', 'musig_aggnonce_parse', 'musig_partial_sig_parse', 'musig_partial_sig_verify', 'musig_nonce_agg'],
    'c14': ['adaptor_verify', 'adaptor_deser', 'adaptor_recover', 'adaptor_decrypt'],
    'c15': ['s2c_opening_parse', 's2c_verify_commit', 'ae_host_verify'],
    'c16': ['wl_parse', 'wl_verify'],
    'c17': ['ha_aggverify'],
    'c18': ['ellswift_decode', 'ecdh', 'ellswift_xdh'],
    'c19': ['bppp_gens_parse', 'bppp_points_parse', 'bppp_verify'],
}
VAR_LEN = {'pubkey_parse', 'sig_parse_der', 'rangeproof_verify', 'rangeproof_info', 'rangeproof_rewind', 'surj_parse', 'surj_verify',
           'wl_parse', 'wl_verify', 'ha_aggverify', 'bppp_gens_parse', 'bppp_verify'}

# argument positions (1-based token index) that are BYTE STRINGS handed to the library (not object tokens)
MUT_ARGS = {
    'pubkey_parse': [1], 'xonly_parse': [1], 'sig_parse_der': [1], 'sig_parse_compact': [1], 'rec_parse_compact': [1],
    'ecdsa_verify': [2], 'ecdsa_recover': [3], 'schnorr_verify': [1, 2], 'generator_parse': [1], 'commit_parse': [1],
    'rangeproof_verify': [2, 3], 'rangeproof_info': [1], 'rangeproof_rewind': [2, 3, 4], 'surj_parse': [1], 'surj_verify': [1],
    'musig_pubnonce_parse': [1], 'musig_aggnonce_parse': [1], 'musig_partial_sig_parse': [1],
    'adaptor_verify': [1, 3], 'adaptor_deser': [1], 'adaptor_recover': [2], 'adaptor_decrypt': [2],
    's2c_opening_parse': [1], 's2c_verify_commit': [2], 'wl_parse': [1], 'wl_verify': [1], 'ha_aggverify': [1],
    'ellswift_decode': [1], 'ellswift_xdh': [1, 2], 'bppp_gens_parse': [1], 'bppp_points_parse': [1],
}

def mutate_hex(rng, tok, varlen):
    b = bytearray(bytes.fromhex(tok))
    if not b: return None
    kind = rng.choice(['flip', 'flip', 'byte', 'edge32', 'len', 'trunc', 'ext', 'zero', 'ff'] if varlen else ['flip', 'flip', 'byte', 'edge32', 'zero', 'ff'])
    if kind == 'flip': i = rng.randint(0, len(b) * 8 - 1); b[i // 8] ^= 1 << (i % 8)
    elif kind == 'byte': b[rng.randint(0, len(b) - 1)] = rng.choice([0, 1, 0x7f, 0x80, 0xff, rng.randint(0, 255)])
    elif kind == 'edge32' and len(b) >= 32:
        off = rng.choice([o for o in range(0, len(b) - 31)][::max(1, (len(b) - 31) // 8)] or [0])
        b[off:off + 32] = (rng.choice(EDGE_SCALARS) % M256).to_bytes(32, 'big')
    elif kind == 'len': b[rng.randint(0, min(3, len(b) - 1))] = rng.choice([0, 1, 2, 0x7f, 0x80, 0xfe, 0xff])
    elif kind == 'trunc': b = b[:rng.randint(0, len(b) - 1)]
    elif kind == 'ext': b += rng.bytes(rng.choice([1, 2, 31, 32, 33, 65]))
    elif kind == 'zero': b = bytearray(len(b))
    elif kind == 'ff': b = bytearray(b'\xff' * len(b))
    else: return None
    return (bytes(b).hex() or '-'), kind

def generate(rng, tier, ctx):
    n = {'quick': 1, 'thorough': 6}[tier]
    base = []
    for g, names in PARSE_OPS.items():
        mod = importlib.import_module('gen.' + g)
        sub = Rng(rng.randint(0, 1 << 30))
        byop = {}
        for line, tag in ((c[0], c[1]) for c in mod.generate(sub, 'quick', ctx)):
            op = line.split(' ', 1)[0]
            if op in names and len(line) < 30000: byop.setdefault(op, []).append(line)
        for op, ls in byop.items():
            for l in rng.sample(ls, min(len(ls), 60 * n)): base.append((op, l))
    cand = []
    for op, l in base:
        cand.append((l, (op, 'structured')))
        toks = l.split(' ')
        hexidx = [i for i in MUT_ARGS.get(op, []) if i < len(toks) and len(toks[i]) >= 2 and all(c in '0123456789abcdef' for c in toks[i]) and len(toks[i]) % 2 == 0]
        for _ in range(3 * n):
            if not hexidx: break
            i = rng.choice(hexidx)
            m = mutate_hex(rng, toks[i], op in VAR_LEN)
            if m is None: continue
            t2 = list(toks); t2[i] = m[0]
            cand.append((' '.join(t2), (op, 'mut-' + m[1])))
        if op in VAR_LEN and hexidx and rng.random() < 0.5:
            i = rng.choice(hexidx); t2 = list(toks); t2[i] = hx(rng.bytes(rng.choice([0, 1, 2, 33, 64, 65, 66, 100, len(toks[i]) // 2])))
            cand.append((' '.join(t2), (op, 'random-bytes')))
    # drop lines the protocol cannot express
    outs = ctx.model([c[0] for c in cand])
    cases = [c for c, o in zip(cand, outs) if not o.startswith('ERR')]
    return cases
