"""C16: whitelist ring signatures (sign / verify / parse / serialize).

Signatures travel in serialized form `count ‖ e0 ‖ s_0 ‖ … ‖ s_{n-1}`.  Honest and adversarial base
signatures are obtained from the model in a first pass (`ctx.model`), then mutated."""
from .common import *

MAXK = 255
S_BAD = [0, N, N + 1, M256 - 1]


class Inst:
    """a key list with all its secrets"""
    def __init__(self, rng, n):
        self.n = n
        self.sub_sec = rng.seckey()
        if n >= 16:
            # large lists: arithmetic progressions of secrets, one point addition per key (generation speed)
            self.on_sec, self.on = progression(rng, n); self.off_sec, self.off = progression(rng, n)
        else:
            self.on_sec = [rng.seckey() for _ in range(n)]
            self.off_sec = [rng.seckey() for _ in range(n)]
            self.on = [pmul(k, G) for k in self.on_sec]
            self.off = [pmul(k, G) for k in self.off_sec]
        self.sub = pmul(self.sub_sec, G)
    def summed(self, i): return (self.off_sec[i] + self.sub_sec) % N
    def msg32(self, on=None, off=None, sub=None):
        on = self.on if on is None else on; off = self.off if off is None else off; sub = sub or self.sub
        b = ser33(sub)
        for f, o in zip(off, on): b += ser33(f) + ser33(o)
        return sha256(b)


def progression(rng, n):
    a = rng.rand256() % N; d = rng.rand256() % N
    secs = [(a + i * d) % N for i in range(n)]
    D = pmul(d, G); pts = [pmul(a, G)]
    for i in range(1, n): pts.append(padd(pts[-1], D))
    return secs, pts

def keys_str(on, off):
    return ' '.join(['/'] + list(map(pt, on)) + ['/'] + list(map(pt, off)))

def sign_line(I, idx, osec=None, ssec=None, on=None, off=None, sub=None, idx_arg=None):
    osec = I.on_sec[idx] if osec is None else osec
    ssec = I.summed(idx) if ssec is None else ssec
    return 'wl_sign %s %s %d %s %s' % (h32(osec), h32(ssec), idx if idx_arg is None else idx_arg, pt(sub or I.sub), keys_str(I.on if on is None else on, I.off if off is None else off))

def adv_line(I, idx, nonce, svals):
    return 'wl_mk_adv %s %s %d %s %s / %s %s' % (h32(I.on_sec[idx]), h32(I.summed(idx)), idx, pt(I.sub), h32(nonce),
                                               ' '.join(map(h32, svals)), keys_str(I.on, I.off))

def verify_line(sig, I, on=None, off=None, sub=None):
    return 'wl_verify %s %s %s' % (hx(sig), pt(sub or I.sub), keys_str(I.on if on is None else on, I.off if off is None else off))

def ser(count, e0, s):
    return bytes([count]) + e0 + b''.join(x.to_bytes(32, 'big') for x in s)

def unser(b):
    n = b[0]
    return n, b[1:33], [int.from_bytes(b[33 + 32 * i:65 + 32 * i], 'big') for i in range(n)]

def flip(b, bit):
    b = bytearray(b); b[bit // 8] ^= 1 << (bit % 8); return bytes(b)

def hash_tweak(p):
    return int.from_bytes(sha256(ser33(p)), 'big')


def mutations(rng, I, sig, cases, reps):
    """append verify cases mutating the valid signature `sig` for instance `I`"""
    n, e0, s = unser(sig)
    V = lambda line, cls: cases.append((line, ('wl_verify', cls)))
    V(verify_line(sig, I), 'honest')
    # single-bit flips: count byte, e0, scalars
    V(verify_line(flip(sig, rng.randint(0, 7)), I), 'flip-count')
    for _ in range(reps):
        V(verify_line(flip(sig, 8 + rng.randint(0, 255)), I), 'flip-e0')
    for _ in range(2 * reps if n else 0):
        V(verify_line(flip(sig, 8 * 33 + rng.randint(0, 256 * n - 1)), I), 'flip-s')
    # scalars replaced by 0 / N / N+1 / 2^256-1
    for bad in S_BAD if n else []:
        j = rng.randint(0, n - 1); s2 = list(s); s2[j] = bad
        V(verify_line(ser(n, e0, s2), I), 's-zero' if bad == 0 else 's-eq-N' if bad == N else 's-ge-N')
    if n:
        j = rng.randint(0, n - 1); s2 = list(s); s2[j] = (N - s[j]) % N
        V(verify_line(ser(n, e0, s2), I), 's-negated')
        V(verify_line(ser(n, sha256(I.msg32()), s), I), 'e0-hash-of-msg')
    if n >= 2:
        i, j = rng.sample(range(n), 2); s2 = list(s); s2[i], s2[j] = s2[j], s2[i]
        V(verify_line(ser(n, e0, s2), I), 's-swapped')
    # length +-1, +-32
    V(verify_line(sig[:-1], I), 'len-1'); V(verify_line(sig + b'\0', I), 'len+1')
    V(verify_line(sig + rng.bytes(32), I), 'len+32')
    if n: V(verify_line(sig[:-32], I), 'len-32')
    # count byte mismatching, with the data resized so that it still parses
    for c in sorted(set([0, max(n - 1, 0), n + 1, rng.randint(0, 20), 255 if n <= 8 and rng.random() < 0.15 else n + 2]) - {n}):
        if c > 255: continue
        s2 = (s + [rng.seckey() for _ in range(c)])[:c]
        V(verify_line(ser(c, e0, s2), I), 'count-mismatch-parses')
    # key count mismatch on the key-list side
    if n:
        V(verify_line(sig, I, on=I.on[:-1], off=I.off[:-1]), 'keys-minus-one')
        # both shortened consistently: ring over fewer keys
        V(verify_line(ser(n - 1, e0, s[:-1]), I, on=I.on[:-1], off=I.off[:-1]), 'drop-last-key-and-scalar')
    if n < 256:
        extra = pmul(rng.seckey(), G)
        V(verify_line(sig, I, on=I.on + [extra], off=I.off + [extra]), 'keys-plus-one')
    # permutations of the key lists
    if n >= 2:
        i, j = rng.sample(range(n), 2)
        on2 = list(I.on); off2 = list(I.off); on2[i], on2[j] = on2[j], on2[i]; off2[i], off2[j] = off2[j], off2[i]
        V(verify_line(sig, I, on=on2, off=off2), 'perm-swap-pairs')
        on3 = list(I.on); on3[i], on3[j] = on3[j], on3[i]
        V(verify_line(sig, I, on=on3), 'perm-swap-online-only')
        V(verify_line(sig, I, on=I.on[1:] + I.on[:1], off=I.off[1:] + I.off[:1]), 'perm-rotate')
    if n:
        V(verify_line(sig, I, on=I.off, off=I.on), 'online-offline-exchanged')
        # one key replaced
        j = rng.randint(0, n - 1); r = pmul(rng.seckey(), G)
        on2 = list(I.on); on2[j] = r; V(verify_line(sig, I, on=on2), 'online-replaced')
        off2 = list(I.off); off2[j] = r; V(verify_line(sig, I, off=off2), 'offline-replaced')
        on2 = list(I.on); on2[j] = pneg(on2[j]); V(verify_line(sig, I, on=on2), 'online-negated')
        off2 = list(I.off); off2[j] = pneg(off2[j]); V(verify_line(sig, I, off=off2), 'offline-negated')
    V(verify_line(sig, I, sub=pmul(rng.seckey(), G)), 'sub-replaced')
    V(verify_line(sig, I, sub=pneg(I.sub)), 'sub-negated')


def generate(rng, tier, ctx):
    cases = []
    T = {'quick': 1, 'thorough': 4}[tier]
    S = lambda line, cls: cases.append((line, ('wl_sign', cls)))
    V = lambda line, cls: cases.append((line, ('wl_verify', cls)))

    # ------------------------------------------------------------------ sign: every count, every index
    for n in range(1, 9):
        for rep in range(T):
            I = Inst(rng, n)
            for idx in range(n): S(sign_line(I, idx), 'n%d-every-index' % n)
    for n, idxs in ((16, [0, 15, 7]), (254, [253]), (255, [0, 254])):
        I = Inst(rng, n)
        for idx in idxs: S(sign_line(I, idx), 'n%d' % n)
        if n == 255:
            big = I
    # argument checks
    I0 = Inst(rng, 0)
    S(sign_line_raw(rng, I0, 0), 'n0-index0')
    I = Inst(rng, 3)
    for bad_idx in (3, 4, 255, (1 << 64) - 1): S(sign_line(I, 0, idx_arg=bad_idx), 'index-oob')
    S('wl_sign %s %s 0 %s %s' % (h32(big.on_sec[0]), h32(big.summed(0)), pt(big.sub), keys_str(big.on + [big.on[0]], big.off + [big.off[0]])), 'n256')
    # secrets: zero / out of range / edge / wrong
    for rep in range(T):
        I = Inst(rng, rng.randint(1, 5)); idx = rng.randint(0, I.n - 1)
        for bad in S_BAD:
            S(sign_line(I, idx, osec=bad), 'online-sec-zero' if bad == 0 else 'online-sec-ge-N')
            S(sign_line(I, idx, ssec=bad), 'summed-sec-zero' if bad == 0 else 'summed-sec-ge-N')
        S(sign_line(I, idx, osec=0, ssec=0), 'both-sec-zero')
        S(sign_line(I, idx, osec=rng.seckey()), 'wrong-online-sec')
        S(sign_line(I, idx, ssec=rng.seckey()), 'wrong-summed-sec')
        S(sign_line(I, idx, ssec=I.off_sec[idx]), 'summed-sec-without-sub')
        if I.n >= 2: S(sign_line(I, (idx + 1) % I.n, osec=I.on_sec[idx], ssec=I.summed(idx)), 'wrong-index')
    for e in (1, 2, N - 1, N - 2, (N - 1) // 2, 1 << 255):
        I = Inst(rng, 2); idx = rng.randint(0, 1)
        I.on_sec[idx] = e; I.on[idx] = pmul(e, G)
        S(sign_line(I, idx), 'edge-online-sec')
        I = Inst(rng, 2); idx = rng.randint(0, 1)
        I.off_sec[idx] = (e - I.sub_sec) % N; I.off[idx] = pmul(I.off_sec[idx], G)
        if I.off[idx] is not None: S(sign_line(I, idx), 'edge-summed-sec')
    # tweaked secret key = 0: the ring key of the signer is the point at infinity
    I = Inst(rng, 3); idx = 1
    t = hash_tweak(pmul(I.summed(idx), G)); I.on_sec[idx] = (-I.summed(idx) * t) % N; I.on[idx] = pmul(I.on_sec[idx], G)
    S(sign_line(I, idx), 'tweaked-sec-zero')
    adv_inf = I
    # offline_j = -sub: offline_j + sub is infinity, the tweak silently fails and the ring key is online_j
    I = Inst(rng, 3); I.off_sec[2] = (-I.sub_sec) % N; I.off[2] = pneg(I.sub)
    S(sign_line(I, 0), 'offline-cancels-sub-nonsigner'); S(sign_line(I, 2), 'offline-cancels-sub-signer')
    canc = I
    # duplicated entries, sub key equal to a list key
    I = Inst(rng, 4); I.on_sec[3] = I.on_sec[1]; I.on[3] = I.on[1]; I.off_sec[3] = I.off_sec[1]; I.off[3] = I.off[1]
    S(sign_line(I, 1), 'duplicate-pair'); S(sign_line(I, 3), 'duplicate-pair')
    I = Inst(rng, 2); I.sub_sec = I.on_sec[0]; I.sub = I.on[0]
    S(sign_line(I, 0), 'sub-equals-online'); S(sign_line(I, 1), 'sub-equals-online')

    # ------------------------------------------------------------------ verify: bases from the model
    bases = []
    for n in list(range(1, 9)) * T + [16]:
        I = Inst(rng, n); bases.append((I, rng.randint(0, n - 1)))
    outs = ctx.model([sign_line(I, idx) for I, idx in bases])
    for (I, idx), o in zip(bases, outs):
        t = o.split(' ')
        if not (t[0] == '1' and t[2] == '1'): continue
        mutations(rng, I, bytes.fromhex(t[1]), cases, 2 if I.n <= 8 else 1)
    # large lists: honest + a few mutations only
    o = ctx.model([sign_line(big, 200)])[0].split(' ')
    sigbig = bytes.fromhex(o[1]); n, e0, s = unser(sigbig)
    V(verify_line(sigbig, big), 'honest-n255')
    V(verify_line(flip(sigbig, 8 * 33 + rng.randint(0, 256 * 255 - 1)), big), 'flip-s-n255')
    V(verify_line(sigbig, big, on=big.on + [big.on[0]], off=big.off + [big.off[0]]), 'n256-keys')
    V(verify_line(ser(254, e0, s[:254]), big, on=big.on[:254], off=big.off[:254]), 'drop-last-key-and-scalar-n254')
    s2 = list(s); s2[254] = 0; V(verify_line(ser(255, e0, s2), big), 's-zero-n255')
    # signatures that produced a non-verifying result at signing time
    # (finding F2: signing with a zero tweaked secret is refused since the fix; if a signature is still produced, verify it)
    o_inf = ctx.model([sign_line(adv_inf, 1)])[0].split(' ')
    if o_inf[0] == '1': V(verify_line(bytes.fromhex(o_inf[1]), adv_inf), 'ring-key-infinity')
    o = ctx.model([sign_line(canc, 0)])[0].split(' ')
    mutations(rng, canc, bytes.fromhex(o[1]), cases, 1)
    # forgery from public data only: the key list is chosen so that ring key j is the point at infinity (online_j = -H(Q)Q with
    # Q = offline_j + W), whose discrete logarithm 0 everybody knows; the ring closes with secret 0, verification must refuse
    # (the infinity test of secp256k1_borromean_verify) - at every position j of the ring, not only the first
    forged = []
    for n_, j_ in [(1, 0), (2, 0), (2, 1), (3, 1), (3, 2), (5, 3), (8, 7)] + ([(16, 9)] if tier != 'quick' else []):
        I = Inst(rng, n_)
        t = hash_tweak(pmul(I.summed(j_), G)); I.on_sec[j_] = (-I.summed(j_) * t) % N; I.on[j_] = pmul(I.on_sec[j_], G)
        forged.append((I, j_, 'wl_mk_advsec %s %d %s %s / %s %s' % (h32(0), j_, pt(I.sub), h32(rng.seckey()),
                                                                  ' '.join(h32(rng.seckey()) for _ in range(n_)), keys_str(I.on, I.off))))
    for (I, j_, _), o in zip(forged, ctx.model([f[2] for f in forged])):
        t = o.split(' ')
        assert t[0] == '1', o
        V(verify_line(bytes.fromhex(t[1]), I), 'forged-ring-key-infinity-at-%s' % ('0' if j_ == 0 else 'j>0'))

    # adversarial signer: chosen forged scalars (small, so that s + N fits in 32 bytes; and zero)
    advs = []
    for rep in range(3 * T):
        I = Inst(rng, rng.randint(2, 6)); idx = rng.randint(0, I.n - 1)
        j = rng.choice([x for x in range(I.n) if x != idx])
        small = rng.choice([1, 2, 3, (1 << 64) - 1, (1 << 128) - 1, M256 - N - 1, rng.randint(1, M256 - N - 1)])
        sv = [rng.seckey() for _ in range(I.n)]; sv[j] = small
        advs.append((I, idx, j, small, adv_line(I, idx, rng.seckey(), sv)))
        sv0 = list(sv); sv0[j] = 0
        advs.append((I, idx, j, 0, adv_line(I, idx, rng.seckey(), sv0)))
    outs = ctx.model([a[4] for a in advs])
    for (I, idx, j, small, _), o in zip(advs, outs):
        t = o.split(' ')
        if t[0] != '1': continue          # instance with an unusable secret (edge value 0 / >= n): nothing to forge from
        sig = bytes.fromhex(t[1]); n, e0, s = unser(sig)
        assert s[j] == small
        if small:
            V(verify_line(sig, I), 'adv-small-s')
            s2 = list(s); s2[j] = small + N
            V(verify_line(ser(n, e0, s2), I), 's-plus-N')
        else:
            V(verify_line(sig, I), 'adv-s-zero-ring-equation-holds')

    # forgeries from public data only
    for n in list(range(1, 9)) + [16]:
        I = Inst(rng, n)
        V(verify_line(ser(n, rng.bytes(32), [rng.seckey() for _ in range(n)]), I), 'forged-random')
        V(verify_line(ser(n, sha256(I.msg32()), [rng.seckey() for _ in range(n)]), I), 'forged-e0-hash-of-msg')
        V(verify_line(ser(n, sha256(I.msg32()), [0] * n), I), 'forged-all-zero-s')
        V(verify_line(ser(0, sha256(I.msg32()), []), I), 'forged-empty-sig-nonempty-list')
    # EMPTY key list: no scalar is checked and the ring of size 0 only compares e0 with SHA256(msg32)
    for rep in range(3 * T):
        I = Inst(rng, 0)
        m = I.msg32()       # = SHA256(ser33(sub)), public
        forged = ser(0, sha256(m), [])
        V(verify_line(forged, I), 'empty-list-forgery')
        V(verify_line(ser(0, m, []), I), 'empty-list-e0-is-msg')
        V(verify_line(ser(0, rng.bytes(32), []), I), 'empty-list-random-e0')
        V(verify_line(flip(forged, 8 + rng.randint(0, 255)), I), 'empty-list-forgery-flipped')
        V(verify_line(forged, I, sub=pmul(rng.seckey(), G)), 'empty-list-forgery-other-sub')
        V(verify_line(ser(1, sha256(m), [rng.seckey()]), I), 'empty-list-count1-sig')
        one = Inst(rng, 1)
        V(verify_line(forged, I, on=one.on, off=one.off), 'empty-forgery-against-one-key')

    # count byte 0..255 on a fixed-size string (parses only for the matching count)
    I = Inst(rng, 2); o = ctx.model([sign_line(I, 1)])[0].split(' '); sig2 = bytes.fromhex(o[1])
    for c in range(256):
        V(verify_line(bytes([c]) + sig2[1:], I), 'count-byte-%s' % ('ok' if c == 2 else 'mismatch'))

    # ------------------------------------------------------------------ parse / serialize
    Pp = lambda b, cls: cases.append(('wl_parse ' + hx(b), ('wl_parse', cls)))
    Pp(b'', 'empty')
    for c in list(range(0, 10)) + list(range(10, 256, 35)) + [253, 254, 255]:
        exact = 1 + 32 * (c + 1)
        body = rng.bytes(exact - 1)
        Pp(bytes([c]) + body, 'exact')
        Pp(bytes([c]) + body[:-1], 'len-1'); Pp(bytes([c]) + body + b'\x00', 'len+1')
        Pp(bytes([c]) + body[:-32], 'len-32'); Pp(bytes([c]) + body + rng.bytes(32), 'len+32')
        Pp(bytes([c]), 'count-only')
        # the length argument is a size_t: lengths that equal the exact one only modulo 2^32 / 2^16 / 2^8 must be refused
        for d, cls in ((0, 'claimed-exact'), (1 << 32, 'claimed+2^32'), (3 << 32, 'claimed+3*2^32'), (1 << 63, 'claimed+2^63'), (1 << 16, 'claimed+2^16'), (1 << 8, 'claimed+2^8')):
            if c < 10 or d in (0, 1 << 32): cases.append(('wl_parse_len %s %d' % (hx(bytes([c]) + body), exact + d), ('wl_parse', cls)))
    for c in range(256):
        Pp(bytes([c]) + sig2[1:], 'count-byte-sweep')
    Pp(sigbig, 'honest-n255'); Pp(sigbig + b'\0' * 32, 'n255-len+32')
    Pp(bytes([255]) + rng.bytes(32 * 257), 'would-be-256')
    Sr = lambda b, l, cls: cases.append(('wl_serialize %s %d' % (hx(b), l), ('wl_serialize', cls)))
    for b in (ser(0, rng.bytes(32), []), sig2, ser(7, rng.bytes(32), [rng.rand256() for _ in range(7)]), sigbig):
        need = len(b)
        for l, cls in ((0, 'buf0'), (1, 'buf1'), (need - 1, 'need-1'), (need, 'exact'), (need + 1, 'need+1'), (need + 32, 'need+32'),
                       (need - 32, 'need-32'), (8193, 'max'), (8194, 'max+1'), (rng.randint(0, need), 'short-random')):
            Sr(b, l, cls)
    Sr(sig2[:-1], 100, 'unparsable')
    return cases


def sign_line_raw(rng, I, idx):
    """sign line for an instance without keys (n = 0)"""
    return 'wl_sign %s %s %d %s %s' % (h32(rng.seckey()), h32(rng.seckey()), idx, pt(I.sub), keys_str(I.on, I.off))
