"""C02 (translation validation, mode P): secp256k1_schnorrsig_verify as regenerated AlgIR, run against the real function on
the verification cases of the C02 generator (honest, mutated, boundary r / s, zero key object, every message length class)."""
from . import c02

def generate(rng, tier, ctx):
    out = []
    for c in c02.generate(rng, tier, ctx):
        if c[0].startswith('schnorr_verify '):
            out.append(('p_run Pschnorr.verify ' + c[0][len('schnorr_verify '):], ('p_run', 'schnorr.' + str(c[1][1]))))
    return out
