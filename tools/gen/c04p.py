"""C04 (translation validation, mode P): the public key-tweak functions as regenerated AlgIR, run against the real ones on
the cases of the C04 generator."""
from . import c04
MAP = {'seckey_tweak_add': 'ec_seckey_tweak_add', 'seckey_tweak_mul': 'ec_seckey_tweak_mul', 'pubkey_tweak_add': 'ec_pubkey_tweak_add',
       'pubkey_tweak_mul': 'ec_pubkey_tweak_mul', 'seckey_negate': 'ec_seckey_negate', 'pubkey_negate': 'ec_pubkey_negate'}

def generate(rng, tier, ctx):
    out = []
    for c in c04.generate(rng, tier, ctx):
        op, _, rest = c[0].partition(' ')
        if op in MAP: out.append(('p_run Pkeys.%s %s' % (MAP[op], rest), ('p_run', 'keys.' + op + '.' + str(c[1][1]))))
    return out
