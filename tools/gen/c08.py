"""C08: Pedersen commitments, generators, tally, blind-sum helpers (+ internal Borromean sign/verify)."""
from .common import *

HGEN = (0x50929b74c1a04954b78b4b6035e97a5e078a5a0f28ec96d547bfee9ace803ac0, 0x31d3c6863973926e049e637cb1b5f40a36dac28af1766968c30c2313f3a38904)

def is_square(a): return pow(a % P, (P - 1) // 2, P) in (0, 1)
def commit_bytes(pt_):
    return bytes([8 if is_square(pt_[1]) else 9]) + pt_[0].to_bytes(32, 'big')
def commit_pt(b, v, gen):
    return padd(pmul(b, G), pmul(v, gen) if v % N else None)

VALUES = [0, 1, 2, 1 << 63, (1 << 64) - 1, (1 << 63) - 1, 10 ** 18, 12345]

def gens(rng, n):
    out = [HGEN]
    for _ in range(n): out.append(pmul(rng.seckey(), G))
    return out

def generate(rng, tier, ctx):
    cases = []
    n = {'quick': 1, 'thorough': 6}[tier]
    # generator derivation
    for _ in range(40 * n):
        key = rng.bytes(32) if rng.random() < 0.8 else rng.choice([b'\0' * 32, b'\xff' * 32])
        cases.append(('generator_generate %s _' % hx(key), ('generate', 'plain')))
        bl = rng.scalar(0.6)
        cases.append(('generator_generate %s %s' % (hx(key), h32(bl)), ('generate_blinded', 'ov' if bl >= N else 'zero' if bl == 0 else 'ok')))
    # parsers: all prefixes x boundary x
    xs = [0, 1, 2, 3, P - 1, P, P + 1, N, M256 - 1] + [rng.rand256() for _ in range(6 * n)] + [pmul(rng.seckey(), G)[0] for _ in range(6 * n)]
    prefixes = list(range(0, 16)) + [0x80 | 8, 0x80 | 10, 0xff, 0x0a ^ 0x10]
    for x in xs:
        for pf in prefixes:
            b = bytes([pf]) + (x % M256).to_bytes(32, 'big')
            cases.append(('generator_parse ' + hx(b), ('generator_parse', 'pf%d' % pf)))
            cases.append(('commit_parse ' + hx(b), ('commit_parse', 'pf%d' % pf)))
    gl = gens(rng, 4)
    for g in gl: cases.append(('generator_serialize ' + pt(g), ('generator_serialize', 'gen')))
    # commit
    for _ in range(50 * n):
        b = rng.scalar(0.6); v = rng.choice(VALUES + [rng.randint(0, (1 << 64) - 1)]); g = rng.choice(gl)
        cases.append(('pedersen_commit %s %d %s' % (h32(b), v, pt(g)), ('commit', ('ov' if b >= N else 'b0' if b == 0 else 'ok') + ('-v0' if v == 0 else ''))))
    # commit to infinity: b*G + v*gen = inf  with gen = r*G: b = -v*r
    r = rng.seckey(); g = pmul(r, G); v = 5
    cases.append(('pedersen_commit %s %d %s' % (h32((-v * r) % N), v, pt(g)), ('commit', 'infinity')))
    cases.append(('pedersen_commit %s 0 %s' % (h32(0), pt(g)), ('commit', 'infinity0')))
    # blind_sum
    for _ in range(40 * n):
        k = rng.randint(0, 8); bl = [rng.scalar(0.5) for _ in range(k)]
        np_ = rng.randint(0, k + (1 if rng.random() < 0.1 else 0))
        cases.append(('blind_sum %d %s' % (np_, ' '.join(map(h32, bl))), ('blind_sum', 'ov' if any(x >= N for x in bl) else 'arg' if np_ > k else 'ok')))
    # tally: balanced / unbalanced, several generators, sizes 0..32
    for _ in range(30 * n):
        npos = rng.randint(0, 6 if tier == 'quick' else 32); nneg = rng.randint(0, 6 if tier == 'quick' else 32)
        gs = [rng.choice(gl) for _ in range(npos + nneg)]
        vals = [rng.choice([0, 1, 5, 1 << 40, (1 << 64) - 1]) for _ in range(npos + nneg)]
        bls = [rng.scalar(0.3) % N for _ in range(npos + nneg)]
        mode = rng.choice(['random', 'balanced', 'off1', 'balanced'])
        if mode != 'random' and npos + nneg >= 1:
            # single generator for balancing: make last commitment balance values and blinds
            g0 = gs[0]; gs = [g0] * (npos + nneg)
            spos = sum(vals[:npos]); sneg = sum(vals[npos:]);
            if npos >= 1:
                vals[npos - 1] = 0; need = sneg - sum(vals[:npos])
                if 0 <= need < (1 << 64): vals[npos - 1] = need
                else: mode = 'random'
                bls[npos - 1] = (sum(bls[npos:]) - sum(bls[:npos - 1])) % N
            else: mode = 'random'
            if mode == 'off1': vals[0] = (vals[0] + 1) % (1 << 64)
        pts = [commit_pt(b, v, g) for b, v, g in zip(bls, vals, gs)]
        if any(p is None for p in pts): continue
        cs = [hx(commit_bytes(p)) for p in pts]
        cases.append(('verify_tally %s / %s' % (' '.join(cs[:npos]), ' '.join(cs[npos:])), ('tally', mode + ('-empty' if npos + nneg == 0 else ''))))
    cases.append(('verify_tally /', ('tally', 'empty-empty')))
    c1 = hx(commit_bytes(commit_pt(7, 3, HGEN)))
    cases.append(('verify_tally %s / %s' % (c1, c1), ('tally', 'same')))
    cases.append(('verify_tally %s /' % c1, ('tally', 'single')))
    # one side empty, the other side sums to infinity by itself: k zero-value commitments whose blinding factors cancel, and a
    # commitment next to its negation (the other prefix byte) - 1 exactly when positives minus negatives is infinity
    for k in (2, 3, 5):
        for g in (HGEN, rng.choice(gl)):
            bl = [rng.seckey() for _ in range(k - 1)]; bl.append((-sum(bl)) % N)
            cs = ' '.join(hx(commit_bytes(commit_pt(b, 0, g))) for b in bl)
            cases.append(('verify_tally %s /' % cs, ('tally', 'one-sided-cancel-pos')))
            cases.append(('verify_tally / %s' % cs, ('tally', 'one-sided-cancel-neg')))
            bl[0] = (bl[0] + 1) % N
            cases.append(('verify_tally %s /' % ' '.join(hx(commit_bytes(commit_pt(b, 0, g))) for b in bl), ('tally', 'one-sided-off1')))
    cb = commit_bytes(commit_pt(rng.seckey(), rng.randint(1, (1 << 64) - 1), HGEN)); cbn = bytes([cb[0] ^ 1]) + cb[1:]
    cases.append(('verify_tally %s %s /' % (hx(cb), hx(cbn)), ('tally', 'one-sided-negation-pair-pos')))
    cases.append(('verify_tally / %s %s' % (hx(cb), hx(cbn)), ('tally', 'one-sided-negation-pair-neg')))
    # blind_generator_blind_sum
    for _ in range(40 * n):
        k = rng.randint(0, 6); ni = rng.randint(0, k + 1)
        trip = []
        for i in range(k): trip += [str(rng.choice(VALUES)), h32(rng.scalar(0.5)), h32(rng.scalar(0.5))]
        cases.append(('blind_gen_blind_sum %d %s' % (ni, ' '.join(trip)), ('bgbs', 'arg' if k <= ni else 'run')))
    # borromean: random ring layouts
    for _ in range(25 * n):
        nr = rng.randint(1, 4); rs = [rng.randint(1, 5) for _ in range(nr)]
        si = [rng.randint(0, r - 1) for r in rs]
        sec = [rng.seckey() for _ in rs]; k = [rng.seckey() for _ in rs]
        pubs = []; s = []
        for r, i0, x in zip(rs, si, sec):
            for j in range(r):
                pubs.append(pmul(x, G) if j == i0 else pmul(rng.seckey(), G)); s.append(rng.seckey())
        m = rng.bytes(rng.choice([0, 1, 32, 33, 100]))
        cases.append(('borromean_sign %s / %s / %s / %s / %s / %s / %s' % (hx(m), ' '.join(map(str, rs)), ' '.join(map(str, si)),
                      ' '.join(map(h32, k)), ' '.join(map(h32, sec)), ' '.join(map(h32, s)), ' '.join(map(pt, pubs))), ('borromean_sign', 'nr%d' % nr)))
        # verify random garbage (rejects) incl. zero scalars / infinity keys
        e0 = rng.bytes(32)
        s2 = list(s);
        if rng.random() < 0.3: s2[rng.randint(0, len(s2) - 1)] = 0
        p2 = list(pubs)
        if rng.random() < 0.3: p2[rng.randint(0, len(p2) - 1)] = None
        cases.append(('borromean_verify %s %s / %s / %s / %s' % (hx(m), hx(e0), ' '.join(map(str, rs)), ' '.join(map(h32, s2)), ' '.join(map(pt, p2))), ('borromean_verify', 'garbage')))
    return cases
