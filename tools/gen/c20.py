"""C20: results depend only on arguments: context histories, static context, threads."""
import importlib, re
from .common import *

COMBBITS = [258, 264, 260]   # default/asm/verify/o2 (43x6), int128struct (11x6), int64 (2x5)

# op names whose lines are cheap and thread safe in the harness, by source generator
PICK = {
    'c01': ['ecdsa_sign', 'ecdsa_sign_rec', 'ecdsa_verify', 'ecdsa_recover'],
    'c02': ['schnorr_sign', 'schnorr_verify'],
    'c03': ['pubkey_parse', 'sig_parse_der', 'sig_ser_der', 'pubkey_serialize'],
    'c04': ['pubkey_create', 'keypair_create', 'key_chain', 'pubkey_tweak_add', 'pubkey_combine', 'seckey_tweak_add', 'xonly_tweak_add_check', 'pubkey_sort'],
    'c05': ['sha256', 'tagged_sha256', 'hmac'],
    'c08': ['pedersen_commit', 'generator_generate', 'verify_tally'],
    'c14': ['adaptor_encrypt', 'adaptor_verify'],
    'c15': ['s2c_sign', 's2c_verify_commit'],
    'c16': ['wl_sign', 'wl_verify'],
    'c17': ['ha_aggverify'],
    'c18': ['ecdh', 'ellswift_create', 'ellswift_xdh', 'ellswift_decode'],
}

def pool(rng, ctx):
    out = {}
    for g, names in PICK.items():
        mod = importlib.import_module('gen.' + g)
        sub = Rng(rng.randint(0, 1 << 30))
        byop = {}
        for line, tag in ((c[0], c[1]) for c in mod.generate(sub, 'quick', ctx)):
            op = line.split(' ', 1)[0]
            if op in names and len(line) < 3000: byop.setdefault(op, []).append(line)
        for op, ls in byop.items(): out[op] = ls
    return out

def battery(rng, pl, k):
    ops = rng.sample(sorted(pl), min(k, len(pl)))
    return [rng.choice(pl[o]) for o in ops]

def generate(rng, tier, ctx):
    cases = []
    n = {'quick': 1, 'thorough': 5}[tier]
    pl = pool(rng, ctx)
    # histories
    for h in range(12 * n):
        steps = ['create' if rng.random() < 0.6 else 'prealloc']
        L = rng.randint(3, 30)
        for _ in range(L):
            u = rng.random()
            if u < 0.30: steps.append('rand:' + (h32(rng.scalar(0.3)) if rng.random() < 0.85 else '_'))
            elif u < 0.45: steps.append('call')
            elif u < 0.60: steps.append('state')
            elif u < 0.70: steps.append(rng.choice(['clone', 'pclone']))
            elif u < 0.80: steps.append(rng.choice(['sha:c', 'sha:_']))
            elif u < 0.86: steps.append(rng.choice(['create', 'prealloc']))
            else: steps.append('call')
        steps += ['state', 'call']
        bat = ' | '.join(battery(rng, pl, 8 if tier == 'quick' else 14))
        for cb in COMBBITS:
            cases.append(('ctx_history %d %s / %s' % (cb, ' '.join(steps), bat), ('history', 'len%d-%s' % (min(len(steps) // 8, 4), 'prealloc' if steps[0] == 'prealloc' else 'malloc'))))
    # long randomisation chains
    for cb in COMBBITS:
        steps = ['create'] + ['rand:' + h32(rng.rand256()) for _ in range(40)] + ['state', 'call']
        cases.append(('ctx_history %d %s / %s' % (cb, ' '.join(steps), ' | '.join(battery(rng, pl, 6))), ('history', 'chain40')))
    # static context: every picked op family at least once. Only lines whose own arguments raise no illegal-argument
    # callback with a full context are used here (decided by the model), so that "the callback fired" identifies the
    # static context as the cause (a line that already fires one for a NULL / zero argument would be ambiguous).
    flat = [(o, l) for o in sorted(pl) for l in pl[o]]
    mo = ctx.model([l for _, l in flat])
    clean = {}
    for (o, l), m in zip(flat, mo):
        if not m.startswith('ERR') and not re.search(r'(^| )i[1-9]', m): clean.setdefault(o, []).append(l)
    for _ in range(3 * n):
        ops = sorted(clean)
        bat = [rng.choice(clean[o]) for o in ops]
        cases.append(('ctx_static / ' + ' | '.join(bat), ('static', 'all-families')))
    # threads (executed with a TSan build as well)
    for nt in ([2, 4, 16] if tier == 'quick' else [2, 3, 4, 8, 16]):
        bat = [rng.choice(pl[o]) for o in sorted(pl) if o not in ('pubkey_sort',)]
        cases.append(('ctx_threads %d %d / %s' % (nt, 2 if tier == 'quick' else 5, ' | '.join(bat)), ('threads', 'n%d' % nt)))
    return cases
