"""C01 (translation validation, mode P): the scalar/point-level ECDSA cores as regenerated AlgIR, run against the real
static functions secp256k1_ecdsa_sig_verify / _sig_sign / _sig_recover."""
from .common import *

def generate(rng, tier, ctx):
    cases = []
    n = {'quick': 40, 'thorough': 400}[tier]
    edge = [1, 2, 3, N - 1, N - 2, (N - 1) // 2, (N + 1) // 2, 1 << 128, (1 << 255) % N]
    for _ in range(n):
        d = rng.choice(edge) if rng.random() < 0.2 else rng.seckey()
        k = rng.choice(edge) if rng.random() < 0.2 else rng.seckey()
        m = rng.scalar(0.5) % N
        Q = pmul(d, G); R = pmul(k, G)
        r = R[0] % N; s = (pow(k, N - 2, N) * (m + r * d)) % N
        cases.append(('p_run Pecdsa.sig_sign %s %s %s' % (h32(d), h32(m), h32(k)), ('p_run', 'sig_sign')))
        if r == 0 or s == 0: continue
        variants = [(r, s, Q, m, 'valid'), (r, (N - s) % N, Q, m, 'neg-s'), (r, s, Q, (m + 1) % N, 'wrong-msg'), (r, s, pneg(Q), m, 'neg-key'),
                    ((r + 1) % N, s, Q, m, 'wrong-r'), (0, s, Q, m, 'r-zero'), (r, 0, Q, m, 's-zero'), (s, r, Q, m, 'swapped'),
                    (r, s, pmul((d % (N - 2)) + 2, G), m, 'other-key')]
        # u2*Q + u1*G = infinity: message chosen so that the verification point vanishes (m = -r*d)
        variants.append((r, s, Q, (-r * d) % N, 'pr-infinity'))
        for (rr, ss, QQ, mm, cls) in variants:
            cases.append(('p_run Pecdsa.sig_verify %s %s %s %s' % (h32(rr), h32(ss), pt(QQ), h32(mm)), ('p_run', 'sig_verify.' + cls)))
        for recid in range(4):
            cases.append(('p_run Pecdsa.sig_recover %s %s %s %d' % (h32(r), h32(s), h32(m), recid), ('p_run', 'sig_recover.recid%d' % recid)))
        cases.append(('p_run Pecdsa.sig_recover %s %s %s %d' % (h32(rng.scalar(0.5) % N), h32(s), h32(m), rng.randint(0, 3)), ('p_run', 'sig_recover.random-r')))
        cases.append(('p_run Pecdsa.sig_recover %s %s %s %d' % (h32(0), h32(s), h32(m), 0), ('p_run', 'sig_recover.r-zero')))
    # r small enough that r + n < p: the second comparison branch (x = r + n) of sig_verify / the recid & 2 branch of recover
    for _ in range(n // 4):
        rs = rng.randint(1, P - N - 1); s = rng.seckey(); m = rng.scalar(0.5) % N; Q = rng.point()
        cases.append(('p_run Pecdsa.sig_verify %s %s %s %s' % (h32(rs), h32(s), pt(Q), h32(m)), ('p_run', 'sig_verify.small-r')))
        for recid in (2, 3):
            cases.append(('p_run Pecdsa.sig_recover %s %s %s %d' % (h32(rs), h32(s), h32(m), recid), ('p_run', 'sig_recover.small-r')))
        cases.append(('p_run Pecdsa.sig_recover %s %s %s %d' % (h32(P - N + rng.randint(0, 5)), h32(s), h32(m), 2), ('p_run', 'sig_recover.r>=p-n')))
    return cases
