"""C12: MuSig2 (BIP-327 + adaptors): key aggregation, tweaking, nonce generation / aggregation / processing,
partial signing / verification / aggregation, adapt / extract, parse / serialize.

Sessions are Python coroutines: each `yield`s a list of (line, tag) and receives the model's output lines,
from which the next lines are built (objects travel as tokens).  `drive` runs all coroutines in lockstep so
that every round costs one `ctx.model` call.  Python curve arithmetic is only used to construct inputs
(public keys, cancelling nonces, tweaks that flip parity / reach infinity)."""
from .common import *

SECNONCE_MAGIC = '220edcf1'
BIP_PKS = ['02f9308a019258c31049344f85f89d5229b531c845836f99b08601f113bce036f9',
           '03dff1d77f2a671c5f36183726db2341be58feae1da2deced843240f7b502ba659',
           '023590a94e768f8e1815c2f24b4d80a8e3149316c3518ce7b7ad338368d038ca66']
BIP_KEYAGG = [([0, 1, 2], '90539eede565f5d054f32cc0c220126889ed1e5d193baf15aef344fe59d4610c'),
              ([2, 1, 0], '6204de8b083426dc6eaf9502d27024d53fc826bf7d2012148a0575435df54b2b'),
              ([0, 0, 0], 'b436e3bad62b8cd409969a224731c193d051162d8c5ae8b109306127da3aa935'),
              ([0, 0, 1, 1], '69bc22bfa5d106306e48a20679de1d7389386124d07571d0d872686028c26a3e')]


def sanity(cond, what):
    if not cond: raise RuntimeError('c12 sanity check failed: ' + what)

def drive(ctx, coros):
    cases = []; pending = []
    for c in coros:
        try: pending.append((c, next(c)))
        except StopIteration: pass
    while pending:
        lines = [l for _, req in pending for (l, _t) in req]
        outs = ctx.model(lines)
        for l, o in zip(lines, outs): sanity(not o.startswith('ERR'), 'model: %s -> %s' % (l[:200], o))
        cases += [lt for _, req in pending for lt in req]
        nxt = []; k = 0
        for c, req in pending:
            res = outs[k:k + len(req)]; k += len(req)
            try: nxt.append((c, c.send(res)))
            except StopIteration: pass
        pending = nxt
    return cases

def decompress(hex33):
    b = bytes.fromhex(hex33); return lift_x(int.from_bytes(b[1:], 'big'), b[0] & 1)
def ser66(a, b): return (ser33(a) + ser33(b)).hex()
def ext33(a): return b'\0' * 33 if a is None else ser33(a)
def tok_y_odd(tok): return int(tok[-1], 16) & 1     # point token 04||x||y
def tok_x(tok): return tok[2:66]
def tok_even(tok):
    """x-only object (even y) of a public-key token"""
    x = int(tok[2:66], 16); y = int(tok[66:], 16)
    return pt((x, y if y % 2 == 0 else P - y))

def keyagg_secret(sks, pks):
    """aggregate secret key sum(a_i * sk_i) of BIP-327 (input construction only)"""
    L = tagged(b'KeyAgg list', b''.join(ser33(p) for p in pks))
    second = next((p for p in pks[1:] if p != pks[0]), None)
    d = 0
    for s, p in zip(sks, pks):
        a = 1 if (second is not None and p == second) else int.from_bytes(tagged(b'KeyAgg coefficient', L + ser33(p)), 'big') % N
        d = (d + a * s) % N
    return d

KEYSETS = ['distinct', 'distinct', 'all_equal', 'first_repeated', 'first_then_second', 'second_repeated', 'sorted', 'neg_pair', 'revsorted']
def keyset(rng, n, kind):
    sks = []
    while len(sks) < n:
        s = rng.seckey()
        if s not in sks: sks.append(s)
    if n == 0: return [], []
    if kind == 'all_equal': sks = [sks[0]] * n
    elif kind == 'first_repeated' and n >= 2:
        for i in range(1, n):
            if rng.random() < 0.5: sks[i] = sks[0]
        sks[1] = sks[0]
    elif kind == 'first_then_second' and n >= 3:
        sks[1] = sks[0]; sks[-1] = sks[2]
    elif kind == 'second_repeated' and n >= 3:
        for i in range(2, n):
            if rng.random() < 0.5: sks[i] = sks[1]
        sks[-1] = sks[1]
    elif kind == 'neg_pair' and n >= 2:
        sks[rng.randint(1, n - 1)] = N - sks[0]
    pks = [pmul(s, G) for s in sks]
    if kind in ('sorted', 'revsorted'):
        o = sorted(range(n), key=lambda i: ser33(pks[i]), reverse=(kind == 'revsorted'))
        sks = [sks[i] for i in o]; pks = [pks[i] for i in o]
    return sks, pks

def msg32(rng):
    u = rng.random()
    if u < 0.1: return b'\0' * 32
    if u < 0.2: return b'\xff' * 32
    return rng.bytes(32)

def secnonce_tok(k1, k2, pk): return '%s:%s:%s:%s' % (SECNONCE_MAGIC, h32(k1), h32(k2), pt(pk))

# ----------------------------------------------------------------------------------------------
def session(rng, n, kind, ntweaks, adaptor, nonce_mode, fam='session'):
    """one complete honest session.  nonce_mode: 'gen' | 'counter' | 'mixed' | 'inf1' | 'inf2' | 'inf12' (crafted
    secret nonces whose aggregate cancels in the first / second / both components)"""
    cls = '%s-n%d-t%d-%s%s' % (kind, n, ntweaks, nonce_mode, '-ad' if adaptor else '')
    T = (fam, cls)
    sks, pks = keyset(rng, n, kind)
    out = yield [('musig_pubkey_agg - ' + ' '.join(map(pt, pks)), (fam + '_keyagg', '%s-n%d' % (kind, n)))]
    r = out[0].split(); sanity(r[0] == '1', 'keyagg ' + out[0]); cache = r[2]
    d = keyagg_secret(sks, pks)
    q = pmul(d, G)
    sanity(cache.split(':')[1] == pt(q), 'aggregate key differs from the input-construction formula')
    # ---- tweaks
    for ti in range(ntweaks):
        xonly = rng.random() < 0.5
        cur_odd = tok_y_odd(cache.split(':')[1])
        dd = (N - d) if (xonly and cur_odd) else d
        u = rng.random()
        if u < 0.12: t = rng.choice([N, N + 1, M256 - 1]); tc = 'overflow'
        elif u < 0.2: t = (N - dd) % N; tc = 'infinity'
        elif u < 0.28: t = rng.choice([0, 1, N - 1]); tc = 'edge'
        elif u < 0.7:
            tc = 'flip'
            for _ in range(40):                        # tweak whose result has odd y (x-only tweaking flips next time)
                t = rng.seckey()
                r_ = pmul((dd + t) % N, G)
                if r_ is not None and r_[1] & 1: break
        else: t = rng.seckey(); tc = 'random'
        out = yield [('musig_%s_tweak_add - %s %s' % ('xonly' if xonly else 'ec', cache, h32(t)),
                      (fam + '_tweak', ('xonly-' if xonly else 'ec-') + tc + ('-odd' if cur_odd else '-even')))]
        r = out[0].split()
        if tc == 'overflow' or (tc == 'infinity'): sanity(r[0] == '0' and r[2] == cache, 'tweak should fail and leave the cache: ' + out[0])
        else:
            sanity(r[0] == '1', 'tweak ' + out[0]); d = (dd + t) % N; cache = r[2]
            sanity(cache.split(':')[1] == pt(pmul(d, G)) == r[1], 'tweaked key')
    msg = msg32(rng)
    # ---- nonces
    lines = []; crafted = None
    if nonce_mode.startswith('inf'):
        k1 = [rng.seckey() for _ in range(n)]; k2 = [rng.seckey() for _ in range(n)]
        if n >= 2:
            if '1' in nonce_mode: k1[-1] = (-sum(k1[:-1])) % N
            if '2' in nonce_mode: k2[-1] = (-sum(k2[:-1])) % N
        if any(k % N == 0 for k in k1 + k2): return
        crafted = [(secnonce_tok(a, b, p), ser66(pmul(a, G), pmul(b, G))) for a, b, p in zip(k1, k2, pks)]
        sns = [c[0] for c in crafted]; pns = [c[1] for c in crafted]
    else:
        for i in range(n):
            use_ctr = nonce_mode == 'counter' or (nonce_mode == 'mixed' and rng.random() < 0.5)
            m_ = hx(msg) if rng.random() < 0.7 else '_'
            c_ = cache if rng.random() < 0.7 else '_'
            e_ = hx(rng.bytes(32)) if rng.random() < 0.5 else '_'
            if use_ctr:
                cnt = rng.choice([0, 1, (1 << 32) - 1, 1 << 32, (1 << 63), (1 << 64) - 1, rng.randint(0, (1 << 64) - 1)]) ^ i
                lines.append(('musig_nonce_gen_counter - %d %s %s %s %s %s' % (cnt, h32(sks[i]), pt(pks[i]), m_, c_, e_), (fam + '_noncegen', 'counter')))
            else:
                s_ = h32(sks[i]) if rng.random() < 0.7 else '_'
                lines.append(('musig_nonce_gen - %s %s %s %s %s %s' % (hx(rng.bytes(31) + bytes([i + 1])), s_, pt(pks[i]), m_, c_, e_), (fam + '_noncegen', 'gen')))
        out = yield lines
        sns = []; pns = []
        for o in out:
            r = o.split(); sanity(r[0] == '1' and r[1] == 'z0', 'nonce_gen ' + o); sns.append(r[2]); pns.append(r[3])
    perm = list(range(n)); rng.shuffle(perm)       # aggregation order is irrelevant
    out = yield [('musig_nonce_agg - ' + ' '.join(pns), (fam + '_nonceagg', nonce_mode)),
                 ('musig_nonce_agg - ' + ' '.join(pns[i] for i in perm), (fam + '_nonceagg', nonce_mode + '-perm'))] + \
                [('musig_pubnonce_parse ' + p, ('pubnonce_parse', 'valid')) for p in pns[:2]]
    r = out[0].split(); sanity(r[0] == '1' and out[1] == out[0], 'nonce_agg ' + out[0]); an = r[1]
    if n >= 2 and '1' in nonce_mode and nonce_mode.startswith('inf'): sanity(an[:66] == '00' * 33, 'first component not infinity')
    if n >= 2 and '2' in nonce_mode and nonce_mode.startswith('inf'): sanity(an[66:] == '00' * 33, 'second component not infinity')
    tsec = rng.seckey() if adaptor else None
    ad = pt(pmul(tsec, G)) if adaptor else '_'
    msg2 = bytes([msg[0] ^ 1]) + msg[1:]
    out = yield [('musig_nonce_process - %s %s %s %s' % (an, hx(msg), cache, ad), (fam + '_process', nonce_mode + ('-ad' if adaptor else ''))),
                 ('musig_nonce_process - %s %s %s %s' % (an, hx(msg2), cache, ad), (fam + '_process', 'othermsg')),
                 ('musig_aggnonce_parse ' + an, ('aggnonce_parse', 'valid-' + nonce_mode)),
                 ('musig_aggnonce_serialize ' + an, ('aggnonce_serialize', 'valid-' + nonce_mode))]
    r = out[0].split(); sanity(r[0] == '1', 'process ' + out[0]); se = r[1]; se2 = out[1].split()[1]
    sanity(out[2] == '1 ' + an and out[3].split()[1] == an, 'aggnonce round trip')
    # ---- sign
    out = yield [('musig_partial_sign - %s %s %s %s %s' % (sns[i], h32(sks[i]), pt(pks[i]), cache, se), T) for i in range(n)] + \
                [('musig_nonce_parity - ' + se, ('nonce_parity', 'session'))]
    ps = []
    for o in out[:n]:
        r = o.split(); sanity(r[0] == '1' and r[2] == 'z1', 'partial_sign ' + o); ps.append(r[1])
    parity = int(out[n].split()[1]); sanity(parity == int(se.split(':')[1]), 'parity')
    # ---- verify (accept), and with wrong signer / nonce / session / signature (reject)
    lines = []; expect = []
    for i in range(n):
        lines.append(('musig_partial_sig_verify %s %s %s %s %s' % (ps[i], pns[i], pt(pks[i]), cache, se), (fam + '_psverify', 'accept'))); expect.append('1')
    for i in range(min(n, 3)):
        j = (i + 1) % n
        if pks[j] != pks[i]:
            lines.append(('musig_partial_sig_verify %s %s %s %s %s' % (ps[i], pns[i], pt(pks[j]), cache, se), (fam + '_psverify', 'wrong-signer'))); expect.append('0')
            lines.append(('musig_partial_sig_verify %s %s %s %s %s' % (ps[i], pns[i], pt(pneg(pks[i])), cache, se), (fam + '_psverify', 'negated-signer'))); expect.append('0')
        if pns[j] != pns[i]:
            lines.append(('musig_partial_sig_verify %s %s %s %s %s' % (ps[i], pns[j], pt(pks[i]), cache, se), (fam + '_psverify', 'wrong-nonce'))); expect.append('0')
        lines.append(('musig_partial_sig_verify %s %s %s %s %s' % (ps[i], pns[i], pt(pks[i]), cache, se2), (fam + '_psverify', 'wrong-session'))); expect.append('0')
        lines.append(('musig_partial_sig_verify %s %s %s %s %s' % (h32((int(ps[i], 16) + 1) % N), pns[i], pt(pks[i]), cache, se), (fam + '_psverify', 'sig-plus-1'))); expect.append('0')
    lines.append(('musig_partial_sig_agg - %s %s' % (se, ' '.join(ps)), (fam + '_psagg', 'n%d' % n)))
    lines.append(('musig_pubkey_get ' + cache, ('pubkey_get', 'session')))
    out = yield lines
    for (l, _t), o, e in zip(lines, out, expect): sanity(o == e + ' i0', 'partial_sig_verify expected %s: %s' % (e, o))
    r = out[-2].split(); sanity(r[0] == '1', 'psagg'); pre = r[1]
    apk = out[-1].split()[1]; sanity(apk == cache.split(':')[1], 'pubkey_get'); apk = tok_even(apk)
    valid_expected = nonce_mode != 'inf12' or n < 2 or adaptor
    if not adaptor:
        out = yield [('schnorr_verify %s %s %s' % (pre, hx(msg), apk), (fam + '_final', nonce_mode))]
        if valid_expected: sanity(out[0] == '1 i0', 'aggregate signature invalid: ' + out[0] + ' ' + cls + ' ' + lines[-2][0])
        return
    out = yield [('schnorr_verify %s %s %s' % (pre, hx(msg), apk), (fam + '_final', 'presig')),
                 ('musig_adapt - %s %s %d' % (pre, h32(tsec), parity), ('adapt', 'session')),
                 ('musig_adapt - %s %s %d' % (pre, h32(tsec), 1 - parity), ('adapt', 'session-wrongparity'))]
    r = out[1].split(); sanity(r[0] == '1', 'adapt'); sig = r[1]; sigw = out[2].split()[1]
    out = yield [('schnorr_verify %s %s %s' % (sig, hx(msg), apk), (fam + '_final', 'adapted')),
                 ('schnorr_verify %s %s %s' % (sigw, hx(msg), apk), (fam + '_final', 'adapted-wrongparity')),
                 ('musig_extract_adaptor - %s %s %d' % (sig, pre, parity), ('extract', 'session'))]
    sanity(out[0] == '1 i0', 'adapted signature invalid')
    sanity(out[2].split()[1] == h32(tsec), 'extract(adapt(t)) != t')


def bip_vectors():
    pks = [decompress(h) for h in BIP_PKS]
    lines = [('musig_pubkey_agg - ' + ' '.join(pt(pks[i]) for i in idx), ('keyagg', 'bip327-vector')) for idx, _ in BIP_KEYAGG]
    out = yield lines
    for o, (_, exp) in zip(out, BIP_KEYAGG): sanity(tok_x(o.split()[1]) == exp, 'BIP-327 key_agg vector: ' + o)


def keyagg_misc(rng, n):
    """key aggregation on its own: argument failures, invalid objects, output pointers absent"""
    kind = rng.choice(KEYSETS); sks, pks = keyset(rng, n, kind)
    toks = list(map(pt, pks)); cl = kind
    u = rng.random()
    if u < 0.25 and n >= 1: toks[rng.randint(0, n - 1)] = 'Z'; cl = 'zero-object'
    elif u < 0.35 and n >= 1: toks[rng.randint(0, n - 1)] = '_'; cl = 'null-entry'
    elif u < 0.45 and n >= 2: toks = ['Z'] * n; cl = 'all-zero-objects'
    flags = rng.choice(['-', '-', 'a', 'c', 'ac'])
    yield [('musig_pubkey_agg %s %s' % (flags, ' '.join(toks)), ('keyagg', '%s-%s-n%d' % (cl, flags, min(n, 5))))]


def tweak_misc(rng):
    sks, pks = keyset(rng, rng.randint(1, 3), 'distinct')
    out = yield [('musig_pubkey_agg - ' + ' '.join(map(pt, pks)), ('keyagg', 'for-tweak'))]
    cache = out[0].split()[2]; f = cache.split(':')
    lines = []
    for _ in range(6):
        t = rng.scalar(0.7); op = rng.choice(['ec', 'xonly']); flags = rng.choice(['-', '-', 'o'])
        lines.append(('musig_%s_tweak_add %s %s %s' % (op, flags, cache, h32(t)), ('tweak', '%s-%s-%s' % (op, 'ov' if t >= N else 'zero' if t == 0 else 'ok', flags))))
    for t in (0, 1, N - 1, N):                     # boundary tweaks, both functions, always (BIP-327 ApplyTweak accepts the zero tweak)
        for op in ('ec', 'xonly'):
            lines.append(('musig_%s_tweak_add - %s %s' % (op, cache, h32(t)), ('tweak', '%s-%s-fixed' % (op, 'ov' if t >= N else 'zero' if t == 0 else 'edge'))))
    bad = ':'.join(['f4adbbde'] + f[1:])
    lines.append(('musig_xonly_tweak_add - %s %s' % (bad, h32(5)), ('tweak', 'bad-magic')))
    lines.append(('musig_ec_tweak_add - _ %s' % h32(5), ('tweak', 'null-cache')))
    lines.append(('musig_ec_tweak_add o %s _' % cache, ('tweak', 'null-tweak')))
    lines.append(('musig_pubkey_get ' + bad, ('pubkey_get', 'bad-magic')))
    lines.append(('musig_pubkey_get _', ('pubkey_get', 'null')))
    # a cache whose parity byte / accumulated tweak were set by hand (fields are independent inputs of the functions)
    hand = ':'.join(f[:4] + [str(rng.choice([1, 2, 3, 254, 255])), h32(rng.scalar(0.5))])
    lines.append(('musig_xonly_tweak_add - %s %s' % (hand, h32(rng.seckey())), ('tweak', 'hand-made-cache')))
    lines.append(('musig_ec_tweak_add - %s %s' % (hand, h32(rng.seckey())), ('tweak', 'hand-made-cache')))
    yield lines


def noncegen_misc(rng):
    sk = rng.seckey(); pk = pmul(sk, G)
    out = yield [('musig_pubkey_agg - %s %s' % (pt(pk), pt(pmul(rng.seckey(), G))), ('keyagg', 'for-noncegen'))]
    cache = out[0].split()[2]; bad = 'f5' + cache[2:]
    lines = []
    msg = hx(rng.bytes(32)); ex = hx(rng.bytes(32)); sr = hx(rng.bytes(32))
    # every subset of optional arguments, both entry points
    for mask in range(16):
        a = [h32(sk) if mask & 1 else '_', msg if mask & 2 else '_', cache if mask & 4 else '_', ex if mask & 8 else '_']
        lines.append(('musig_nonce_gen - %s %s %s %s %s %s' % (sr, a[0], pt(pk), a[1], a[2], a[3]), ('noncegen', 'optmask%d' % mask)))
    for mask in range(8):
        a = [msg if mask & 1 else '_', cache if mask & 2 else '_', ex if mask & 4 else '_']
        lines.append(('musig_nonce_gen_counter - %d %s %s %s %s %s' % (12345, h32(sk), pt(pk), a[0], a[1], a[2]), ('noncegen_counter', 'optmask%d' % mask)))
    # counters over the full 64-bit range; c and c + 2^32 (and other single-bit differences) must give different nonces
    base = rng.choice([0, 1, 7, rng.randint(0, (1 << 32) - 1)])
    ctrs = [base, base + (1 << 32), base + (1 << 63), base ^ (1 << 31), base + (1 << 40), base + (1 << 56), (1 << 64) - 1, (1 << 64) - 1 - (1 << 32)]
    k0 = len(lines)
    for c in ctrs:
        lines.append(('musig_nonce_gen_counter - %d %s %s %s %s _' % (c, h32(sk), pt(pk), msg, cache), ('noncegen_counter', 'ctr-bits')))
    # failures
    fails = [
        ('musig_nonce_gen - %s %s %s %s %s _' % ('00' * 32, h32(sk), pt(pk), msg, cache), ('noncegen', 'zero-secrand')),
        ('musig_nonce_gen - _ %s %s %s %s _' % (h32(sk), pt(pk), msg, cache), ('noncegen', 'null-secrand')),
        ('musig_nonce_gen - %s %s _ %s %s _' % (sr, h32(sk), msg, cache), ('noncegen', 'null-pubkey')),
        ('musig_nonce_gen - %s %s Z %s %s _' % (sr, h32(sk), msg, cache), ('noncegen', 'zero-pubkey')),
        ('musig_nonce_gen - %s %s %s %s %s _' % (sr, h32(sk), pt(pk), msg, bad), ('noncegen', 'bad-cache')),
        ('musig_nonce_gen s %s %s %s %s %s _' % (sr, h32(sk), pt(pk), msg, cache), ('noncegen', 'null-secnonce')),
        ('musig_nonce_gen p %s %s %s %s %s _' % (sr, h32(sk), pt(pk), msg, cache), ('noncegen', 'null-pubnonce')),
        ('musig_nonce_gen_counter s 5 %s %s %s %s _' % (h32(sk), pt(pk), msg, cache), ('noncegen_counter', 'null-secnonce')),
        ('musig_nonce_gen_counter p 5 %s %s %s %s _' % (h32(sk), pt(pk), msg, cache), ('noncegen_counter', 'null-pubnonce')),
        ('musig_nonce_gen_counter - 5 _ _ %s %s _' % (msg, cache), ('noncegen_counter', 'null-keypair')),
        ('musig_nonce_gen_counter - 5 %s Z %s %s _' % ('00' * 32, msg, cache), ('noncegen_counter', 'zero-keypair')),
        ('musig_nonce_gen_counter - 5 %s %s %s %s _' % (h32(sk), pt(pk), msg, bad), ('noncegen_counter', 'bad-cache')),
        ('musig_nonce_gen_counter - 0 %s %s %s %s _' % (h32(sk), pt(pk), msg, cache), ('noncegen_counter', 'counter-zero')),
    ]
    for bsk in [0, N, N + 1, M256 - 1, N - 1, 1]:
        fails.append(('musig_nonce_gen - %s %s %s %s %s _' % (sr, h32(bsk), pt(pk), msg, cache), ('noncegen', 'seckey-' + ('valid' if 0 < bsk < N else 'invalid'))))
        fails.append(('musig_nonce_gen_counter - 9 %s %s %s %s _' % (h32(bsk), pt(pk), msg, cache), ('noncegen_counter', 'seckey-' + ('valid' if 0 < bsk < N else 'invalid'))))
    out = yield lines + fails
    sn = [o.split()[2] for o in out[k0:k0 + len(ctrs)]]
    sanity(len(set(sn)) == len(ctrs), 'counters differing in one bit gave equal secret nonces')
    for (l, t), o in zip(fails, out[len(lines):]):
        if t[1] in ('zero-secrand', 'seckey-invalid', 'bad-cache', 'zero-pubkey', 'zero-keypair'):
            sanity(o.split()[0] == '0' and o.split()[1] == 'z1', 'failed nonce_gen must leave a zeroed secnonce: ' + o)


def crafted_pubnonces(rng, n):
    """pubnonce lists for aggregation: cancelling components, invalid objects"""
    k1 = [rng.seckey() for _ in range(n)]; k2 = [rng.seckey() for _ in range(n)]
    mode = rng.choice(['inf1', 'inf2', 'inf12', 'dup', 'plain'])
    if n >= 2:
        if mode in ('inf1', 'inf12'): k1[-1] = (-sum(k1[:-1])) % N
        if mode in ('inf2', 'inf12'): k2[-1] = (-sum(k2[:-1])) % N
        if mode == 'dup': k1[-1] = k1[0]; k2[-1] = k2[0]
    if any(k == 0 for k in k1 + k2): k1 = [1] * n; k2 = [2] * n; mode = 'plain'
    return mode, [ser66(pmul(a, G), pmul(b, G)) for a, b in zip(k1, k2)]

def nonceagg_misc(rng, n):
    mode, pns = crafted_pubnonces(rng, n)
    u = rng.random(); flags = '-'
    if u < 0.15 and n: pns[rng.randint(0, n - 1)] = 'Z'; mode = 'zero-object'
    elif u < 0.25 and n: pns[rng.randint(0, n - 1)] = '_'; mode = 'null-entry'
    elif u < 0.35 and n:
        i = rng.randint(0, n - 1); pns[i] = '00' * 33 + pns[i][66:]; mode = 'unparsable-entry'   # parse fails -> zeroed object
    elif u < 0.4: flags = 'o'; mode = 'null-out'
    out = yield [('musig_nonce_agg %s %s' % (flags, ' '.join(pns)), ('nonceagg', '%s-n%d' % (mode, min(n, 4))))]
    r = out[0].split()
    if r[0] == '1':
        # process the (possibly infinite) aggregate with / without an adaptor, incl. an adaptor cancelling the first component
        sk = rng.seckey(); pk = pmul(sk, G)
        o2 = yield [('musig_pubkey_agg - ' + pt(pk), ('keyagg', 'single'))]
        cache = o2[0].split()[2]; msg = hx(msg32(rng)); an = r[1]
        lines = [('musig_nonce_process - %s %s %s _' % (an, msg, cache), ('process', mode)),
                 ('musig_nonce_process - %s %s %s %s' % (an, msg, cache, pt(pmul(rng.seckey(), G))), ('process', mode + '-adaptor'))]
        if an[:66] != '00' * 33:
            r1 = decompress(an[:66])
            lines.append(('musig_nonce_process - %s %s %s %s' % (an, msg, cache, pt(pneg(r1))), ('process', mode + '-adaptor-cancels-r1')))
        yield lines


def process_misc(rng):
    sk = rng.seckey(); pk = pmul(sk, G)
    _, pns = crafted_pubnonces(rng, 2)
    out = yield [('musig_pubkey_agg - ' + pt(pk), ('keyagg', 'single')), ('musig_nonce_agg - ' + ' '.join(pns), ('nonceagg', 'for-process'))]
    cache = out[0].split()[2]; an = out[1].split()[1]; msg = hx(rng.bytes(32)); bad = 'f5' + cache[2:]
    g33 = ser33(G).hex(); z33 = '00' * 33
    lines = [('musig_nonce_process o %s %s %s _' % (an, msg, cache), ('process', 'null-session')),
             ('musig_nonce_process - _ %s %s _' % (msg, cache), ('process', 'null-aggnonce')),
             ('musig_nonce_process - %s _ %s _' % (an, cache), ('process', 'null-msg')),
             ('musig_nonce_process - %s %s _ _' % (an, msg), ('process', 'null-cache')),
             ('musig_nonce_process - %s %s %s _' % (an, msg, bad), ('process', 'bad-cache')),
             ('musig_nonce_process - Z %s %s _' % (msg, cache), ('process', 'zero-aggnonce')),
             ('musig_nonce_process - %s %s %s Z' % (an, msg, cache), ('process', 'zero-adaptor')),
             ('musig_nonce_process - %s %s %s _' % (z33 + z33, msg, cache), ('process', 'aggnonce-inf-inf')),
             ('musig_nonce_process - %s %s %s _' % (z33 + g33, msg, cache), ('process', 'aggnonce-inf-G')),
             ('musig_nonce_process - %s %s %s _' % (g33 + z33, msg, cache), ('process', 'aggnonce-G-inf')),
             ('musig_nonce_process - %s %s %s %s' % (z33 + z33, msg, cache, pt(G)), ('process', 'aggnonce-inf-inf-adaptor')),
             ('musig_nonce_parity o %s' % '9dede917:1:' + ':'.join([h32(1)] * 4), ('nonce_parity', 'null-out')),
             ('musig_nonce_parity - _', ('nonce_parity', 'null-session')),
             ('musig_nonce_parity - %s' % ('9dede916:1:' + ':'.join([h32(1)] * 4)), ('nonce_parity', 'bad-magic'))]
    for p in [0, 1, 2, 255]:
        lines.append(('musig_nonce_parity - %s' % ('9dede917:%d:' % p + ':'.join([h32(rng.rand256())] * 4)), ('nonce_parity', 'byte%d' % p)))
    yield lines


def sign_misc(rng):
    """partial_sign / partial_sig_verify / partial_sig_agg failure paths on a 2-signer setup"""
    sks, pks = keyset(rng, 2, 'distinct')
    out = yield [('musig_pubkey_agg - ' + ' '.join(map(pt, pks)), ('keyagg', 'for-sign'))]
    cache = out[0].split()[2]; msg = hx(rng.bytes(32)); bad = 'f5' + cache[2:]
    out = yield [('musig_nonce_gen - %s %s %s %s %s _' % (hx(rng.bytes(32)), h32(sks[i]), pt(pks[i]), msg, cache), ('noncegen', 'for-sign')) for i in range(2)]
    sns = [o.split()[2] for o in out]; pns = [o.split()[3] for o in out]
    out = yield [('musig_nonce_agg - ' + ' '.join(pns), ('nonceagg', 'for-sign'))]
    an = out[0].split()[1]
    out = yield [('musig_nonce_process - %s %s %s _' % (an, msg, cache), ('process', 'for-sign'))]
    se = out[0].split()[1]; badse = '9c' + se[2:]
    sk, pk, sn = h32(sks[0]), pt(pks[0]), sns[0]
    f = sn.split(':')
    # parity byte of the session is used as a boolean by partial_sign / verify
    sf = se.split(':'); se_par2 = ':'.join([sf[0], str(int(sf[1]) + 2)] + sf[2:])
    lines = [
        ('musig_partial_sign - %s %s %s %s %s' % (sn, sk, pk, cache, se), ('sign', 'ok')),
        ('musig_partial_sign - %s %s %s %s %s' % (sn, sk, pk, cache, se_par2), ('sign', 'parity-byte-plus-2')),
        ('musig_partial_sign - %s %s %s %s %s' % (':'.join([f[0], h32(0), f[2], f[3]]), sk, pk, cache, se), ('sign', 'k1-zero-secnonce')),
        ('musig_partial_sign - %s %s %s %s %s' % (':'.join([f[0], f[1], h32(0), f[3]]), sk, pk, cache, se), ('sign', 'k2-zero-secnonce')),
        ('musig_partial_sign o %s %s %s %s %s' % (sn, sk, pk, cache, se), ('sign', 'null-out')),
        ('musig_partial_sign - _ %s %s %s %s' % (sk, pk, cache, se), ('sign', 'null-secnonce')),
        ('musig_partial_sign - %s _ _ %s %s' % (sn, cache, se), ('sign', 'null-keypair')),
        ('musig_partial_sign - %s %s %s _ %s' % (sn, sk, pk, se), ('sign', 'null-cache')),
        ('musig_partial_sign - %s %s %s %s _' % (sn, sk, pk, cache), ('sign', 'null-session')),
        ('musig_partial_sign - %s %s %s %s %s' % (sn, sk, pk, bad, se), ('sign', 'bad-cache')),
        ('musig_partial_sign - %s %s %s %s %s' % (sn, sk, pk, cache, badse), ('sign', 'bad-session')),
        ('musig_partial_sign - %s %s %s %s %s' % (sn, h32(sks[1]), pt(pks[1]), cache, se), ('sign', 'foreign-keypair')),
        ('musig_partial_sign - %s %s %s %s %s' % (sn, h32(N - sks[0]), pt(pneg(pks[0])), cache, se), ('sign', 'negated-keypair')),
        ('musig_partial_sign - %s %s Z %s %s' % (sn, '00' * 32, cache, se), ('sign', 'zero-keypair')),
        ('musig_partial_sign - %s %s %s %s %s' % (sn, '00' * 32, pk, cache, se), ('sign', 'zero-seckey')),
        ('musig_partial_sign - %s %s %s %s %s' % (sn, h32(N), pk, cache, se), ('sign', 'overflow-seckey')),
        ('musig_partial_sign - %s %s %s %s %s' % (':'.join(['00000000', h32(0), h32(0), 'Z']), sk, pk, cache, se), ('sign', 'zeroed-secnonce')),
        ('musig_partial_sign - %s %s %s %s %s' % (':'.join(['220edcf0'] + f[1:]), sk, pk, cache, se), ('sign', 'bad-magic-secnonce')),
        ('musig_partial_sign - %s %s %s %s %s' % (':'.join([f[0], h32(0), h32(0), f[3]]), sk, pk, cache, se), ('sign', 'zero-scalars-secnonce')),
        ('musig_partial_sign - %s %s %s %s %s' % (':'.join([f[0], h32(N), h32(N), f[3]]), sk, pk, cache, se), ('sign', 'k-equals-N-secnonce')),
    ]
    out = yield lines
    for o in out[:4]: sanity(o.split()[0] == '1' and o.split()[2] == 'z1', 'sign ok: ' + o)
    for (l, t), o in zip(lines[4:], out[4:]):
        r = o.split(); sanity(r[0] == '0', 'sign must fail (%s): %s' % (t[1], o))
        if t[1] != 'null-secnonce': sanity(r[2] == 'z1', 'secnonce not wiped (%s): %s' % (t[1], o))
    ps = out[0].split()[1]; pn = pns[0]
    out2 = yield [('musig_partial_sign - %s %s %s %s %s' % (sns[1], h32(sks[1]), pt(pks[1]), cache, se), ('sign', 'ok'))]
    ps1 = out2[0].split()[1]
    lines = [
        ('musig_partial_sig_verify %s %s %s %s %s' % (ps, pn, pk, cache, se), ('psverify', 'accept')),
        ('musig_partial_sig_verify _ %s %s %s %s' % (pn, pk, cache, se), ('psverify', 'null-sig')),
        ('musig_partial_sig_verify %s _ %s %s %s' % (ps, pk, cache, se), ('psverify', 'null-pubnonce')),
        ('musig_partial_sig_verify %s %s _ %s %s' % (ps, pn, cache, se), ('psverify', 'null-pubkey')),
        ('musig_partial_sig_verify %s %s %s _ %s' % (ps, pn, pk, se), ('psverify', 'null-cache')),
        ('musig_partial_sig_verify %s %s %s %s _' % (ps, pn, pk, cache), ('psverify', 'null-session')),
        ('musig_partial_sig_verify Z %s %s %s %s' % (pn, pk, cache, se), ('psverify', 'zero-sig')),
        ('musig_partial_sig_verify %s %s %s %s %s' % (h32(int(ps, 16) + N), pn, pk, cache, se), ('psverify', 'sig-plus-N')),
        ('musig_partial_sig_verify %s Z %s %s %s' % (ps, pk, cache, se), ('psverify', 'zero-pubnonce')),
        ('musig_partial_sig_verify %s %s Z %s %s' % (ps, pn, cache, se), ('psverify', 'zero-pubkey')),
        ('musig_partial_sig_verify %s %s %s %s %s' % (ps, pn, pk, bad, se), ('psverify', 'bad-cache')),
        ('musig_partial_sig_verify %s %s %s %s %s' % (ps, pn, pk, cache, badse), ('psverify', 'bad-session')),
        ('musig_partial_sig_verify %s %s %s %s %s' % (ps, pn[66:] + pn[:66], pk, cache, se), ('psverify', 'swapped-nonce-halves')),
        ('musig_partial_sig_verify %s %s %s %s %s' % (h32(N - int(ps, 16)), pn, pk, cache, se), ('psverify', 'negated-sig')),
        ('musig_partial_sig_agg - %s %s %s' % (se, ps, ps1), ('psagg', 'ok')),
        ('musig_partial_sig_agg - %s %s %s' % (se, ps1, ps), ('psagg', 'ok-swapped')),
        ('musig_partial_sig_agg - %s' % se, ('psagg', 'n0')),
        ('musig_partial_sig_agg o %s %s' % (se, ps), ('psagg', 'null-out')),
        ('musig_partial_sig_agg - _ %s' % ps, ('psagg', 'null-session')),
        ('musig_partial_sig_agg - %s %s _' % (se, ps), ('psagg', 'null-entry')),
        ('musig_partial_sig_agg - %s %s Z' % (se, ps), ('psagg', 'zero-entry')),
        ('musig_partial_sig_agg - %s %s %s' % (se, ps, h32(N)), ('psagg', 'unparsable-entry')),
        ('musig_partial_sig_agg - %s %s' % (badse, ps), ('psagg', 'bad-session')),
        ('musig_partial_sig_agg - %s %s %s' % (se, ps, h32(N - int(ps, 16))), ('psagg', 'cancelling')),
    ]
    out = yield lines
    sanity(out[0] == '1 i0', 'verify accept')
    for (l, t), o in zip(lines[1:14], out[1:14]): sanity(o.split()[0] == '0', 'verify must reject (%s)' % t[1])
    sanity(out[14] == out[15] and out[14].split()[0] == '1', 'psagg order')


def adapt_misc(rng):
    lines = []
    for _ in range(12):
        r = rng.bytes(32); s = rng.scalar(0.6); t = rng.scalar(0.6); par = rng.choice([0, 1, 0, 1, 2, -1, 255, 256])
        cl = ('s-ov' if s >= N else 's-ok') + ('-t-ov' if t >= N else '-t-ok') + ('-par%d' % par if par not in (0, 1) else '')
        lines.append(('musig_adapt - %s %s %d' % (hx(r) + h32(s), h32(t), par), ('adapt', cl)))
        s2 = rng.scalar(0.6)
        lines.append(('musig_extract_adaptor - %s %s %d' % (hx(r) + h32(s2), hx(rng.bytes(32)) + h32(s), par), ('extract', ('sig-ov' if s2 >= N else 'sig-ok') + ('-pre-ov' if s >= N else '-pre-ok') + ('-par%d' % par if par not in (0, 1) else ''))))
    p = hx(rng.bytes(64)); t = h32(rng.seckey())
    lines += [('musig_adapt o %s %s 0' % (p, t), ('adapt', 'null-out')), ('musig_adapt - _ %s 0' % t, ('adapt', 'null-presig')),
              ('musig_adapt - %s _ 1' % p, ('adapt', 'null-adaptor')),
              ('musig_extract_adaptor o %s %s 0' % (p, p), ('extract', 'null-out')), ('musig_extract_adaptor - _ %s 0' % p, ('extract', 'null-sig')),
              ('musig_extract_adaptor - %s _ 1' % p, ('extract', 'null-presig'))]
    yield lines


def parse_misc(rng, reps):
    lines = []
    good = [pmul(rng.seckey(), G) for _ in range(3)]
    xs_off = []
    while len(xs_off) < 3:
        x = rng.rand256() % P
        if lift_x(x) is None: xs_off.append(x)
    def enc(pf, x): return bytes([pf]) + (x % M256).to_bytes(32, 'big')
    halves = [('valid', ser33(good[0])), ('valid', ser33(good[1])), ('zeros', b'\0' * 33), ('x-ge-p', enc(2, P)), ('x-ge-p', enc(3, P + 1)),
              ('x-max', enc(2, M256 - 1)), ('off-curve', enc(2, xs_off[0])), ('off-curve', enc(3, xs_off[1])), ('x-zero-prefix2', enc(2, 0)),
              ('prefix0', enc(0, good[0][0])), ('prefix4', enc(4, good[0][0])), ('prefix5', enc(5, good[0][0])), ('prefix6', enc(6, good[0][0])),
              ('prefix-ff', enc(0xff, good[0][0])), ('zero-prefix-x', enc(0, 1)), ('x-p-minus-1', enc(2, P - 1)), ('x-1', enc(2, 1)), ('x-1-odd', enc(3, 1))]
    for c1, h1 in halves:
        for c2, h2 in halves[:3] + [rng.choice(halves[3:]) for _ in range(reps)]:
            b = (h1 + h2).hex()
            lines.append(('musig_pubnonce_parse ' + b, ('pubnonce_parse', c1 + '+' + c2)))
            lines.append(('musig_aggnonce_parse ' + b, ('aggnonce_parse', c1 + '+' + c2)))
            lines.append(('musig_nonce_agg - ' + b, ('nonceagg', 'single-' + c1 + '+' + c2)))
    v = ser66(good[0], good[1])
    for k in range(reps * 4):                              # single-bit flips of a valid encoding
        i = rng.randint(0, 66 * 8 - 1); b = bytearray(bytes.fromhex(v)); b[i // 8] ^= 1 << (i % 8)
        lines.append(('musig_pubnonce_parse ' + bytes(b).hex(), ('pubnonce_parse', 'bitflip')))
        lines.append(('musig_aggnonce_parse ' + bytes(b).hex(), ('aggnonce_parse', 'bitflip')))
    lines += [('musig_pubnonce_serialize ' + v, ('pubnonce_serialize', 'valid')), ('musig_pubnonce_serialize Z', ('pubnonce_serialize', 'zero-object')),
              ('musig_pubnonce_serialize _', ('pubnonce_serialize', 'null')), ('musig_aggnonce_serialize ' + v, ('aggnonce_serialize', 'valid')),
              ('musig_aggnonce_serialize Z', ('aggnonce_serialize', 'zero-object')), ('musig_aggnonce_serialize _', ('aggnonce_serialize', 'null')),
              ('musig_aggnonce_serialize ' + '00' * 66, ('aggnonce_serialize', 'inf-inf')),
              ('musig_aggnonce_serialize ' + '00' * 33 + v[66:], ('aggnonce_serialize', 'inf-valid')),
              ('musig_partial_sig_serialize Z', ('psig_serialize', 'zero-object')), ('musig_partial_sig_serialize _', ('psig_serialize', 'null'))]
    for s in EDGE_SCALARS[:20] + [rng.rand256() for _ in range(reps * 2)]:
        cl = 'ov' if s >= N else 'zero' if s == 0 else 'ok'
        lines.append(('musig_partial_sig_parse ' + h32(s), ('psig_parse', cl)))
        lines.append(('musig_partial_sig_serialize ' + h32(s), ('psig_serialize', cl)))
    yield lines


def generate(rng, tier, ctx):
    quick = tier == 'quick'
    coros = [bip_vectors()]
    # honest sessions
    nsess = 36 if quick else 260
    for k in range(nsess):
        u = rng.random()
        if quick: n = rng.choice([1, 2, 2, 3, 3, 4]) if u < 0.9 else rng.choice([5, 8, 16])
        else: n = rng.randint(1, 16) if u < 0.5 else rng.choice([1, 2, 3, 4])
        kind = KEYSETS[k % len(KEYSETS)]
        ntw = [0, 1, 2, 3, 6, rng.randint(0, 6)][k % 6]
        mode = ['gen', 'counter', 'mixed', 'inf1', 'inf2', 'inf12', 'gen'][k % 7]
        coros.append(session(rng, n, kind, ntw, adaptor=(k % 3 == 1), nonce_mode=mode))
    if quick: coros.append(session(rng, 16, 'first_repeated', 6, True, 'mixed'))
    else:
        for kind in KEYSETS: coros.append(session(rng, 16, kind, 6, True, 'mixed'))
    m = 1 if quick else 6
    for n in list(range(0, 17)) * m + [1, 2, 3, 2, 3, 4] * (3 * m): coros.append(keyagg_misc(rng, n))
    for _ in range(6 * m): coros.append(tweak_misc(rng))
    for _ in range(2 * m): coros.append(noncegen_misc(rng))
    for n in ([0, 1, 2, 2, 3, 3, 4, 5, 8, 16] + [2, 3] * 6) * m: coros.append(nonceagg_misc(rng, n))
    for _ in range(2 * m): coros.append(process_misc(rng))
    for _ in range(3 * m): coros.append(sign_misc(rng))
    for _ in range(3 * m): coros.append(adapt_misc(rng))
    coros.append(parse_misc(rng, 2 if quick else 12))
    return drive(ctx, coros)
