"""C17: Schnorr half-aggregation (aggregate / inc_aggregate / aggverify).

Valid BIP-340 signatures come from the existing `schnorr_sign` op run on the model; aggregates used
as inputs of later ops (incremental chains, verification, mutations) come from the model as well."""
from .common import *


def xonly(p):
    return p if p[1] % 2 == 0 else pneg(p)

def flip(b, bit):
    b = bytearray(b); b[bit // 8] ^= 1 << (bit % 8); return bytes(b)

class Pool:
    """signers with messages and valid signatures"""
    def __init__(self, rng, ctx, n):
        self.sk = [rng.seckey() for _ in range(n)]
        self.pk = [pmul(k, G) for k in self.sk]
        self.xo = [xonly(p) for p in self.pk]
        self.msg = [rng.bytes(32) if rng.random() < 0.9 else rng.choice([b'\0' * 32, b'\xff' * 32]) for _ in range(n)]
        lines = ['schnorr_sign %s %s %s _ %s' % (hx(m), h32(k), pt(p), opt(rng.bytes(32) if rng.random() < 0.5 else None))
                 for m, k, p in zip(self.msg, self.sk, self.pk)]
        outs = ctx.model(lines)
        self.sig = []
        for o in outs:
            t = o.split(' ')
            assert t[0] == '1' and t[3] == '1', o
            self.sig.append(bytes.fromhex(t[1]))
    def sel(self, idxs):
        return [(self.xo[i], self.msg[i], self.sig[i]) for i in idxs]

def agg_line(buflen, trip):
    return ' '.join(['ha_aggregate', str(buflen), '/'] + ['%s %s %s' % (pt(p), hx(m), hx(s)) for p, m, s in trip])

def inc_line(buflen, n_before, agg_in, pairs, newsigs):
    return ' '.join(['ha_inc_aggregate', str(buflen), str(n_before), hx(agg_in), '/'] + ['%s %s' % (pt(p), hx(m)) for p, m in pairs] + ['/'] +
                    [hx(s) for s in newsigs])

def ver_line(agg, pairs):
    return ' '.join(['ha_aggverify', '_' if agg is None else hx(agg), '/'] + ['%s %s' % (pt(p), hx(m)) for p, m in pairs])

def pairs_of(trip): return [(p, m) for p, m, _ in trip]

def model_agg(ctx, lines):
    """run aggregate / inc_aggregate lines on the model, return the aggregates (first `len` bytes of the buffer)"""
    res = []
    for o in ctx.model(lines):
        t = o.split(' ')
        assert t[0] == '1', o[:100]
        res.append(bytes.fromhex(t[1])[:int(t[2])] if t[1] != '-' else b'')
    return res

def z_of(trip, i):
    """randomizer z_i of the specification (z_0 = 1)"""
    if i == 0: return 1
    b = b''.join(s[:32] + p[0].to_bytes(32, 'big') + m for p, m, s in trip[:i + 1])
    return int.from_bytes(tagged(b'HalfAgg/randomizer', b), 'big') % N

def no_lift(rng):
    while True:
        x = rng.rand256() % P
        if lift_x(x) is None: return x


def run_tasks(ctx, tasks):
    """Tasks are Python generators that `yield` a list of aggregate / inc_aggregate lines and are sent the
    resulting aggregates; all tasks advance in lock step so that each round is ONE batch for the model."""
    live = []
    for t in tasks:
        try: live.append((t, next(t)))
        except StopIteration: pass
    while live:
        res = model_agg(ctx, [l for _, r in live for l in r])
        nxt = []; k = 0
        for t, r in live:
            part = res[k:k + len(r)]; k += len(r)
            try: nxt.append((t, t.send(part)))
            except StopIteration: pass
        live = nxt


def generate(rng, tier, ctx):
    cases = []
    quick = tier == 'quick'
    A = lambda line, cls: cases.append((line, ('ha_aggregate', cls)))
    Ic = lambda line, cls: cases.append((line, ('ha_inc_aggregate', cls)))
    V = lambda line, cls: cases.append((line, ('ha_aggverify', cls)))
    pool = Pool(rng, ctx, 64)
    sizes = (list(range(0, 9)) + [16, 33, 64]) if quick else list(range(0, 65))

    # ---------------------------------------------------------------- one-shot aggregation + verification
    sets = {}
    for n in sizes:
        idxs = rng.sample(range(64), n) if n < 64 else list(range(64))
        sets[n] = pool.sel(idxs)
        A(agg_line(32 * (n + 1), sets[n]), 'exact-buffer')
    aggs = dict(zip(sizes, model_agg(ctx, [agg_line(32 * (n + 1), sets[n]) for n in sizes])))
    for n in sizes:
        assert len(aggs[n]) == 32 * (n + 1)
        V(ver_line(aggs[n], pairs_of(sets[n])), 'honest')
    # buffers 0 .. 32(n+2): every length for small n, boundaries for the others
    for n in sizes:
        if n <= (2 if quick else 6): lens = range(0, 32 * (n + 2) + 1)
        else: lens = sorted({0, 1, 31, 32, 32 * n, 32 * n + 31, 32 * (n + 1) - 1, 32 * (n + 1) + 1, 32 * (n + 1) + 31, 32 * (n + 2), rng.randint(0, 32 * (n + 2))})
        for L in lens:
            A(agg_line(L, sets[n]), 'buf-zero' if L == 0 else 'buf-short' if L < 32 * (n + 1) else 'buf-exact' if L == 32 * (n + 1) else 'buf-long')
    # aggverify with an aggregate of every wrong length around 32(n+1) (truncated / zero- or garbage-extended)
    for n in [x for x in sizes if x <= 8]:
        good = aggs[n]
        for d in [-33, -32, -17, -16, -1, 1, 8, 15, 16, 17, 24, 31, 32, 33, 48, 64]:
            L = len(good) + d
            if L < 0: continue
            bad = good[:L] if d < 0 else good + (rng.bytes(d) if rng.random() < 0.5 else bytes(d))
            V(ver_line(bad, pairs_of(sets[n])), 'len%+d' % d)
    # aggregation does not validate its inputs
    tasks = []
    def t_unvalidated(rep):
        n = rng.randint(1, 5); tr = pool.sel(rng.sample(range(64), n)); j = rng.randint(0, n - 1)
        kind = ['s-ge-N', 'garbage', 'r-ge-P'][rep % 3]
        p, m, s = tr[j]
        s2 = {'s-ge-N': s[:32] + rng.choice([N, N + 1, M256 - 1]).to_bytes(32, 'big'), 'garbage': rng.bytes(64),
              'r-ge-P': rng.choice([P, P + 1, M256 - 1]).to_bytes(32, 'big') + s[32:]}[kind]
        tr[j] = (p, m, s2)
        A(agg_line(32 * (n + 1), tr), 'sig-' + kind)
        bad = (yield [agg_line(32 * (n + 1), tr)])[0]
        V(ver_line(bad, pairs_of(tr)), 'aggregate-of-sig-' + kind)
    tasks += [t_unvalidated(rep) for rep in range(6)]
    for n, j in ((1, 0), (3, 1), (3, 2)):
        tr = pool.sel(rng.sample(range(64), n)); tr[j] = (None, tr[j][1], tr[j][2])
        A(agg_line(32 * (n + 1), tr), 'pk-zero-object')
        A(agg_line(0, tr), 'pk-zero-object-buf0')

    # ---------------------------------------------------------------- incremental aggregation
    def chain(trip, cuts, cls, emit=True):
        """(task fragment) aggregate trip[:cuts[0]] one-shot, then extend at every further cut; buffers exact. Returns final bytes."""
        n = len(trip)
        bounds = list(cuts) + [n]
        first = agg_line(32 * (bounds[0] + 1), trip[:bounds[0]])
        cur = (yield [first])[0]
        if emit: A(first, 'chain-start')
        for a, b in zip(bounds, bounds[1:]):
            line = inc_line(32 * (b + 1), a, cur, pairs_of(trip[:b]), [s for _, _, s in trip[a:b]])
            if emit: Ic(line, cls)
            cur = (yield [line])[0]
        return cur
    def t_split(tr, cuts, cls, verify=False):
        one = (yield [agg_line(32 * (len(tr) + 1), tr)])[0]
        got = yield from chain(tr, cuts, cls)
        assert got == one, 'model: incremental != one-shot'
        if verify: V(ver_line(got, pairs_of(tr)), 'honest-incremental')
    for n in range(0, (7 if quick else 13)):
        tr = sets[n] if n in sets else pool.sel(rng.sample(range(64), n))
        for n1 in range(0, n + 1): tasks.append(t_split(tr, [n1], 'split2'))
    for rep in range(12 if quick else 60):
        n = rng.choice([3, 4, 5, 8, 16, 33] if quick else list(range(3, 65)))
        tr = pool.sel(rng.sample(range(64), n))
        c1 = rng.randint(0, n); c2 = rng.randint(c1, n)
        cuts = [c1, c2] + ([rng.randint(c2, n)] if rng.random() < 0.3 else [])
        tasks.append(t_split(tr, cuts, 'split%d' % (len(cuts) + 1), rep % 4 == 0))
    # one signature at a time up to 64
    tasks.append(t_split(sets[64], list(range(0, 64)) if not quick else [0, 1, 2, 3, 10, 16, 30, 32, 48, 50, 51, 56, 63], 'one-by-one'))
    # buffer-length contract and argument checks of inc_aggregate
    def t_contract(rep):
        n = rng.randint(1, 6); n1 = rng.randint(0, n); tr = pool.sel(rng.sample(range(64), n))
        a1, afull = yield [agg_line(32 * (n1 + 1), tr[:n1]), agg_line(32 * (n + 1), tr)]
        new = [s for _, _, s in tr[n1:]]
        for L in sorted({0, 31, 32, 32 * (n1 + 1), 32 * n + 31, 32 * (n + 1) - 1, 32 * (n + 1), 32 * (n + 1) + 1, 32 * (n + 2), rng.randint(0, 32 * (n + 2))}):
            Ic(inc_line(L, n1, a1, pairs_of(tr), new), 'buf-zero' if L == 0 else 'buf-short' if L < 32 * (n + 1) else 'buf-exact' if L == 32 * (n + 1) else 'buf-long')
        Ic(inc_line(32 * (n + 1), n1, a1[:rng.randint(0, len(a1) - 1)], pairs_of(tr), new), 'aggsig-in-truncated')
        if n1:
            Ic(inc_line(32 * (n + 1), n1, a1[:-32] + rng.choice([N, N + 1, M256 - 1]).to_bytes(32, 'big'), pairs_of(tr), new), 'old-s-ge-N')
            Ic(inc_line(32 * (n + 1), n1, flip(a1, rng.randint(0, 8 * len(a1) - 1)), pairs_of(tr), new), 'aggsig-in-flipped')
            pr = pairs_of(tr); j = rng.randint(0, n1 - 1); pr[j] = (None, pr[j][1])
            Ic(inc_line(32 * (n + 1), n1, a1, pr, new), 'old-pk-zero-object')
        if n1 < n:
            pr = pairs_of(tr); j = rng.randint(n1, n - 1); pr[j] = (None, pr[j][1])
            Ic(inc_line(32 * (n + 1), n1, a1, pr, new), 'new-pk-zero-object')
            Ic(inc_line(32 * (n + 1), n1, a1, [], new), 'no-pairs-null-pointers')
            Ic(inc_line(32 * (n + 2), n1 + 1, a1, pairs_of(tr) + [pairs_of(tr)[0]], new), 'n-before-off-by-one')
        Ic(inc_line(32 * (n + 1), n, afull, pairs_of(tr), []), 'no-new-sigs')
        Ic(inc_line(32 * (n + 2), n, afull, pairs_of(tr) + [pairs_of(tr)[0]], []), 'no-new-sigs-extra-pair')
    tasks += [t_contract(rep) for rep in range(8 if quick else 30)]
    tr = pool.sel([1, 2])
    big = (1 << 64) - 1
    Ic(inc_line(96, big, b'\0' * 96, pairs_of(tr), [tr[0][2]]), 'n-overflow')
    Ic(inc_line(96, big, b'\0' * 96, pairs_of(tr), [tr[0][2], tr[1][2]]), 'n-overflow')
    Ic(inc_line(96, big, b'\0' * 96, pairs_of(tr), []), 'n-before-sizemax')
    Ic(inc_line(96, big, b'\0' * 96, [], []), 'n-before-sizemax-null')
    Ic(inc_line(96, 1 << 63, b'\0' * 96, pairs_of(tr), [tr[0][2]]), 'n-before-huge')
    Ic(inc_line(32, 0, b'', [], []), 'nothing')
    Ic(inc_line(0, 0, b'', [], []), 'nothing-buf0')

    # ---------------------------------------------------------------- verification: mutations
    vsizes = [1, 2, 3, 5, 8] if quick else [1, 2, 3, 4, 5, 8, 13, 21, 33, 64]
    def t_mutate(n):
        tr = sets[n]; agg = aggs[n]; pr = pairs_of(tr)
        reps = 2 if quick else 4
        for _ in range(reps):
            j = rng.randint(0, n - 1)
            V(ver_line(flip(agg, 256 * j + rng.randint(0, 255)), pr), 'flip-r')
            V(ver_line(flip(agg, 256 * n + rng.randint(0, 255)), pr), 'flip-s')
            p2 = list(pr); p2[j] = (p2[j][0], flip(p2[j][1], rng.randint(0, 255))); V(ver_line(agg, p2), 'flip-msg')
            p2 = list(pr); q = pmul(rng.seckey(), G); p2[j] = (xonly(q), p2[j][1]); V(ver_line(agg, p2), 'pk-replaced')
            for v in (P, P + 1, M256 - 1, P + rng.randint(0, M256 - P - 1)):
                V(ver_line(agg[:32 * j] + v.to_bytes(32, 'big') + agg[32 * (j + 1):], pr), 'r-ge-P')
            V(ver_line(agg[:32 * j] + no_lift(rng).to_bytes(32, 'big') + agg[32 * (j + 1):], pr), 'r-off-curve')
            V(ver_line(agg[:32 * j] + pmul(rng.seckey(), G)[0].to_bytes(32, 'big') + agg[32 * (j + 1):], pr), 'r-other-point')
            V(ver_line(agg[:32 * j] + b'\0' * 32 + agg[32 * (j + 1):], pr), 'r-zero')
        for v in (N, N + 1, M256 - 1, 0, 1):
            V(ver_line(agg[:-32] + v.to_bytes(32, 'big'), pr), 's-ge-N' if v >= N else 's-replaced')
        sv = int.from_bytes(agg[-32:], 'big')
        V(ver_line(agg[:-32] + ((N - sv) % N).to_bytes(32, 'big'), pr), 's-negated')
        # odd-y key object in place of the x-only object; all-zero key object; NULL aggregate
        j = rng.randint(0, n - 1)
        p2 = list(pr); p2[j] = (pneg(p2[j][0]), p2[j][1]); V(ver_line(agg, p2), 'pk-odd-y-object')
        p2 = list(pr); p2[j] = (None, p2[j][1]); V(ver_line(agg, p2), 'pk-zero-object')
        V(ver_line(agg[:-32] + N.to_bytes(32, 'big'), p2), 'pk-zero-object-and-s-ge-N')
        V(ver_line(None, pr), 'aggsig-null')
        # wrong lengths
        for L in sorted({0, 1, 31, 32, 33, 32 * n, 32 * n + 31, 32 * (n + 1) - 1, 32 * (n + 1) + 1, 32 * (n + 1) + 31, 32 * (n + 2)}):
            if L == 32 * (n + 1): continue
            V(ver_line((agg + rng.bytes(64))[:L], pr), 'len-not-multiple' if L % 32 else 'len-n-minus-1' if L == 32 * n else 'len-n-plus-1' if L == 32 * (n + 2) else 'len-other')
        V(ver_line(agg[:32 * (n - 1)] + agg[-32:], pr), 'one-r-removed')
        V(ver_line(agg, pr[:-1]), 'one-pair-removed')
        V(ver_line(agg, pr + [pr[0]]), 'one-pair-added')
        if n >= 2:
            i, j = rng.sample(range(n), 2)
            p2 = list(pr); p2[i], p2[j] = p2[j], p2[i]; V(ver_line(agg, p2), 'reorder-pairs')
            p2 = list(pr); p2[i], p2[j] = (pr[j][0], pr[i][1]), (pr[i][0], pr[j][1]); V(ver_line(agg, p2), 'reorder-keys-only')
            p2 = list(pr); p2[i], p2[j] = (pr[i][0], pr[j][1]), (pr[j][0], pr[i][1]); V(ver_line(agg, p2), 'reorder-msgs-only')
            a2 = bytearray(agg); a2[32 * i:32 * i + 32], a2[32 * j:32 * j + 32] = agg[32 * j:32 * j + 32], agg[32 * i:32 * i + 32]
            V(ver_line(bytes(a2), pr), 'reorder-r')
            t2 = list(tr); t2[i], t2[j] = t2[j], t2[i]
            are = (yield [agg_line(32 * (n + 1), t2)])[0]
            V(ver_line(are, pairs_of(t2)), 'reordered-consistently')
            V(ver_line(are, pr), 'aggregate-of-reordered-sigs')
        # a single signature altered before aggregation
        j = rng.randint(0, n - 1); t2 = list(tr); p, m, s = t2[j]
        t2[j] = (p, m, flip(s, 256 + rng.randint(0, 255)))
        t3 = list(tr); t3[j] = (p, m, s[:32] + ((N - int.from_bytes(s[32:], 'big')) % N).to_bytes(32, 'big'))
        t4 = tr + [tr[0]]       # duplicate entry
        a2, a3, a4 = yield [agg_line(32 * (n + 1), t2), agg_line(32 * (n + 1), t3), agg_line(32 * (n + 2), t4)]
        V(ver_line(a2, pr), 'one-sig-altered-s')
        V(ver_line(a3, pr), 'one-sig-negated-s')
        V(ver_line(a4, pairs_of(t4)), 'duplicate-entry')
        # two invalid signatures whose errors cancel in the aggregate: s_i + d, s_j - d * z_i / z_j
        if n >= 2:
            i, j = sorted(rng.sample(range(n), 2)); d = rng.seckey()
            zi, zj = z_of(tr, i), z_of(tr, j)
            t2 = list(tr)
            si = (int.from_bytes(tr[i][2][32:], 'big') + d) % N
            sj = (int.from_bytes(tr[j][2][32:], 'big') - d * zi * inv(zj, N)) % N
            t2[i] = (tr[i][0], tr[i][1], tr[i][2][:32] + si.to_bytes(32, 'big'))
            t2[j] = (tr[j][0], tr[j][1], tr[j][2][:32] + sj.to_bytes(32, 'big'))
            a2 = (yield [agg_line(32 * (n + 1), t2)])[0]
            assert a2 == agg
            cases.append(('schnorr_verify %s %s %s' % (hx(t2[i][2]), hx(t2[i][1]), pt(t2[i][0])), ('schnorr_verify', 'component-of-cancelling-pair')))
            A(agg_line(32 * (n + 1), t2), 'cancelling-invalid-sigs')
            V(ver_line(a2, pr), 'cancelling-invalid-sigs')
    tasks += [t_mutate(n) for n in vsizes]
    run_tasks(ctx, tasks)
    # the empty aggregate: s = 0 is the only accepted value; s = N is its non-canonical re-encoding
    V(ver_line(b'\0' * 32, []), 'empty-s-zero')
    V(ver_line(N.to_bytes(32, 'big'), []), 's-eq-N')
    for v in (1, N - 1, N + 1, M256 - 1, P): V(ver_line(v.to_bytes(32, 'big'), []), 'empty-s-nonzero')
    for L in (0, 1, 31, 33, 63, 64): V(ver_line(b'\0' * L, []), 'empty-wrong-length')
    V(ver_line(None, []), 'aggsig-null')
    # a valid aggregate checked against the empty list / the empty aggregate against a pair
    V(ver_line(aggs[1], []), 'one-pair-removed'); V(ver_line(b'\0' * 32, pairs_of(sets[1])), 'one-pair-added')
    return cases
