"""C04: key-derivation algebra: secret/public operations commute, failure cases, comparison and sorting."""
from .common import *

TW = [0, 1, 2, N - 1, N, N + 1, M256 - 1, (1 << 128) - 1, 1 << 128, LAMBDA, N - LAMBDA]

def generate(rng, tier, ctx):
    cases = []
    n = {'quick': 1, 'thorough': 6}[tier]
    keys = [0, 1, 2, N - 1, N, N + 1, M256 - 1] + [rng.seckey() for _ in range(6 * n)]
    for d in keys:
        cases.append(('seckey_verify ' + h32(d), ('seckey_verify', 'inv' if d == 0 or d >= N else 'ok')))
        cases.append(('pubkey_create ' + h32(d), ('pubkey_create', 'inv' if d == 0 or d >= N else 'ok')))
        cases.append(('seckey_negate ' + h32(d), ('seckey_negate', 'inv' if d == 0 or d >= N else 'ok')))
        cases.append(('keypair_create ' + h32(d), ('keypair_create', 'inv' if d == 0 or d >= N else 'ok')))
        for t in TW + [(N - d) % N, (-d) % M256, d, rng.rand256()]:
            cls = 'tov' if t >= N else 't0' if t == 0 else 'cancel' if (d + t) % N == 0 else 'ok'
            cases.append(('seckey_tweak_add %s %s' % (h32(d), h32(t)), ('seckey_tweak_add', cls)))
            cases.append(('seckey_tweak_mul %s %s' % (h32(d), h32(t)), ('seckey_tweak_mul', cls)))
            if 0 < d < N:
                Q = pmul(d, G)
                cases.append(('pubkey_tweak_add %s %s' % (pt(Q), h32(t)), ('pubkey_tweak_add', cls)))
                cases.append(('pubkey_tweak_mul %s %s' % (pt(Q), h32(t)), ('pubkey_tweak_mul', cls)))
                X = lift_x(Q[0], 0)
                cases.append(('xonly_tweak_add %s %s' % (pt(X), h32(t)), ('xonly_tweak_add', cls)))
                cases.append(('keypair_xonly_tweak_add %s %s %s' % (h32(d), pt(Q), h32(t)), ('keypair_tweak', cls + ('-odd' if Q[1] & 1 else '-even'))))
                # tweak check: right and wrong (x, parity)
                dd = d if Q[1] % 2 == 0 else N - d
                if t < N and (dd + t) % N:
                    T = pmul(dd + t, G)
                    for par in (0, 1):
                        cases.append(('xonly_tweak_add_check %s %d %s %s' % (h32(T[0]), par, pt(X), h32(t)), ('tweak_check', 'right' if par == (T[1] & 1) else 'wrong-parity')))
                    cases.append(('xonly_tweak_add_check %s %d %s %s' % (h32(T[0] ^ 1), T[1] & 1, pt(X), h32(t)), ('tweak_check', 'wrong-x')))
    # tweak check against a NON-CANONICAL 32-byte string: the tweaked key is crafted to have a small abscissa x (internal key =
    # lift_x(x) - t*G), so that x + p still fits in 32 bytes; only the canonical serialization x may be accepted
    for x0 in [x for x in range(1, 40) if lift_x(x, 0) is not None][:4 * n]:
        for _ in range(3):
            t = rng.seckey(); T = lift_x(x0, rng.randint(0, 1)); Q = padd(T, pneg(pmul(t, G)))
            if Q is None or Q[1] & 1: continue
            cases.append(('xonly_tweak_add_check %s %d %s %s' % (h32(x0), T[1] & 1, pt(Q), h32(t)), ('tweak_check', 'small-x-right')))
            cases.append(('xonly_tweak_add_check %s %d %s %s' % (h32(x0 + P), T[1] & 1, pt(Q), h32(t)), ('tweak_check', 'small-x-plus-p')))
            break
    for cmd in ['pubkey_negate Z', 'pubkey_tweak_add Z ' + h32(1), 'pubkey_tweak_mul Z ' + h32(2), 'pubkey_tweak_mul Z ' + h32(N), 'xonly_from_pubkey Z',
                'xonly_tweak_add Z ' + h32(1), 'xonly_tweak_add_check %s 0 Z %s' % (h32(1), h32(1)), 'keypair_xonly_pub %s Z' % h32(1),
                'keypair_xonly_tweak_add %s Z %s' % (h32(1), h32(1)), 'keypair_xonly_tweak_add %s %s %s' % (h32(0), pt(G), h32(1))]:
        cases.append((cmd, ('zero-object', cmd.split()[0])))
    for _ in range(10 * n):
        Q = rng.point()
        cases.append(('pubkey_negate ' + pt(Q), ('pubkey_negate', 'ok')))
        cases.append(('xonly_from_pubkey ' + pt(Q), ('xonly_from_pubkey', 'odd' if Q[1] & 1 else 'even')))
        d = rng.seckey(); cases.append(('keypair_xonly_pub %s %s' % (h32(d), pt(pmul(d, G))), ('keypair_xonly_pub', 'ok')))
    # combine: lists of any length with cancelling pairs at every position
    for L in [1, 2, 3, 5, 8, 17] + ([50, 200] if tier == 'thorough' else []):
        for mode in ['random', 'cancel-end', 'cancel-mid', 'dup']:
            ps = [rng.point() for _ in range(L)]
            if mode == 'cancel-end' and L >= 2:
                acc = None
                for q in ps[:-1]: acc = padd(acc, q)
                if acc is None: continue
                ps[-1] = pneg(acc)
            if mode == 'cancel-mid' and L >= 3: ps[1] = pneg(ps[0])
            if mode == 'dup' and L >= 2: ps[1] = ps[0]
            cases.append(('pubkey_combine ' + ' '.join(map(pt, ps)), ('combine', '%s-%d' % (mode, L))))
    cases.append(('pubkey_combine', ('combine', 'empty')))
    # comparison
    for _ in range(30 * n):
        a = rng.point(); b = rng.choice([rng.point(), a, pneg(a), None])
        cases.append(('pubkey_cmp %s %s' % (pt(a), pt(b)), ('cmp', 'zero' if b is None else 'eq' if a == b else 'neg' if b == pneg(a) else 'gen')))
        cases.append(('xonly_cmp %s %s' % (pt(lift_x(a[0], 0)), pt(None if b is None else lift_x(b[0], 0))), ('xonly_cmp', 'zero' if b is None else 'gen')))
    cases.append(('pubkey_cmp Z Z', ('cmp', 'both-zero')))
    # sort
    for L in [0, 1, 2, 3, 5, 16, 39, 40, 41, 42, 64, 100] + ([150, 200] if tier == 'thorough' else []):
        base = [rng.point() for _ in range(max(1, L // 3 + 1))]
        ps = [rng.choice(base) if rng.random() < 0.5 else rng.point() for _ in range(L)]
        cases.append(('pubkey_sort ' + ' '.join(map(pt, ps)), ('sort', 'n%d' % L)))
    # chains: mixed sequences of operations applied on secret and public side (harness applies both and compares)
    for _ in range(20 * n):
        d = rng.seckey(); ops = []
        for _ in range(rng.randint(1, 12)):
            o = rng.choice(['a', 'm', 'n', 'x'])
            if o in 'am': ops.append(o + h32(rng.choice([1, 2, N - 1, rng.seckey(), rng.seckey(), rng.seckey()])))
            elif o == 'x': ops.append('x' + h32(rng.seckey()))
            else: ops.append('n')
        cases.append(('key_chain %s %s' % (h32(d), ' '.join(ops)), ('chain', 'len%d' % len(ops))))
    return cases
