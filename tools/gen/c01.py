"""C01: ECDSA sign / verify / recover."""
from .common import *

KEYS = [0, 1, 2, N - 2, N - 1, N, N + 1, (N - 1) // 2, (N + 1) // 2, M256 - 1]
MSGS = [0, 1, N - 1, N, N + 1, M256 - 1, P, P - N]

def ecdsa_sign_py(d, m, k):
    R = pmul(k, G); r = R[0] % N
    s = pow(k, -1, N) * (m + r * d) % N
    return r, s, R

def sig(r, s): return h32(r) + h32(s)

def generate(rng, tier, ctx):
    cases = []
    n = {'quick': 1, 'thorough': 8}[tier]
    # --- signing: key classes x msg classes x nonce functions
    for d in KEYS + [rng.seckey() for _ in range(6 * n)]:
        for m in (MSGS if tier == 'thorough' else rng.sample(MSGS, 3)) + [rng.rand256()]:
            nd = rng.choice(['_', hx(rng.bytes(32))])
            nf = rng.choice(['_', '_', 'd'])
            kc = 'inv' if d == 0 or d >= N else 'ok'
            cases.append(('ecdsa_sign %s %s %s %s' % (h32(m), h32(d), nf, nd), ('sign', kc + ('-m>=n' if m >= N else '') + ('-nd' if nd != '_' else ''))))
            cases.append(('ecdsa_sign_rec %s %s %s %s' % (h32(m), h32(d), nf, nd), ('sign_rec', kc + ('-m>=n' if m >= N else ''))))
    # custom nonce functions: constant / counter dependent / failing
    for _ in range(12 * n):
        d = rng.seckey(); m = rng.rand256()
        for nf, cls in [('c' + h32(0), 'retry0'), ('c' + h32(N - 1), 'kN-1'), ('c' + h32(M256 - 1), 'wrap'), ('c' + h32(rng.seckey()), 'const'),
                        ('f0:' + h32(5), 'fail0'), ('f1:' + h32(0), 'fail-after-retry'), ('f2:' + h32(N), 'retry-then-ok')]:
            cases.append(('ecdsa_sign %s %s %s _' % (h32(m), h32(d), nf), ('sign_custom', cls)))
            cases.append(('ecdsa_sign_rec %s %s %s _' % (h32(m), h32(d), nf), ('sign_rec_custom', cls)))
    cases.append(('ecdsa_sign %s %s %s _' % (h32(1), h32(0), 'c' + h32(7)), ('sign_custom', 'invkey-const')))
    # an attempt that computes r but ends with s == 0 (message crafted as m = -r*d), followed by a failing nonce callback:
    # the call returns 0 and must leave an all-zero signature (and recid)
    for _ in range(6 * n):
        d = rng.seckey(); k = rng.seckey(); R = pmul(k, G); r = R[0] % N
        m = (-r * d) % N
        for mm in [m] + ([m + N] if m + N < M256 else []):
            cases.append(('ecdsa_sign %s %s f1:%s _' % (h32(mm), h32(d), h32(k)), ('sign_custom', 's-zero-then-fail')))
            cases.append(('ecdsa_sign_rec %s %s f1:%s _' % (h32(mm), h32(d), h32(k)), ('sign_rec_custom', 's-zero-then-fail')))
            cases.append(('ecdsa_sign %s %s f2:%s _' % (h32(mm), h32(d), h32(k)), ('sign_custom', 's-zero-then-ok')))
    # --- verification: honest, s -> n-s, boundary r/s, wrong key/msg, zero pubkey
    for _ in range(40 * n):
        d = rng.seckey(); m = rng.choice(MSGS + [rng.rand256()] * 3); k = rng.seckey()
        r, s, R = ecdsa_sign_py(d, m % N, k)
        if r == 0 or s == 0: continue
        Q = pmul(d, G); lo = min(s, N - s); hi = N - lo
        muts = [('honest-low', r, lo, m, Q), ('high-s', r, hi, m, Q), ('wrong-msg', r, lo, m ^ 1, Q), ('wrong-key', r, lo, m, pmul((d % (N - 2)) + 2, G)),
                ('neg-key', r, lo, m, pneg(Q)), ('r+1', (r + 1) % N, lo, m, Q), ('s+1', r, (lo + 1) % N, m, Q), ('r0', 0, lo, m, Q), ('s0', r, 0, m, Q),
                ('zero-pk', r, lo, m, None), ('zero-pk-high', r, hi, m, None), ('msg+n', r, lo, (m % N) + N if (m % N) + N < M256 else m, Q)]
        for cls, rr, ss, mm, QQ in muts:
            cases.append(('ecdsa_verify %s %s %s' % (sig(rr, ss), h32(mm), pt(QQ)), ('verify', cls)))
    # boundary scalars in r, s with arbitrary keys
    B = [0, 1, N - 1, (N - 1) // 2, (N + 1) // 2, P - N - 1, P - N, P - N + 1]
    Q = pmul(rng.seckey(), G)
    for r in B:
        for s in B:
            cases.append(('ecdsa_verify %s %s %s' % (sig(r, s), h32(rng.rand256()), pt(Q)), ('verify', 'boundary')))
    # signature that verifies with r,s = boundary-ish: choose s = (n-1)/2 exactly: pick k, m s.t. s fixed -> solve m
    for starget in [(N - 1) // 2, (N + 1) // 2, 1, N - 1]:
        d = rng.seckey(); k = rng.seckey(); R = pmul(k, G); r = R[0] % N
        m = (starget * k - r * d) % N
        cases.append(('ecdsa_verify %s %s %s' % (sig(r, starget), h32(m), pt(pmul(d, G))), ('verify', 'crafted-s-%s' % ('half' if starget == (N - 1) // 2 else 'half+1' if starget == (N + 1) // 2 else 'edge'))))
    # x(R) >= n wrap-around: R with x in [n, p) gives r = x - n (must ACCEPT through the second comparison);
    # r = x + (p - n) for a small x must be REJECTED (r + n = x + p is not < p). Public key crafted: Q = r^-1 (s R - m G)
    def crafted(x, r, cls):
        R = lift_x(x, rng.randint(0, 1))
        if R is None or not (0 < r < N): return
        s_ = rng.seckey(); s_ = min(s_, N - s_); m_ = rng.rand256()
        Q = pmul(pow(r, -1, N), padd(pmul(s_, R), pneg(pmul(m_ % N, G))))
        if Q is None: return
        cases.append(('ecdsa_verify %s %s %s' % (sig(r, s_), h32(m_), pt(Q)), ('verify', cls)))
    for off in range(0, 60):
        crafted(N + off, off, 'x>=n-wrap-accept')
    for x in list(range(1, 40)) + [rng.randint(1, 1 << 120) for _ in range(20)]:
        crafted(x, x + (P - N), 'r=x+p-n-reject')
        crafted(x, x, 'small-x-accept')
    for t in [1 << 208, 3 << 208, (1 << 255) % N, 0x7fff << 208]:
        for x in range(1, 12): crafted(x, (t + x) % N, 'top-limb-r-reject')
    # normalize
    for s in B + [rng.seckey() for _ in range(6)]:
        cases.append(('sig_normalize %s' % sig(rng.seckey(), s % N), ('normalize', 'high' if s % N > (N - 1) // 2 else 'low')))
    # --- recovery: every recid, incl. recid&2
    for _ in range(20 * n):
        d = rng.seckey(); m = rng.rand256(); k = rng.seckey()
        r, s, R = ecdsa_sign_py(d, m % N, k)
        if r == 0 or s == 0: continue
        for recid in range(4):
            cases.append(('ecdsa_recover %s %d %s' % (sig(r, s), recid, h32(m)), ('recover', 'recid%d' % recid)))
    for r in [1, 2, 3, P - N - 1, P - N, N - 1, 5, 6, 7]:
        for recid in range(4):
            cases.append(('ecdsa_recover %s %d %s' % (sig(r, rng.seckey()), recid, h32(rng.rand256())), ('recover', 'small-r-recid%d' % recid)))
    cases.append(('ecdsa_recover %s 0 %s' % (sig(0, 1), h32(1)), ('recover', 'r0')))
    cases.append(('ecdsa_recover %s 0 %s' % (sig(1, 0), h32(1)), ('recover', 's0')))
    for recid in [-1, 0, 3, 4, 255]:
        cases.append(('rec_parse_compact %s %d' % (sig(rng.scalar(0.7), rng.scalar(0.7)), recid), ('rec_parse', 'recid%d' % recid)))
    return cases
