"""C01 / C04 (translation validation, mode P, set `api`): public API functions as regenerated AlgIR, run against the real
functions on the cases of the C01 and C04 generators."""
from . import c01, c04
MAP = {'ecdsa_verify': 'ecdsa_verify', 'sig_normalize': 'ecdsa_signature_normalize', 'pubkey_create': 'ec_pubkey_create',
       'seckey_verify': 'ec_seckey_verify', 'xonly_tweak_add': 'xonly_pubkey_tweak_add'}

def generate(rng, tier, ctx):
    out = []
    for mod in (c01, c04):
        for c in mod.generate(rng, tier, ctx):
            op, _, rest = c[0].partition(' ')
            if op in MAP: out.append(('p_run Papi.%s %s' % (MAP[op], rest), ('p_run', 'api.' + op + '.' + str(c[1][1]))))
    return out
