"""C06: translation validation of the constant-time primitives' IR (k_run on ct.* functions); the valgrind runs are
driven by tools/check.py (run_ct_valgrind)."""
from . import c05k

def generate(rng, tier, ctx):
    return [(l, t) for l, t in c05k.generate(rng, tier, ctx) if l.startswith('k_run ct.')]
