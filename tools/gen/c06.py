"""C06: translation validation of the constant-time primitives' IR (k_run on ct.* functions); the valgrind runs are
driven by tools/check.py (run_ct_valgrind)."""
from . import c05k

def generate(rng, tier, ctx):
    # (c05k yields (line, tag) or (line, tag, specified result))
    # (specified results, where c05k attaches them, belong to C05; here only IR vs real function)
    return [(c[0], c[1]) for c in c05k.generate(rng, tier, ctx) if c[0].startswith('k_run ct.') or c[0].startswith('k_run ct32.')]
