"""Shared generator utilities: one PRNG (seeded from VERIF_SEED), edge-biased values, secp256k1
reference arithmetic in Python big integers (used only to *construct* inputs, never as an oracle)."""
import random, hashlib

P = 0xFFFFFFFFFFFFFFFFFFFFFFFFFFFFFFFFFFFFFFFFFFFFFFFFFFFFFFFEFFFFFC2F
N = 0xFFFFFFFFFFFFFFFFFFFFFFFFFFFFFFFEBAAEDCE6AF48A03BBFD25E8CD0364141
GX = 0x79BE667EF9DCBBAC55A06295CE870B07029BFCDB2DCE28D959F2815B16F81798
GY = 0x483ADA7726A3C4655DA4FBFC0E1108A8FD17B448A68554199C47D08FFB10D4B8
LAMBDA = 0x5363AD4CC05C30E0A5261C028812645A122E22EA20816678DF02967C1B23BD72
M256 = 1 << 256

def h32(x): return '%064x' % (x % M256)
def hx(b): return b.hex() if len(b) else '-'
def opt(b): return '_' if b is None else hx(b)

# ---- curve arithmetic (affine, None = infinity) ----
def inv(a, m=P): return pow(a, -1, m)
def padd(a, b):
    if a is None: return b
    if b is None: return a
    x1, y1 = a; x2, y2 = b
    if x1 == x2:
        if (y1 + y2) % P == 0: return None
        l = 3 * x1 * x1 * inv(2 * y1) % P
    else:
        l = (y2 - y1) * inv(x2 - x1) % P
    x3 = (l * l - x1 - x2) % P
    return (x3, (l * (x1 - x3) - y1) % P)
def pneg(a): return None if a is None else (a[0], (-a[1]) % P)
def pmul(k, a):
    k %= N; r = None
    while k:
        if k & 1: r = padd(r, a)
        a = padd(a, a); k >>= 1
    return r
G = (GX, GY)
def lift_x(x, odd=None):
    c = (x * x * x + 7) % P
    y = pow(c, (P + 1) // 4, P)
    if y * y % P != c: return None
    if odd is not None and (y & 1) != odd: y = P - y
    return (x % P, y)
def pt(a):
    """point token"""
    return 'Z' if a is None else '04' + h32(a[0]) + h32(a[1])
def ser33(a): return bytes([2 + (a[1] & 1)]) + a[0].to_bytes(32, 'big')
def ser65(a): return b'\x04' + a[0].to_bytes(32, 'big') + a[1].to_bytes(32, 'big')

EDGE_SCALARS = [0, 1, 2, 3, N - 3, N - 2, N - 1, N, N + 1, N + 2, (N - 1) // 2, (N + 1) // 2, (N - 1) // 2 - 1,
                (N + 1) // 2 + 1, P - N - 1, P - N, P - N + 1, P - 1, P, P + 1, M256 - 1, M256 - 2, 1 << 255, (1 << 255) - 1,
                1 << 128, (1 << 128) - 1, (1 << 128) + 1, 1 << 64, (1 << 64) - 1, LAMBDA, N - LAMBDA, LAMBDA + 1,
                0xFFFFFFFFFFFFFFFFFFFFFFFFFFFFFFFF00000000000000000000000000000000,
                0x00000000FFFFFFFF00000000FFFFFFFF00000000FFFFFFFF00000000FFFFFFFF,
                # all-ones 52-bit limbs / 26-bit limbs patterns
                (1 << 52) - 1, ((1 << 52) - 1) << 52, ((1 << 52) - 1) << 104, ((1 << 52) - 1) << 156, ((1 << 48) - 1) << 208,
                int('f' * 13 + '0' * 13 + 'f' * 13 + '0' * 13 + 'f' * 12, 16),
                0x1000003D1, 0x1000003D0, (1 << 256) - 0x1000003D1 - 1, P - 0x1000003D1]

class Rng:
    def __init__(self, seed): self.r = random.Random(seed)
    def rand256(self): return self.r.getrandbits(256)
    def bytes(self, n): return self.r.getrandbits(8 * n).to_bytes(n, 'big') if n else b''
    def choice(self, l): return self.r.choice(l)
    def randint(self, a, b): return self.r.randint(a, b)
    def random(self): return self.r.random()
    def shuffle(self, l): self.r.shuffle(l)
    def sample(self, l, k): return self.r.sample(l, k)
    def scalar(self, p_edge=0.5):
        """edge-biased 256-bit value"""
        u = self.r.random()
        if u < p_edge: return self.r.choice(EDGE_SCALARS)
        if u < p_edge + 0.15:
            # sparse / dense bit patterns
            k = self.r.randint(0, 255)
            return self.r.choice([1 << k, (1 << k) - 1, M256 - (1 << k), (M256 - 1) ^ (1 << k)])
        if u < p_edge + 0.25:
            e = self.r.choice(EDGE_SCALARS); return (e + self.r.randint(-3, 3)) % M256
        return self.rand256()
    def seckey(self):
        """valid secret key, edge biased"""
        while True:
            k = self.scalar(0.3)
            if 0 < k < N: return k
    def point(self):
        """random valid point (from a random scalar, or lifted edge x)"""
        if self.r.random() < 0.2:
            for _ in range(50):
                x = self.scalar(0.6) % P
                q = lift_x(x, self.r.randint(0, 1))
                if q: return q
        return pmul(self.seckey(), G)

def sha256(b): return hashlib.sha256(b).digest()
def tagged(tag, msg):
    t = sha256(tag); return sha256(t + t + msg)
