"""C02: BIP-340 Schnorr signatures."""
from .common import *

def bip340_sign(d0, msg, aux=None, k_override=None):
    Pp = pmul(d0, G); d = d0 if Pp[1] % 2 == 0 else N - d0
    if k_override is None:
        t = (d ^ int.from_bytes(tagged(b'BIP0340/aux', aux if aux is not None else b'\0' * 32), 'big')).to_bytes(32, 'big')
        k0 = int.from_bytes(tagged(b'BIP0340/nonce', t + Pp[0].to_bytes(32, 'big') + msg), 'big') % N
    else: k0 = k_override % N
    if k0 == 0: return None
    R = pmul(k0, G); k = k0 if R[1] % 2 == 0 else N - k0
    e = int.from_bytes(tagged(b'BIP0340/challenge', R[0].to_bytes(32, 'big') + Pp[0].to_bytes(32, 'big') + msg), 'big') % N
    return R[0].to_bytes(32, 'big') + ((k + e * d) % N).to_bytes(32, 'big')

def kp(d):
    Q = pmul(d, G); return '%s %s' % (h32(d), pt(Q))

def generate(rng, tier, ctx):
    cases = []
    n = {'quick': 1, 'thorough': 8}[tier]
    lens = list(range(0, 301)) if tier == 'thorough' else list(range(0, 70)) + list(range(70, 301, 7)) + [299, 300]
    if tier == 'thorough': lens += [rng.randint(301, 100000) for _ in range(40)] + [100000]
    else: lens += [301, 1000, 1001, 5000]
    lens += [65535, 65536, 65600, 131072 + 64]      # 64 KiB and more: the hash sees >= 1024 whole blocks in one write
    for L in lens:
        d = rng.seckey(); msg = rng.bytes(L)
        aux = rng.choice(['_', hx(rng.bytes(32)), hx(b'\0' * 32)])
        nf = rng.choice(['_', 'd']) if aux == '_' or True else 'd'
        cases.append(('schnorr_sign %s %s %s %s' % (hx(msg), kp(d), nf, aux), ('sign', 'len%d' % min(L, 302))))
    # key classes, both parities, zero/invalid keypairs
    for d in [1, 2, 3, N - 1, N - 2, (N - 1) // 2] + [rng.seckey() for _ in range(10 * n)]:
        msg = rng.bytes(32)
        for aux in ['_', hx(b'\0' * 32), hx(rng.bytes(32))]:
            cases.append(('schnorr_sign %s %s _ %s' % (hx(msg), kp(d), aux), ('sign32', 'aux-null' if aux == '_' else 'aux-zero' if aux == '00' * 32 else 'aux')))
    # sparse aux values: exactly one non-zero byte (every position), exactly one non-zero 8-byte word - "absent randomness behaves as
    # 32 zero bytes" must not extend to randomness that is zero only in part
    d = rng.seckey(); msg = rng.bytes(32)
    for i in range(32):
        a = bytearray(32); a[i] = rng.choice([1, 0x80, rng.randint(1, 255)])
        cases.append(('schnorr_sign %s %s %s %s' % (hx(msg), kp(d), rng.choice(['_', 'd']), hx(bytes(a))), ('sign32', 'aux-one-byte')))
    for w in range(4):
        a = bytearray(32); a[8 * w:8 * w + 8] = rng.bytes(8)
        cases.append(('schnorr_sign %s %s _ %s' % (hx(rng.bytes(rng.choice([0, 32, 77]))), kp(rng.seckey()), hx(bytes(a))), ('sign', 'aux-one-word')))
        a = bytearray(rng.bytes(32)); a[8 * w:8 * w + 8] = bytes(8)
        cases.append(('schnorr_sign %s %s _ %s' % (hx(rng.bytes(32)), kp(rng.seckey()), hx(bytes(a))), ('sign32', 'aux-one-word-zero')))
    cases.append(('schnorr_sign %s %s Z _ _' % (hx(rng.bytes(32)), h32(5)), ('sign', 'zero-pk-keypair')))
    cases.append(('schnorr_sign %s %s %s _ _' % (hx(rng.bytes(32)), h32(0), pt(pmul(5, G))), ('sign', 'zero-sk-keypair')))
    cases.append(('schnorr_sign %s %s %s _ _' % (hx(rng.bytes(32)), h32(N), pt(pmul(5, G))), ('sign', 'overflow-sk-keypair')))
    for nf, cls in [('c' + h32(0), 'nonce-zero'), ('c' + h32(N), 'nonce-n'), ('c' + h32(1), 'nonce-1'), ('c' + h32(N - 1), 'nonce-n-1'), ('f', 'nonce-fail'), ('c' + h32(rng.seckey()), 'nonce-const')]:
        for d in [rng.seckey(), rng.seckey()]:
            cases.append(('schnorr_sign %s %s %s _' % (hx(rng.bytes(rng.choice([0, 32, 50]))), kp(d), nf), ('sign_custom', cls)))
    # nonce function directly
    for _ in range(10 * n):
        algo = rng.choice(['_', hx(b'BIP0340/nonce'), hx(b'BIP0340/nonc'), hx(rng.bytes(rng.randint(0, 40))), '-'])
        cases.append(('nonce_bip340 %s %s %s %s %s' % (hx(rng.bytes(rng.randint(0, 100))), hx(rng.bytes(32)), hx(rng.bytes(32)), algo, rng.choice(['_', hx(rng.bytes(32))])), ('noncefn', 'algo-null' if algo == '_' else 'algo')))
    # --- verification
    for _ in range(25 * n):
        d = rng.seckey(); msg = rng.bytes(rng.choice([0, 1, 32, 33, 64, 100]))
        sgn = bip340_sign(d, msg, rng.bytes(32))
        if sgn is None: continue
        Q = pmul(d, G); X = lift_x(Q[0], 0)
        r = int.from_bytes(sgn[:32], 'big'); s = int.from_bytes(sgn[32:], 'big')
        muts = [('honest', sgn, msg, X), ('wrong-msg', sgn, msg + b'\0', X), ('odd-pk-object', sgn, msg, pneg(X)), ('zero-pk', sgn, msg, None),
                ('neg-s', sgn[:32] + ((N - s) % N).to_bytes(32, 'big'), msg, X), ('other-key', sgn, msg, lift_x(pmul((d % (N - 2)) + 2, G)[0], 0))]
        if r + P < M256: muts.append(('r+p', (r + P).to_bytes(32, 'big') + sgn[32:], msg, X))
        if s + N < M256: muts.append(('s+n', sgn[:32] + (s + N).to_bytes(32, 'big'), msg, X))
        for b in (range(512) if tier == 'thorough' and _ < 3 else [rng.randint(0, 511) for _ in range(8)]):
            f = bytearray(sgn); f[b // 8] ^= 1 << (b % 8); muts.append(('bitflip', bytes(f), msg, X))
        for cls, sg, mm, QQ in muts:
            cases.append(('schnorr_verify %s %s %s' % (hx(sg), hx(mm), pt(QQ)), ('verify', cls)))
    X = lift_x(pmul(rng.seckey(), G)[0], 0)
    for r in [0, 1, P - 1, P, P + 1, M256 - 1, 5]:   # includes off-curve r
        for s in [0, 1, N - 1, N, N + 1, M256 - 1]:
            cases.append(('schnorr_verify %s %s %s' % (h32(r) + h32(s), hx(rng.bytes(32)), pt(X)), ('verify', 'boundary')))
    # crafted: signatures with small s so that s+n fits: choose k = s - e*d ... needs e known after R; craft via k_override with d chosen: s = k+e*d small => pick s, R from k, then d = (s-k)/e
    for _ in range(6 * n):
        k0 = rng.seckey(); R = pmul(k0, G); k = k0 if R[1] % 2 == 0 else N - k0
        # need pk before e: iterate: choose d, compute e, then adjust msg? e depends on pk and msg; instead pick d, e then s = k+e*d (not small). Use verification-side crafting:
        # choose s small, e from (R.x, pk, msg) with pk = ((s - k)/e)G unknown until e known -> circular; skip exact craft, but exercise s+n on small forged s (rejects both ways)
        s = rng.randint(0, 1000)
        cases.append(('schnorr_verify %s %s %s' % (h32(R[0]) + h32(s + N), hx(rng.bytes(32)), pt(X)), ('verify', 'small-s+n')))
    # --- the public key argument of BIP-340 Verify: lift_x(int(pk)) fails for pk >= p and for x off the curve
    small_on = [x for x in range(1, 60) if lift_x(x, 0) is not None]
    for x in small_on:
        cases.append(('xonly_parse ' + h32(x + P), ('xonly_parse', 'x+p')))      # must be rejected, not reduced mod p
        cases.append(('xonly_parse ' + h32(x), ('xonly_parse', 'small-on-curve')))
    for x in [0, 5, 7, P - 1, P, P + 1, M256 - 1, (1 << 255), N, N - 1] + [rng.scalar(0.5) for _ in range(20 * n)]:
        cases.append(('xonly_parse ' + h32(x % M256), ('xonly_parse', 'boundary' if x in (0, 5, 7, P - 1, P, P + 1, M256 - 1) else 'gen')))
    return cases
