"""C05: arithmetic and hashing kernel. Every case is one line; tag = (family, class)."""
from .common import *

def fe_prog(rng):
    """Random legal field program; tracks magnitudes so that every call respects field.h's contract."""
    toks = []; mags = []   # magnitude per stack entry
    def push_load():
        v = rng.scalar(0.6); toks.append('L' + h32(v)); mags.append(1)
    push_load()
    steps = rng.randint(1, 14)
    for _ in range(steps):
        ops = ['L']
        if mags:
            m = mags[-1]
            ops += ['W', 'V', 'F', 'D', 'z', 'y', 'o', 'g', 's']
            if m <= 31: ops += ['N', 'H']
            if m <= 8: ops += ['S', 'S', 'i', 'j', 'r', 'q']
            if m >= 1 and m * 2 <= 32: ops += ['I']
            if m + 1 <= 32: ops += ['J']
        if len(mags) >= 2:
            a, b = mags[-2], mags[-1]
            ops += ['X', 'c', 'x', 'e', 't']
            if a + b <= 32: ops += ['A', 'A', 'A']
            if a <= 8 and b <= 8: ops += ['M', 'M', 'M']
        op = rng.choice(ops)
        if len(mags) >= 40 and op in ('L', 'D'): continue
        if op == 'L': push_load()
        elif op == 'A': b = mags.pop(); mags[-1] += b; toks.append('A')
        elif op == 'N':
            m = rng.randint(mags[-1], 31); toks.append('N%d' % m); mags[-1] = m + 1
        elif op == 'I':
            k = rng.randint(0, 32 // mags[-1]); toks.append('I%d' % k); mags[-1] = max(mags[-1] * k, 0)
        elif op == 'J':
            toks.append('J%d' % rng.choice([0, 1, 2, 7, 0x7FFF])); mags[-1] += 1
        elif op == 'M': mags.pop(); mags[-1] = 1; toks.append('M')
        elif op == 'S': mags[-1] = 1; toks.append('S')
        elif op == 'H': mags[-1] = (mags[-1] >> 1) + 1; toks.append('H')
        elif op in ('W', 'V', 'F', 's'): mags[-1] = 1; toks.append(op)
        elif op == 'D': mags.append(mags[-1]); toks.append('D')
        elif op == 'X': mags[-1], mags[-2] = mags[-2], mags[-1]; toks.append('X')
        elif op in ('i', 'j', 'r'): mags[-1] = 1; toks.append(op)
        elif op == 'c':
            b = mags.pop(); mags[-1] = max(mags[-1], b); toks.append('c%d' % rng.randint(0, 1))
        elif op == 't':
            mags.pop(); mags[-1] = 1; toks.append('t%d' % rng.randint(0, 1))
        elif op == 'e':
            if mags[-1] <= 31 and mags[-2] <= 1: toks.append('e')   # fe_equal contract: a mag<=1, b mag<=31
        else: toks.append(op)
    return 'fe_prog ' + ' '.join(toks), max(mags) if mags else 0

def generate(rng, tier, ctx):
    cases = []
    n = {'quick': 1, 'thorough': 8}[tier]
    # --- hashing: every length 0..300 with random chunking; sampled above
    lens = list(range(0, 301 if tier == 'thorough' else 200, 1 if tier == 'thorough' else 3)) + [55, 56, 57, 63, 64, 65, 119, 120, 127, 128, 129, 1000, 1001, 4096]
    if tier == 'thorough': lens += [rng.randint(301, 1 << 17) for _ in range(30)] + [1 << 20]
    for L in lens:
        msg = rng.bytes(L)
        chunks = []; i = 0
        while i < L:
            k = rng.choice([1, 3, 31, 32, 33, 63, 64, 65, 127, 128, 200, rng.randint(1, 300)]); chunks.append(msg[i:i + k]); i += k
        if rng.random() < 0.3: chunks.insert(rng.randint(0, len(chunks)), b'')
        cases.append(('sha256 ' + ' '.join(hx(c) for c in chunks) if chunks else 'sha256', ('sha256', 'len%d' % min(L, 400))))
    # long SINGLE writes (the whole-block path of secp256k1_sha256_write hands many blocks to the compression function at once):
    # block counts around powers of two, alone and after a short first write that leaves the buffer partly filled
    for nb in [255, 256, 257, 1023, 1024, 1025, 2048, 4097] + ([16383, 16384, 65535, 65536, 65537] if tier == 'thorough' else []):
        for head, extra in ((0, 0), (0, 17), (5, 64 - 5), (63, 2)):
            msg = rng.bytes(head + 64 * nb + extra)
            cases.append(('sha256 ' + ' '.join(hx(c) for c in (msg[:head], msg[head:]) if c), ('sha256', 'single-write-%dblocks' % min(nb, 1025))))
    for L in [0, 1, 31, 32, 33, 63, 64, 65, 100, 999, 1000, 1001, 1500] + [rng.randint(0, 3000) for _ in range(20 * n)]:
        tag = rng.bytes(rng.choice([0, 1, 13, 16, 32, 64, 65, 100]))
        cases.append(('tagged_sha256 %s %s' % (hx(tag), hx(rng.bytes(L))), ('tagged', 'len%d' % min(L, 400))))
    for kl in [0, 1, 32, 63, 64, 65, 100, 128, 200]:
        for _ in range(2 * n):
            L = rng.choice([0, 1, 55, 64, 100, rng.randint(0, 700)])
            msg = rng.bytes(L); cut = rng.randint(0, L)
            cases.append(('hmac %s %s %s' % (hx(rng.bytes(kl)), hx(msg[:cut]), hx(msg[cut:])), ('hmac', 'k%d' % kl)))
    for kl in [0, 32, 64, 80, 96, 112, 200]:
        for _ in range(2 * n):
            outs = [rng.choice([0, 1, 31, 32, 33, 64, 65, 100]) for _ in range(rng.randint(1, 4))]
            cases.append(('rfc6979 %s %s' % (hx(rng.bytes(kl)), ' '.join(map(str, outs))), ('rfc6979', 'k%d' % kl)))
    # --- field programs
    for _ in range(600 * n):
        line, mm = fe_prog(rng); cases.append((line, ('fe_prog', 'mag%d' % mm)))
    # direct pairs of edge values through mul/sqr/inv
    edges = EDGE_SCALARS
    for _ in range(300 * n):
        a, b = rng.choice(edges), rng.choice(edges)
        cases.append(('fe_prog L%s L%s M D S X i g' % (h32(a), h32(b)), ('fe_edge', 'mul')))
        cases.append(('fe_prog l%s r q z' % h32(a), ('fe_edge', 'sqrt')))
    # the extreme element of every magnitude (secp256k1_fe_get_bounds) through every normalisation / zero test / negation
    for m in range(0, 33):
        for prog in ('F g', 'V g', 'W F g', 'z', 'y', 'D F X V e') + (('N%d F g' % m, 'H F g') if m <= 31 else ()) + (('D A F g',) if 2 * m <= 32 else ()):
            cases.append(('fe_prog B%d %s' % (m, prog), ('fe_bounds', 'mag%d' % m)))
    # secp256k1_fe_equal called RAW on its documented domain (a: magnitude <= 1, b: magnitude <= 31), b at the extreme of its magnitude
    for m in range(0, 32):
        vb = 2 * m * ((1 << 256) - 1) % P
        for va in (vb, vb ^ 1, 0):
            cases.append(('fe_prog L%s B%d E' % (h32(va), m), ('fe_equal_raw', 'mag%d' % m)))
    # --- scalars
    subops = ['add', 'mul', 'neg', 'inv', 'invvar', 'half', 'ishigh', 'iszero', 'iseven', 'eq', 'condneg', 'cmov', 'seckey',
              'caddbit', 'sqr', 'split128', 'bits', 'mulshift', 'lambda']
    for so in subops:
        for _ in range(40 * n):
            a, b = rng.scalar(0.6), rng.scalar(0.6)
            cases.append(('sc %s %s %s' % (so, h32(a), h32(b)), ('sc', so)))
    # rounding carry of mul_shift_var: products whose bits [shift-1 .. shift+64k-1] are all ones, so that the rounding
    # increment ripples through k whole limbs (a 2^-64k event for random operands); built as a = floor(T / b)
    for _ in range(30 * n):
        b0 = rng.choice([128, 128, 128, 0, 1, 64, 127, rng.randint(0, 128)])
        shift = 256 + b0
        b = (b0 << 248) | rng.r.getrandbits(248) | 1
        klimbs = rng.choice([1, 1, 2, 3])
        top = min(shift + 64 * klimbs, 510)
        T = rng.r.getrandbits(max(shift - 1, 1)) | (((1 << (top - shift + 1)) - 1) << (shift - 1))
        if top < 500 and rng.random() < 0.5: T |= rng.r.getrandbits(min(8, 510 - top)) << (top + 1)
        T |= 1 << rng.randint(300, 380) if shift > 381 else 0
        a = T // b
        if 0 < a < N and b < N:
            cases.append(('sc mulshift %s %s' % (h32(a), h32(b)), ('sc', 'mulshift-carry-crafted')))
    # lambda split boundary scalars
    for k in range(40 * n):
        a = (rng.choice(EDGE_SCALARS) * rng.choice([1, LAMBDA, N - LAMBDA])) % M256
        cases.append(('sc lambda %s %s' % (h32(a), h32(0)), ('sc', 'lambda-edge')))
    # --- group law: all special cases
    def z(): return h32(rng.choice([1, 2, P - 1, rng.randint(1, P - 1)]))
    for _ in range(60 * n):
        Pp = rng.point(); Q = rng.point()
        beta = 0x7AE96A2B657C07106E64479EAC3434E99CF0497512F58995C1396C28719501EE
        pairs = [(Pp, Q), (Pp, Pp), (Pp, pneg(Pp)), (Pp, None), (None, Q), (None, None),
                 (Pp, (Pp[0] * beta % P, Pp[1])), (Pp, (Pp[0] * beta % P, P - Pp[1])), (Pp, padd(Pp, Pp)), (padd(Pp, Pp), pneg(Pp))]
        for a, b in pairs:
            cases.append(('ge_add %s %s %s %s' % (pt(a), pt(b), z(), z()), ('ge_add', 'eq' if a == b else 'neg' if a == pneg(b) else 'inf' if a is None or b is None else 'gen')))
        cases.append(('ge_dbl %s %s' % (pt(Pp), z()), ('ge_dbl', 'gen')))
        cases.append(('ge_neg %s' % pt(Pp), ('ge_neg', 'gen')))
    cases.append(('ge_dbl Z %s' % z(), ('ge_dbl', 'inf'))); cases.append(('ge_neg Z', ('ge_neg', 'inf')))
    # --- scalar multiplication
    for _ in range(60 * n):
        Pp = rng.point(); na, ng = rng.scalar(0.5), rng.scalar(0.5)
        cases.append(('ecmult %s %s %s' % (pt(Pp), h32(na), h32(ng)), ('ecmult', 'gen')))
        cases.append(('ecmult_gen %s' % h32(ng), ('ecmult_gen', 'gen')))
        cases.append(('ecmult_const %s %s' % (pt(Pp), h32(na)), ('ecmult_const', 'gen')))
    cases.append(('ecmult Z %s %s' % (h32(5), h32(7)), ('ecmult', 'inf')))
    # every odd multiple table entry of G is used: ng = 2i+1 (window 15 -> 8192 entries; sample in quick)
    tab = range(0, 8192) if tier == 'thorough' else [rng.randint(0, 8191) for _ in range(100)] + [0, 1, 8190, 8191]
    for i in tab:
        cases.append(('ecmult Z %s %s' % (h32(0), h32(2 * i + 1)), ('ecmult', 'table-g')))
        if tier == 'thorough' or i % 7 == 0:
            cases.append(('ecmult Z %s %s' % (h32(0), h32(((2 * i + 1) << 128) % N)), ('ecmult', 'table-g128')))
    # comb table of ecmult_gen: single bits and bytes
    for b in (range(256) if tier == 'thorough' else list(range(0, 256, 9)) + [255]):
        cases.append(('ecmult_gen %s' % h32(1 << b), ('ecmult_gen', 'bit')))
        cases.append(('ecmult_gen %s' % h32((M256 - 1) ^ (1 << b)), ('ecmult_gen', 'notbit')))
    # --- multi-scalar
    # Pippenger's bucket window grows with the batch size (window 7 from 236 points, 8 from 455, ...): cross those thresholds
    sizes = [0, 1, 2, 3, 4, 5, 8, 17, 20, 21, 40, 57, 58, 87, 88, 89, 123, 124, 136, 137, 160, 235, 236, 300] + ([200, 1000, 1260, 1261, 1300] if tier == 'thorough' else [])
    for nn in sizes:
        for scratch in ['_', '0', '100', '1000', '5000', '30000', '300000', '4000000']:
            if tier == 'quick' and nn > 40 and scratch not in ('_', '30000', '4000000'): continue
            if nn > 300 and scratch not in ('_', '300000', '4000000'): continue
            pts = []
            for i in range(nn):
                Q = rng.point() if rng.random() > 0.1 else None
                pts += [pt(Q), h32(rng.scalar(0.4))]
            if nn >= 2 and rng.random() < 0.5:  # cancelling pair
                pts[2] = pts[0]; pts[3] = h32((N - int(pts[1], 16)) % N)
            ng = rng.choice(['_', h32(rng.scalar(0.5))])
            cases.append(('ecmult_multi %s %s %s' % (scratch, ng, ' '.join(pts)), ('ecmult_multi', 'n%d-s%s' % (nn, scratch))))
    for _ in range(30 * n):
        cases.append(('lift_x %s %d' % (h32(rng.scalar(0.6)), rng.randint(0, 1)), ('lift_x', 'gen')))
    return cases
