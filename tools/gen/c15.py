"""C15: ECDSA sign-to-contract and the anti-exfil protocol.  Honest signatures / openings come from
the model in a first pass (ctx.model); mutated openings go through the opening parser (model) in a
second pass so that only objects the parser can produce are handed to the verification functions."""
from .common import *


def sig_ok(b):
    return int.from_bytes(b[:32], 'big') < N and int.from_bytes(b[32:], 'big') < N


def pt_of_token(t):
    if t == 'Z': return None
    b = bytes.fromhex(t); return (int.from_bytes(b[1:33], 'big'), int.from_bytes(b[33:], 'big'))


def generate(rng, tier, ctx):
    cases = []
    quick = tier == 'quick'
    rnd_sk = lambda: rng.r.randint(1, N - 1)
    B = lambda v: (v % M256).to_bytes(32, 'big')

    sks = [1, N - 1, 2, (N - 1) // 2, (N + 1) // 2, N - 2, rnd_sk(), rnd_sk(), rng.seckey(), rng.seckey()]
    msgs = [0, 1, N - 1, N, N + 1, M256 - 1, P, 1 << 255, rng.rand256(), rng.rand256(), rng.rand256()]
    datas = [0, 1, M256 - 1, N, P, 1 << 255, rng.rand256(), rng.rand256(), rng.rand256()]

    # ------------------------------------------------------------------ base signatures (model, first pass)
    nbase = 24 if quick else 150
    base = []
    for i in range(nbase):
        sk = sks[i % len(sks)] if i < 2 * len(sks) else rng.seckey()
        msg = msgs[(i * 5 + 1) % len(msgs)] if i < 2 * len(msgs) else rng.scalar(0.5)
        data = datas[(i * 2) % len(datas)] if i < 2 * len(datas) else rng.scalar(0.4)
        base.append(dict(sk=sk, msg=msg, data=data, X=pmul(sk, G)))
    lines = ['s2c_sign %s %s %s' % (h32(b['msg']), h32(b['sk']), h32(b['data'])) for b in base]
    outs = ctx.model(lines)
    good = []
    for b, l, o in zip(base, lines, outs):
        t = o.split(' ')
        cls = 'key%s-msg%s-data%s' % ('1' if b['sk'] == 1 else 'N-1' if b['sk'] == N - 1 else 'x', 'ovf' if b['msg'] >= N else '0' if b['msg'] == 0 else 'x',
                                      '0' if b['data'] == 0 else 'max' if b['data'] == M256 - 1 else 'x')
        cases.append((l, ('s2c_sign', cls)))
        if t[0] == '1':
            b['sig'] = bytes.fromhex(t[1]); b['op'] = pt_of_token(t[2]); good.append(b)
    # invalid keys: ret 0, signature zeroed, opening nevertheless written
    for sk, cls in ((0, 'sk=0'), (N, 'sk=N'), (N + 1, 'sk=N+1'), (M256 - 1, 'sk=max')):
        for m in (0, rng.rand256()):
            cases.append(('s2c_sign %s %s %s' % (h32(m), h32(sk), h32(rng.rand256())), ('s2c_sign', cls)))
            cases.append(('ae_sign %s %s %s' % (h32(m), h32(sk), h32(rng.rand256())), ('ae_sign', cls)))
            cases.append(('ae_signer_commit %s %s %s' % (h32(m), h32(sk), h32(rng.rand256())), ('ae_signer_commit', cls)))
            cases.append(('ae_protocol %s %s %s' % (h32(m), h32(sk), h32(rng.rand256())), ('ae_protocol', cls)))

    # ------------------------------------------------------------------ opening codec
    ser_lines = []
    for b in good[:8 if quick else 40]:
        cases.append(('s2c_opening_serialize ' + pt(b['op']), ('opening_serialize', 'valid')))
    cases.append(('s2c_opening_serialize Z', ('opening_serialize', 'invalid-object')))
    parse_inputs = []   # (bytes33, class, base index or None)
    xs = [0, 1, 2, 3, P - 1, P, P + 1, N, M256 - 1, GX] + [rng.rand256() for _ in range(4 if quick else 30)]
    for x in xs:
        for pf in (0, 1, 2, 3, 4, 5, 6, 7, 0x82, 0xff):
            parse_inputs.append((bytes([pf]) + B(x), 'pf%02x-%s' % (pf, 'x>=P' if x >= P else 'x<P'), None))
    for bi, b in enumerate(good[:6 if quick else 20]):
        s33 = ser33(b['op'])
        parse_inputs.append((s33, 'honest', bi))
        if quick: pos = [(0, 0), (0, 1), (0, 2), (0, 7), (1, 7), (1, 0), (32, 0), (32, 7)] + [(rng.randint(1, 32), rng.randint(0, 7)) for _ in range(12)]
        else: pos = [(i, bit) for i in range(33) for bit in range(8)]
        for (i, bit) in pos:
            parse_inputs.append((s33[:i] + bytes([s33[i] ^ (1 << bit)]) + s33[i + 1:], 'flip-prefix' if i == 0 else 'flip-x', bi))
        x = b['op'][0]
        if x + P < M256: parse_inputs.append((s33[:1] + B(x + P), 'x+P', bi))
    pouts = ctx.model(['s2c_opening_parse ' + hx(p[0]) for p in parse_inputs])
    parsed = []   # (opening point, class, base index)
    for (inp, cls, bi), o in zip(parse_inputs, pouts):
        cases.append(('s2c_opening_parse ' + hx(inp), ('opening_parse', cls)))
        t = o.split(' ')
        if t[0] == '1' and bi is not None: parsed.append((pt_of_token(t[1]), cls, bi))

    # ------------------------------------------------------------------ verify_commit
    VC = lambda sg, d, op: 's2c_verify_commit %s %s %s' % (hx(sg), h32(d) if isinstance(d, int) else hx(d), pt(op))
    for bi, b in enumerate(good):
        sig, data, op = b['sig'], b['data'], b['op']
        cases.append((VC(sig, data, op), ('s2c_verify_commit', 'honest')))
        if bi >= (10 if quick else 40): continue
        # datum
        bits = [0, 7, 8, 128, 248, 255] + [rng.randint(0, 255) for _ in range(6)] if quick else range(256)
        for k in bits: cases.append((VC(sig, data ^ (1 << k), op), ('s2c_verify_commit', 'data-flip')))
        for d2, cls in (((data + 1) % M256, 'data+1'), (rng.rand256(), 'data-random'), ((data + N) % M256, 'data+N'), (0 if data else 1, 'data-zeroish')):
            cases.append((VC(sig, d2, op), ('s2c_verify_commit', cls)))
        # opening
        other = good[(bi + 1) % len(good)]
        for o2, cls in ((pneg(op), 'opening-negated'), (other['op'], 'opening-of-other-sig'), (G, 'opening=G'), (None, 'opening-invalid'),
                        (pmul(2, op), 'opening-doubled'), (b['X'], 'opening=pubkey')):
            cases.append((VC(sig, data, o2), ('s2c_verify_commit', cls)))
        # signature: r is the commitment, s is ignored by verify_commit
        r_, s_ = int.from_bytes(sig[:32], 'big'), int.from_bytes(sig[32:], 'big')
        bits = [0, 7, 8, 128, 248, 255] + [rng.randint(0, 255) for _ in range(6)] if quick else range(256)
        for k in bits:
            m1 = B(r_ ^ (1 << k)) + sig[32:]; m2 = sig[:32] + B(s_ ^ (1 << k))
            if sig_ok(m1): cases.append((VC(m1, data, op), ('s2c_verify_commit', 'sig-r-flip')))
            if sig_ok(m2): cases.append((VC(m2, data, op), ('s2c_verify_commit', 'sig-s-flip')))
        for sg, cls in ((sig[:32] + B(N - s_), 'sig-s-negated'), (sig[:32] + bytes(32), 'sig-s=0'), (bytes(32) + sig[32:], 'sig-r=0'), (bytes(64), 'sig-zero'),
                        (B((r_ + 1) % N) + sig[32:], 'sig-r+1'), (B(N - r_) + sig[32:], 'sig-r-negated'), (other['sig'], 'sig-of-other'),
                        (sig[32:] + sig[:32], 'sig-r-s-swapped')):
            if sig_ok(sg): cases.append((VC(sg, data, op), ('s2c_verify_commit', cls)))
    for o2, cls, bi in parsed:
        b = good[bi]
        cases.append((VC(b['sig'], b['data'], o2), ('s2c_verify_commit', 'parsed-opening-' + cls)))

    # ------------------------------------------------------------------ anti-exfil building blocks
    for v in [0, 1, M256 - 1, N, P] + [rng.rand256() for _ in range(5 if quick else 40)]:
        cases.append(('ae_host_commit ' + h32(v), ('ae_host_commit', 'edge' if v in (0, 1, M256 - 1, N, P) else 'random')))
    for i in range(12 if quick else 80):
        sk = sks[i % len(sks)]; msg = msgs[(i * 3) % len(msgs)]; c = rng.choice([0, M256 - 1, rng.rand256(), rng.rand256()])
        cases.append(('ae_signer_commit %s %s %s' % (h32(msg), h32(sk), h32(c)), ('ae_signer_commit', 'msg%s' % ('ovf' if msg >= N else 'x'))))
        cases.append(('ae_sign %s %s %s' % (h32(msg), h32(sk), h32(c)), ('ae_sign', 'msg%s' % ('ovf' if msg >= N else 'x'))))
    # message >= n vs the same message reduced: identical nonce derivation
    for m in (N, N + 1, N + rng.randint(2, 1 << 100)):
        sk = rnd_sk(); rho = rng.rand256()
        for mm in (m, m - N):
            cases.append(('ae_protocol %s %s %s' % (h32(mm), h32(sk), h32(rho)), ('ae_protocol', 'msg-vs-msg-mod-n')))

    # ------------------------------------------------------------------ whole protocol, repeated runs
    for i in range(20 if quick else 150):
        sk = sks[i % len(sks)] if i < len(sks) else rng.seckey()
        msg = msgs[(i * 3 + 2) % len(msgs)] if i < 2 * len(msgs) else rng.scalar(0.5)
        rho = datas[i % len(datas)] if i < len(datas) else rng.rand256()
        cls = 'key%s-msg%s' % ('1' if sk == 1 else 'N-1' if sk == N - 1 else 'x', 'ovf' if msg >= N else '0' if msg == 0 else 'x')
        l = 'ae_protocol %s %s %s' % (h32(msg), h32(sk), h32(rho))
        cases.append((l, ('ae_protocol', cls)))
        if i % 3 == 0:
            cases.append((l, ('ae_protocol', 'repeat-same-rho')))
            cases.append(('ae_protocol %s %s %s' % (h32(msg), h32(sk), h32(rho ^ 1)), ('ae_protocol', 'repeat-other-rho')))
            cases.append((l, ('ae_protocol', 'repeat-same-rho-again')))

    # ------------------------------------------------------------------ host_verify on honest and mutated
    HV = lambda sg, m, X, d, op: 'ae_host_verify %s %s %s %s %s' % (hx(sg), h32(m), pt(X), h32(d), pt(op))
    for bi, b in enumerate(good):
        sig, data, op, msg, X = b['sig'], b['data'], b['op'], b['msg'], b['X']
        cases.append((HV(sig, msg, X, data, op), ('ae_host_verify', 'honest')))
        if bi >= (8 if quick else 40): continue
        r_, s_ = int.from_bytes(sig[:32], 'big'), int.from_bytes(sig[32:], 'big')
        other = good[(bi + 1) % len(good)]
        muts = [((sig[:32] + B(N - s_), msg, X, data, op), 'high-s-twin'), ((sig[:32] + B((s_ + 1) % N), msg, X, data, op), 's+1'),
                ((sig[:32] + bytes(32), msg, X, data, op), 's=0'), ((B((r_ + 1) % N) + sig[32:], msg, X, data, op), 'r+1'),
                ((bytes(64), msg, X, data, op), 'sig-zero'), ((other['sig'], msg, X, data, op), 'sig-of-other'),
                ((sig, msg ^ 1, X, data, op), 'msg-bit0'), ((sig, msg ^ (1 << 255), X, data, op), 'msg-bit255'), ((sig, rng.rand256(), X, data, op), 'msg-random'),
                ((sig, msg, pmul(rnd_sk(), G), data, op), 'wrong-pubkey'), ((sig, msg, pneg(X), data, op), 'negated-pubkey'),
                ((sig, msg, None, data, op), 'pubkey-invalid'), ((sig, msg, X, data, None), 'opening-invalid'), ((sig, msg, None, data, None), 'both-invalid'),
                ((sig, msg, None, data ^ 1, op), 'pubkey-invalid-commit-fails'),
                ((sig, msg, X, data ^ 1, op), 'data-bit0'), ((sig, msg, X, data ^ (1 << 255), op), 'data-bit255'), ((sig, msg, X, rng.rand256(), op), 'data-random'),
                ((sig, msg, X, data, pneg(op)), 'opening-negated'), ((sig, msg, X, data, other['op']), 'opening-of-other'), ((sig, msg, X, data, X), 'opening=pubkey')]
        if msg + N < M256: muts.append(((sig, msg + N, X, data, op), 'msg+N-same-mod-n'))
        if msg >= N: muts.append(((sig, msg - N, X, data, op), 'msg-N-same-mod-n'))
        for k in ([rng.randint(0, 255) for _ in range(4)] if quick else range(0, 256, 5)):
            muts.append(((B(r_ ^ (1 << k)) + sig[32:], msg, X, data, op), 'sig-r-flip'))
            muts.append(((sig[:32] + B(s_ ^ (1 << k)), msg, X, data, op), 'sig-s-flip'))
        for args, cls in muts:
            if sig_ok(args[0]): cases.append((HV(*args), ('ae_host_verify', cls)))
    for o2, cls, bi in parsed[:: 2 if quick else 1]:
        b = good[bi]
        cases.append((HV(b['sig'], b['msg'], b['X'], b['data'], o2), ('ae_host_verify', 'parsed-opening-' + cls)))
    return cases
