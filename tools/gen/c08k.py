"""C08 (translation validation): shallue_van_de_woestijne as regenerated FeIR, run against the real function."""
from . import c05k

def generate(rng, tier, ctx):
    return [c for c in c05k.generate(rng, tier, ctx) if c[0].startswith('f_run generator.')]
