"""C03: encodings: public keys (compressed/uncompressed/hybrid/x-only), compact and DER signatures."""
from .common import *

B = [0, 1, 2, N - 1, N, N + 1, P - 1, P, P + 1, M256 - 1, 0x7f, 0x80, 0xff, 0x100, 1 << 255, (1 << 255) - 1, (1 << 248) - 1, 1 << 248, (N - 1) // 2]

def der_int(x):
    b = x.to_bytes(max(1, (x.bit_length() + 7) // 8), 'big')
    if b[0] & 0x80: b = b'\0' + b
    return b
def der_len(L):
    if L < 128: return bytes([L])
    b = L.to_bytes((L.bit_length() + 7) // 8, 'big'); return bytes([0x80 | len(b)]) + b
def der_sig(r, s, rb=None, sb=None):
    rb = der_int(r) if rb is None else rb; sb = der_int(s) if sb is None else sb
    body = b'\x02' + der_len(len(rb)) + rb + b'\x02' + der_len(len(sb)) + sb
    return b'\x30' + der_len(len(body)) + body

def generate(rng, tier, ctx):
    cases = []
    n = {'quick': 1, 'thorough': 6}[tier]
    pts = [pmul(rng.seckey(), G) for _ in range(4 * n)]
    pts.append(lift_x(1, 0))
    # ---- pubkey parse: every prefix byte x every length class
    for q in pts[:2 if tier == 'quick' else 4]:
        for pf in range(256):
            for body, cls in [(q[0].to_bytes(32, 'big'), '33'), (q[0].to_bytes(32, 'big') + q[1].to_bytes(32, 'big'), '65')]:
                cases.append(('pubkey_parse ' + hx(bytes([pf]) + body), ('pubkey_parse', 'prefix-%s-%d' % (cls, pf if pf in (2, 3, 4, 6, 7) else -1))))
    for L in range(0, 81):
        q = rng.choice(pts); pf = rng.choice([2, 3, 4, 6, 7])
        raw = (bytes([pf]) + q[0].to_bytes(32, 'big') + q[1].to_bytes(32, 'big') + rng.bytes(20))[:L]
        cases.append(('pubkey_parse ' + hx(raw), ('pubkey_parse', 'len%d' % L)))
    # boundary coordinates
    for x in B + [q[0] for q in pts]:
        for pf in (2, 3):
            cases.append(('pubkey_parse ' + hx(bytes([pf]) + (x % M256).to_bytes(32, 'big')), ('pubkey_parse', 'bx-comp')))
        for y in [0, 1, P - 1, P, M256 - 1] + ([lift_x(x % P, 0)[1], lift_x(x % P, 1)[1]] if x < P and lift_x(x % P) else []):
            for pf in (4, 6, 7):
                cases.append(('pubkey_parse ' + hx(bytes([pf]) + (x % M256).to_bytes(32, 'big') + (y % M256).to_bytes(32, 'big')), ('pubkey_parse', 'bxy-%d' % pf)))
    # x + p re-encodings of valid keys (x < 2^256 - p is tiny range: use x of small lifted points)
    for x in range(1, 30):
        q = lift_x(x, 0)
        if q and x + P < M256:
            cases.append(('pubkey_parse ' + hx(b'\x02' + (x + P).to_bytes(32, 'big')), ('pubkey_parse', 'x+p')))
            cases.append(('pubkey_parse ' + hx(b'\x04' + (x + P).to_bytes(32, 'big') + q[1].to_bytes(32, 'big')), ('pubkey_parse', 'x+p-65')))
            cases.append(('xonly_parse ' + h32(x + P), ('xonly_parse', 'x+p')))
    # serialize with all buffer lengths, both forms, and the zero object
    for q in pts[:3] + [None]:
        for comp in (0, 1):
            for L in [0, 1, 32, 33, 34, 64, 65, 66, 100]:
                cases.append(('pubkey_serialize %s %d %d' % (pt(q), L, comp), ('pubkey_serialize', 'len%d-c%d%s' % (L, comp, '-zero' if q is None else ''))))
    # hybrid -> uncompressed round trip is checked by parse output (object) + serialize
    for x in B + [q[0] for q in pts] + [rng.rand256() for _ in range(20 * n)]:
        cases.append(('xonly_parse ' + h32(x), ('xonly_parse', 'b' if x in B else 'gen')))
    for q in pts + [None]:
        cases.append(('xonly_serialize ' + pt(q), ('xonly_serialize', 'zero' if q is None else 'ok')))
    # ---- compact
    for r in B:
        for s in B:
            cases.append(('sig_parse_compact ' + h32(r) + h32(s), ('compact', 'ov' if (r % M256) >= N or (s % M256) >= N else 'ok')))
    # ---- DER structural enumeration
    def add(b, cls): cases.append(('sig_parse_der ' + hx(b), ('der', cls)))
    vals = [0, 1, 0x7f, 0x80, 0xff, 0x100, N - 1, N, N + 1, M256 - 1, 1 << 255, (1 << 255) - 1, M256, (1 << 264) - 1, rng.seckey(), rng.seckey()]
    for r in vals:
        for s in vals if tier == 'thorough' else rng.sample(vals, 5):
            add(der_sig(r, s), 'canonical' + ('-oversize' if r >= N or s >= N else ''))
    good = der_sig(rng.seckey() | (1 << 255), rng.seckey())
    for cut in range(len(good) + 1): add(good[:cut], 'truncate')
    for ext in [b'\0', b'\x02', b'\x30\x00', rng.bytes(5)]: add(good + ext, 'trailing-after')
    r, s = rng.seckey(), rng.seckey()
    rb, sb = der_int(r), der_int(s)
    variants = {
        'pad00-r': der_sig(r, s, rb=b'\0' + (rb if rb[0] else rb[1:] and b'\0' + rb)), 'padff-r': der_sig(r, s, rb=b'\xff' + bytes([rb[0] | 0x80]) + rb[1:]),
        'pad00-s': der_sig(r, s, sb=b'\0' + (sb if not sb[0] & 0x80 else sb)), 'padff-s': der_sig(r, s, sb=b'\xff\xff' + sb),
        'neg-r': der_sig(r, s, rb=bytes([rb[0] | 0x80]) + rb[1:] if rb[0] else b'\x80' + rb[1:]), 'neg-s': der_sig(r, s, sb=b'\x80' + sb[1:]),
        'empty-r': der_sig(r, s, rb=b''), 'empty-s': der_sig(r, s, sb=b''),
        'zero-r': der_sig(0, s), 'zero-s': der_sig(r, 0), 'zero-00 00': der_sig(r, s, rb=b'\0\0'),
        'ff-single': der_sig(r, s, rb=b'\xff'), '00-80': der_sig(r, s, rb=b'\0\x80'), '00-7f': der_sig(r, s, rb=b'\0\x7f'), 'ff-7f': der_sig(r, s, rb=b'\xff\x7f'), 'ff-80': der_sig(r, s, rb=b'\xff\x80'),
        'big33': der_sig(r, s, rb=b'\x01' + rb.rjust(32, b'\0')[-32:]), 'big40': der_sig(r, s, rb=rng.bytes(40)), 'big200': der_sig(r, s, rb=b'\x01' + rng.bytes(199)),
    }
    for k, v in variants.items(): add(v, k)
    body = b'\x02' + der_len(len(rb)) + rb + b'\x02' + der_len(len(sb)) + sb
    L = len(body)
    for tag in [0x00, 0x02, 0x31, 0x10, 0xb0, 0x30 | 0x80]: add(bytes([tag]) + der_len(L) + body, 'seq-tag')
    for itag in [0x00, 0x03, 0x82, 0x22]:
        add(b'\x30' + der_len(L) + bytes([itag]) + body[1:], 'int-tag-r')
        add(b'\x30' + der_len(L) + b'\x02' + der_len(len(rb)) + rb + bytes([itag]) + der_len(len(sb)) + sb, 'int-tag-s')
    lenforms = {'long1': b'\x81' + bytes([L]), 'long2': b'\x82\x00' + bytes([L]), 'long2b': b'\x82' + L.to_bytes(2, 'big'), 'indef': b'\x80', 'ff': b'\xff',
                'long8': b'\x88' + L.to_bytes(8, 'big'), 'long9': b'\x89' + L.to_bytes(9, 'big'), 'long127': b'\xfe' + L.to_bytes(126, 'big'), 'short-1': bytes([L - 1]), 'short+1': bytes([L + 1]),
                'len0': b'\x00', 'huge': b'\x84\xff\xff\xff\xff', 'huge8': b'\x88' + b'\xff' * 8}
    for k, lf in lenforms.items():
        add(b'\x30' + lf + body, 'seqlen-' + k)
        add(b'\x30' + der_len(len(b'\x02' + lf + rb + b'\x02' + der_len(len(sb)) + sb)) + b'\x02' + lf + rb + b'\x02' + der_len(len(sb)) + sb, 'intlen-' + k)
    # long sequence >= 128 with legit long form (oversize ints) : 0x81 form must be accepted structurally
    bigr = b'\x01' + rng.bytes(70); bigs = b'\x01' + rng.bytes(70)
    add(der_sig(0, 0, rb=bigr, sb=bigs), 'long-form-legit')
    add(der_sig(0, 0, rb=b'\x01' + rng.bytes(130), sb=bigs), 'long-form-int-legit')
    # length octets that only fit after wrapping a 64-bit accumulator: 9..126 length octets whose low 8 bytes are the
    # true length (>= 128 so that the minimality check cannot save a sloppy reader)
    inner = b'\x02' + der_len(len(bigr)) + bigr + b'\x02' + der_len(len(bigs)) + bigs
    Li = len(inner)
    for nlen in (9, 10, 16, 126):
        for lead in (1, 0x80, 0xff):
            wrapped = bytes([0x80 | nlen]) + bytes([lead]) + b'\0' * (nlen - 9) + Li.to_bytes(8, 'big')
            add(b'\x30' + wrapped + inner, 'seqlen-wrap%d' % nlen)
    bigint = b'\x01' + rng.bytes(130)
    for nlen in (9, 12, 126):
        wl = bytes([0x80 | nlen]) + b'\x01' + b'\0' * (nlen - 9) + len(bigint).to_bytes(8, 'big')
        body2 = b'\x02' + wl + bigint + b'\x02' + der_len(len(bigs)) + bigs
        add(b'\x30' + der_len(len(body2)) + body2, 'intlen-wrap%d' % nlen)
    # trailing inside the sequence
    add(b'\x30' + der_len(L + 1) + body + b'\0', 'trailing-inside'); add(b'\x30' + der_len(L + 2) + body + b'\x02\x00', 'trailing-inside-int')
    for _ in range(60 * n): add(rng.bytes(rng.randint(0, 80)), 'random')
    for _ in range(60 * n):
        g = bytearray(der_sig(rng.scalar(0.5) % M256, rng.scalar(0.5) % M256)); i = rng.randint(0, len(g) - 1); g[i] ^= 1 << rng.randint(0, 7); add(bytes(g), 'bitflip')
    for L in range(0, 301, 1 if tier == 'thorough' else 13): add((good * 5)[:L], 'len%d' % L)
    # ---- DER serialize with every buffer size class
    for r in [0, 1, 0x7f, 0x80, N - 1, (1 << 255), (1 << 248) - 1, rng.seckey()]:
        for s in [0, 1, 0x80, N - 1, (1 << 247), rng.seckey()]:
            need = 6 + len(der_int(r % N)) + len(der_int(s % N))
            for size in [0, need - 1, need, need + 1, 72, 100]:
                cases.append(('sig_ser_der %s %d' % (h32(r % N) + h32(s % N), size), ('ser_der', 'small' if size < need else 'exact' if size == need else 'big')))
    return cases
