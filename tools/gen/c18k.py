"""C18 (translation validation): the ElligatorSwift field algorithms and lift_x as regenerated FeIR, run against the real functions."""
from . import c05k

def generate(rng, tier, ctx):
    keep = ('f_run ellswift.', 'f_run group.fe_sqrt', 'f_run group.ge_set_x', 'f_run group.fe_equal')
    return [c for c in c05k.generate(rng, tier, ctx) if c[0].startswith(keep)]
