"""C05 (translation validation): run the MiniC IR regenerated from the C sources and the real C functions on the same
limb-level inputs. Two limb layouts: 5x52 field / 4x64 scalar (128-bit builds; sets field5x52, scalar4x64, ct) and
10x26 field / 8x32 scalar (int64 build; sets field10x26, scalar8x32, ct32). A build answers `skip` for the other layout."""
from .common import *

def h(vs): return ','.join('%x' % v for v in vs)
def val(vs, bits): return sum(v << (bits * i) for i, v in enumerate(vs))
def limbs_of(v, bits, n): return [(v >> (bits * i)) & ((1 << bits) - 1) for i in range(n)]

def edge(rng, bits):
    u = rng.random()
    if u < 0.25: return (1 << bits) - 1
    if u < 0.35: return 0
    if u < 0.45: return 1 << (bits - 1)
    if u < 0.55: return (1 << rng.randint(0, bits - 1)) - 1
    return rng.r.getrandbits(bits)

LAY = {
    # name: (field set, scalar set, ct set, n field limbs, limb bits, top limb bits, n scalar limbs, scalar limb bits, extra sets with the mul kernels)
    '64': ('field5x52', 'scalar4x64', 'ct', 5, 52, 48, 4, 64),
    '32': ('field10x26', 'scalar8x32', 'ct32', 10, 26, 22, 8, 32),
}

def generate(rng, tier, ctx):
    cases = []
    n = {'quick': 60, 'thorough': 600}[tier]
    for lay in ('64', '32'):
        FS, SS, CS, nf, lb, tb, ns, sb = LAY[lay]
        def fe_in(slack_rest, slack_top):
            """limbs for a *_inner call: magnitude up to 8 (5x52: 56/52 bits; 10x26: 30/26 bits)"""
            return [edge(rng, lb + slack_rest) for _ in range(nf - 1)] + [edge(rng, tb + slack_top)]
        def fe_mag(m):
            v = [edge(rng, lb) for _ in range(nf - 1)] + [edge(rng, tb)]
            return [rng.choice([x * m, x]) for x in v]
        def sc(raw=False):
            v = rng.scalar(0.6 if not raw else 0.7)
            if not raw: v %= N
            return [(v >> (sb * i)) & ((1 << sb) - 1) for i in range(ns)]
        P_LIMBS = [(P >> (lb * i)) & ((1 << lb) - 1) for i in range(nf)]
        for _ in range(n):
            a, b = fe_in(4, 4), fe_in(4, 4)
            muls = [FS + '.fe_mul_inner', CS + '.fe_mul_inner'] + ([FS + '.fe_mul_inner_struct'] if lay == '64' else [])
            sqrs = [FS + '.fe_sqr_inner', CS + '.fe_sqr_inner'] + ([FS + '.fe_sqr_inner_struct'] if lay == '64' else [])
            for f in muls: cases.append(('k_run %s a=%s b=%s / r:%d' % (f, h(a), h(b), nf), ('k_run', f), '@valmodp:%d:%x' % (lb, val(a, lb) * val(b, lb) % P)))
            for f in sqrs: cases.append(('k_run %s a=%s / r:%d' % (f, h(a), nf), ('k_run', f), '@valmodp:%d:%x' % (lb, val(a, lb) ** 2 % P)))
            m = rng.choice([1, 2, 8, 31, 32])
            r_ = fe_mag(m)
            nearp = list(P_LIMBS); nearp[0] = (nearp[0] + rng.randint(-2, 2)) & ((1 << (lb + 1)) - 1)
            for r0 in (r_, nearp):
                for f in (FS + '.fe_normalize', CS + '.fe_normalize', FS + '.fe_normalize_weak'):
                    cases.append(('k_run %s r.n=%s / r.n:%d' % (f, h(r0), nf), ('k_run', f)))
                cases.append(('k_run %s.fe_normalizes_to_zero r.n=%s / ret' % (CS, h(r0)), ('k_run', CS + '.fe_normalizes_to_zero')))
            cases.append(('k_run %s.fe_half r.n=%s / r.n:%d' % (FS, h(fe_mag(rng.choice([1, 8, 31]))), nf), ('k_run', FS + '.fe_half')))
            cases.append(('k_run %s.fe_half r.n=%s / r.n:%d' % (CS, h(fe_mag(rng.choice([1, 8, 31]))), nf), ('k_run', CS + '.fe_half')))
            cases.append(('k_run %s.fe_add r.n=%s a.n=%s / r.n:%d' % (FS, h(fe_mag(rng.choice([1, 8, 16]))), h(fe_mag(rng.choice([1, 8, 16]))), nf), ('k_run', FS + '.fe_add')))
            cases.append(('k_run %s.fe_mul_int r.n=%s a=%x / r.n:%d' % (FS, h(fe_mag(1)), rng.randint(0, 32), nf), ('k_run', FS + '.fe_mul_int')))
            negs = [CS + '.fe_negate'] + ([FS + '.fe_negate'] if lay == '32' else [])
            for f in negs:
                mm = rng.randint(1, 31)
                cases.append(('k_run %s a.n=%s m=%x / r.n:%d' % (f, h(fe_mag(rng.choice([1, mm]))), mm, nf), ('k_run', f)))
            cases.append(('k_run %s.fe_cmov r.n=%s a.n=%s flag=%x / r.n:%d' % (CS, h(fe_in(4, 4)), h(fe_in(4, 4)), rng.randint(0, 1), nf), ('k_run', CS + '.fe_cmov')))
            cases.append(('k_run %s.scalar_cmov r.d=%s a.d=%s flag=%x / r.d:%d' % (CS, h(sc()), h(sc()), rng.randint(0, 1), ns), ('k_run', CS + '.scalar_cmov')))
            cases.append(('k_run %s.scalar_cond_negate r.d=%s flag=%x / r.d:%d ret' % (CS, h(sc()), rng.randint(0, 1), ns), ('k_run', CS + '.scalar_cond_negate')))
            for S in (CS, SS):
                x_ = sc(); xv = val(x_, sb)
                cases.append(('k_run %s.scalar_negate a.d=%s / r.d:%d' % (S, h(x_), ns), ('k_run', S + '.scalar_negate'), h(limbs_of((N - xv) % N, sb, ns))))
                x_, y_ = sc(), sc(); xv, yv = val(x_, sb), val(y_, sb)
                cases.append(('k_run %s.scalar_add a.d=%s b.d=%s / r.d:%d ret' % (S, h(x_), h(y_), ns), ('k_run', S + '.scalar_add'), h(limbs_of((xv + yv) % N, sb, ns)) + ' %x' % int(xv + yv >= N)))
            cases.append(('k_run %s.scalar_is_high a.d=%s / ret' % (CS, h(sc())), ('k_run', CS + '.scalar_is_high')))
            cases.append(('k_run %s.scalar_check_overflow a.d=%s / ret' % (CS, h(sc(True))), ('k_run', CS + '.scalar_check_overflow')))
            cases.append(('k_run %s.scalar_is_zero a.d=%s / ret' % (CS, h(sc())), ('k_run', CS + '.scalar_is_zero')))
            cases.append(('k_run %s.int_cmov r=%x a=%x flag=%x / r:1' % (CS, rng.randint(0, 1000), rng.randint(0, 1000), rng.randint(0, 1)), ('k_run', CS + '.int_cmov')))
            # scalar multiplication kernels: the 512-bit product, its reduction (fed with ANY 512-bit value), and both together
            x, y = sc(), sc()
            cases.append(('k_run %s.scalar_mul_512 a.d=%s b.d=%s / %s:%d' % (SS, h(x), h(y), 'l8' if lay == '64' else 'l', 2 * ns), ('k_run', SS + '.scalar_mul_512'), h(limbs_of(val(x, sb) * val(y, sb), sb, 2 * ns))))
            wide = [edge(rng, sb) for _ in range(2 * ns)]
            cases.append(('k_run %s.scalar_reduce_512 l=%s / r.d:%d' % (SS, h(wide), ns), ('k_run', SS + '.scalar_reduce_512'), h(limbs_of(val(wide, sb) % N, sb, ns))))
            # carry-maximising inputs: the reduction folds 512 -> 385 -> 258 -> 256 bits by adding (high part) * (2^256 - n);
            # build l BACKWARDS from a chosen 258-bit intermediate p (and 385-bit m) whose limbs are all-ones where a carry
            # arrives, so that every carry chain of the last two folding stages is exercised (needs ~2^-64 luck otherwise)
            NC = (1 << 256) - N
            def pattern(bits_total, top):
                v = 0
                for i in range(bits_total // 64):
                    v |= rng.choice([(1 << 64) - 1, (1 << 64) - 1, 0, (1 << 64) - 2, rng.r.getrandbits(64)]) << (64 * i)
                return v | (top << bits_total)
            pv = pattern(256, rng.choice([1, 1, 2, 0]))                      # stage-3 input p (p4 = 0..2)
            m_hi = rng.choice([0, 1, rng.r.getrandbits(64), rng.r.getrandbits(129)])
            m_hi = min(m_hi, pv // NC)
            mv = (pv - m_hi * NC) + (m_hi << 256)                              # stage-2 input m: m[0..3] + m[4..6]*NC = p
            if (pv - m_hi * NC) < (1 << 256):
                l_hi = mv // NC
                if l_hi >= (1 << 256): l_hi = (1 << 256) - 1 - rng.randint(0, 3)
                l_lo = mv - l_hi * NC
                if 0 <= l_lo < (1 << 256):
                    lv = l_lo | (l_hi << 256)
                    limbs = [(lv >> (sb * i)) & ((1 << sb) - 1) for i in range(2 * ns)]
                    cases.append(('k_run %s.scalar_reduce_512 l=%s / r.d:%d' % (SS, h(limbs), ns), ('k_run', SS + '.scalar_reduce_512.carry-crafted'), h(limbs_of(lv % N, sb, ns))))
            cases.append(('k_run %s.scalar_mul a.d=%s b.d=%s / r.d:%d' % (SS, h(x), h(y), ns), ('k_run', SS + '.scalar_mul'), h(limbs_of(val(x, sb) * val(y, sb) % N, sb, ns))))
            cases.append(('k_run %s.scalar_half a.d=%s / r.d:%d' % (SS, h(sc()), ns), ('k_run', SS + '.scalar_half')))
            x_, y_, sh_ = sc(), sc(), rng.choice([256, 257, 272, 319, 320, 383, 384, 384, 447, 448, 500, 511])
            cases.append(('k_run %s.scalar_mul_shift_var a.d=%s b.d=%s shift=%x / r.d:%d' % (SS, h(x_), h(y_), sh_, ns), ('k_run', SS + '.scalar_mul_shift_var'),
                          h(limbs_of((val(x_, sb) * val(y_, sb) + (1 << (sh_ - 1))) >> sh_, sb, ns))))
            small = rng.r.getrandbits(rng.randint(1, 250))
            sm = [(small >> (sb * i)) & ((1 << sb) - 1) for i in range(ns)]
            cases.append(('k_run %s.scalar_cadd_bit r.d=%s bit=%x flag=%x / r.d:%d' % (SS, h(sm), rng.randint(0, 250), rng.randint(0, 1), ns), ('k_run', SS + '.scalar_cadd_bit')))
        # group-level primitives of the constant-time set (translation validation on points, their special cases, raw limbs)
        def fel(v): return [(v >> (lb * i)) & ((1 << lb) - 1) for i in range(nf)]
        def gej_toks(pre, Q, z, inf):
            x, y = (Q[0] * z * z % P, Q[1] * z * z * z % P) if Q else (rng.scalar(0.3) % P, rng.scalar(0.3) % P)
            return '%s.x.n=%s %s.y.n=%s %s.z.n=%s %s.infinity=%x' % (pre, h(fel(x)), pre, h(fel(y)), pre, h(fel(z)), pre, inf)
        def ge_toks(pre, Q, inf):
            x, y = Q if Q else (rng.scalar(0.3) % P, rng.scalar(0.3) % P)
            return '%s.x.n=%s %s.y.n=%s %s.infinity=%x' % (pre, h(fel(x)), pre, h(fel(y)), pre, inf)
        outs = 'r.x.n:%d r.y.n:%d r.z.n:%d r.infinity' % (nf, nf, nf)
        for k in range(n // 3):
            A_, B_ = rng.point(), rng.point()
            z = rng.choice([1, 2, rng.randint(1, P - 1)])
            pairs = [(A_, B_, 0, 0, 'gen'), (A_, A_, 0, 0, 'double'), (A_, pneg(A_), 0, 0, 'neg'), (A_, B_, 1, 0, 'a-inf'), (A_, B_, 0, 1, 'b-inf'), (A_, B_, 1, 1, 'both-inf'),
                     (None, None, 0, 0, 'raw')]
            for a_, b_, ia, ib, cls in pairs:
                cases.append(('k_run %s.gej_add_ge %s %s / %s' % (CS, gej_toks('a', a_, z, ia), ge_toks('b', b_, ib), outs), ('k_run', CS + '.gej_add_ge.' + cls)))
            for a_, ia in ((A_, 0), (A_, 1), (None, 0)):
                cases.append(('k_run %s.gej_double %s / %s' % (CS, gej_toks('a', a_, z, ia), outs), ('k_run', CS + '.gej_double')))
                cases.append(('k_run %s.gej_neg %s / %s' % (CS, gej_toks('a', a_, z, ia), outs), ('k_run', CS + '.gej_neg')))
            cases.append(('k_run %s.ge_to_storage %s / r.x.n:%d r.y.n:%d' % (CS, ge_toks('a', A_, 0), ns, ns), ('k_run', CS + '.ge_to_storage')))
            v = rng.choice([0, 1, P - 1, rng.scalar(0.5) % P])
            cases.append(('k_run %s.fe_get_b32 a.n=%s / r:32' % (CS, h(fel(v))), ('k_run', CS + '.fe_get_b32')))
            cases.append(('k_run %s.scalar_mul a.d=%s b.d=%s / r.d:%d' % (CS, h(sc()), h(sc()), ns), ('k_run', CS + '.scalar_mul')))
    # a magnitude-32 extreme on which the 10x26 zero test gives a FALSE POSITIVE (found by Props/C05_select; known finding F4):
    # value = 2^58 (mod p), the specified answer is 0
    cex = [(1 << 26) - 977, (1 << 32) - 65, 0, 0, 0, 0, 0, 0, 0, 0x400000]
    cases.append(('k_run ct32.fe_normalizes_to_zero r.n=%s / ret' % h(cex), ('k_run', 'ct32.fe_normalizes_to_zero.extreme'), '0'))
    # ---- the emulated 128-bit integer (int128_struct): edge patterns on 32-bit halves (carries between the partial products)
    def half_edge():
        hi, lo = [rng.choice([0, 1, 2, 0x7FFFFFFF, 0x80000000, 0xFFFFFFFE, 0xFFFFFFFF, rng.r.getrandbits(32)]) for _ in range(2)]
        return (hi << 32) | lo
    for _ in range(8 * n):
        a, b = half_edge(), half_edge()
        cases.append(('k_run int128struct.umul128 a=%x b=%x / ret hi:1' % (a, b), ('k_run', 'int128struct.umul128'), '%x %x' % ((a * b) & ((1 << 64) - 1), (a * b) >> 64)))
        cases.append(('k_run int128struct.u128_mul a=%x b=%x / r.lo r.hi' % (a, b), ('k_run', 'int128struct.u128_mul'), '%x %x' % ((a * b) & ((1 << 64) - 1), (a * b) >> 64)))
        cases.append(('k_run int128struct.u128_accum_mul a=%x b=%x r.lo=%x r.hi=%x / r.lo r.hi' % (a, b, half_edge(), rng.r.getrandbits(40)), ('k_run', 'int128struct.u128_accum_mul')))
        cases.append(('k_run int128struct.u128_accum_u64 a=%x r.lo=%x r.hi=%x / r.lo r.hi' % (a, half_edge(), half_edge() >> 1), ('k_run', 'int128struct.u128_accum_u64')))
        cases.append(('k_run int128struct.u128_rshift n=%x r.lo=%x r.hi=%x / r.lo r.hi' % (rng.choice([0, 1, 31, 32, 33, 52, 63, 64, 65, 100, 127]), half_edge(), half_edge()), ('k_run', 'int128struct.u128_rshift')))
    # ---- mode F: group-level functions on field values (real function vs FeIR regenerated from group_impl.h)
    def fv(v): return '%064x' % (v % P)
    def jac(pre, Q, z, inf):
        x, y = (Q[0] * z * z % P, Q[1] * z * z * z % P) if Q else (rng.scalar(0.3) % P, rng.scalar(0.3) % P)
        return '%s.x=%s %s.y=%s %s.z=%s %s.infinity=%x' % (pre, fv(x), pre, fv(y), pre, fv(z), pre, inf)
    def aff(pre, Q, inf):
        x, y = Q if Q else (rng.scalar(0.3) % P, rng.scalar(0.3) % P)
        return '%s.x=%s %s.y=%s %s.infinity=%x' % (pre, fv(x), pre, fv(y), pre, inf)
    OJ = 'r.x r.y r.z r.infinity'; OG = 'r.x r.y r.infinity'
    beta = 0x7AE96A2B657C07106E64479EAC3434E99CF0497512F58995C1396C28719501EE
    for k in range(n // 2):
        A_, B_ = rng.point(), rng.point()
        za = rng.choice([1, 2, P - 1, rng.randint(1, P - 1)]); zb = rng.choice([1, 3, rng.randint(1, P - 1)])
        lamA = (A_[0] * beta % P, A_[1])
        pairs = [(A_, B_, 0, 0, 'gen'), (A_, A_, 0, 0, 'double'), (A_, pneg(A_), 0, 0, 'neg'), (A_, lamA, 0, 0, 'same-y'), (A_, pneg(lamA), 0, 0, 'opposite-y'),
                 (A_, B_, 1, 0, 'a-inf'), (A_, B_, 0, 1, 'b-inf'), (A_, B_, 1, 1, 'both-inf')]
        for a_, b_, ia, ib, cls in pairs:
            def F(f, line): cases.append(('f_run group.%s %s' % (f, line), ('f_run', f + '.' + cls)))
            if not ib:
                F('gej_add_ge', '%s %s / %s' % (jac('a', a_, za, ia), aff('b', b_, 0), OJ))
                F('gej_add_ge_inplace', '%s %s / %s' % (jac('r', a_, za, ia), aff('b', b_, 0), OJ))
            F('gej_add_ge_var', '%s %s / %s' % (jac('a', a_, za, ia), aff('b', b_, ib), OJ))
            F('gej_add_ge_var_inplace', '%s %s / %s' % (jac('r', a_, za, ia), aff('b', b_, ib), OJ))
            F('gej_add_var', '%s %s / %s' % (jac('a', a_, za, ia), jac('b', b_, zb, ib), OJ))
            # b given with a z that is NOT 1 through its inverse: (b.x, b.y) are the coordinates on the isomorphic curve
            bz = rng.randint(1, P - 1); bzi = pow(bz, P - 2, P)
            bb = (b_[0] * bz * bz % P, b_[1] * bz * bz * bz % P)
            F('gej_add_zinv_var', '%s %s bzinv=%s / %s' % (jac('a', a_, za, ia), aff('b', bb, ib), fv(bzi), OJ))
        for a_, ia in ((A_, 0), (A_, 1)):
            cases.append(('f_run group.gej_double %s / %s' % (jac('a', a_, za, ia), OJ), ('f_run', 'gej_double')))
            cases.append(('f_run group.gej_double_inplace %s / %s' % (jac('r', a_, za, ia), OJ), ('f_run', 'gej_double_inplace')))
            cases.append(('f_run group.gej_double_var %s / %s rzr' % (jac('a', a_, za, ia), OJ), ('f_run', 'gej_double_var')))
            cases.append(('f_run group.gej_neg %s / %s' % (jac('a', a_, za, ia), OJ), ('f_run', 'gej_neg')))
            cases.append(('f_run group.ge_neg %s / %s' % (aff('a', a_, ia), OG), ('f_run', 'ge_neg')))
            cases.append(('f_run group.gej_set_ge %s / %s' % (aff('a', a_, ia), OJ), ('f_run', 'gej_set_ge')))
        sv = rng.randint(1, P - 1)
        cases.append(('f_run group.gej_rescale %s s=%s / %s' % (jac('r', A_, za, 0), fv(sv), OJ), ('f_run', 'gej_rescale')))
        cases.append(('f_run group.ge_set_gej_zinv %s zi=%s / %s' % (jac('a', A_, za, 0), fv(pow(za, P - 2, P)), OG), ('f_run', 'ge_set_gej_zinv')))
        cases.append(('f_run group.ge_set_ge_zinv %s zi=%s / %s' % (aff('a', A_, 0), fv(sv), OG), ('f_run', 'ge_set_ge_zinv')))
        for xq in (A_[0], B_[0], (A_[0] + 1) % P):
            cases.append(('f_run group.gej_eq_x_var %s x=%s / ret' % (jac('a', A_, za, 0), fv(xq)), ('f_run', 'gej_eq_x_var')))
        for v in (A_[0], (A_[0] + 1) % P, 0, 1, 4, P - 1, pow(rng.scalar(0.3) % P, 2, P), rng.scalar(0.3) % P):
            cases.append(('f_run group.fe_sqrt a=%s / r ret' % fv(v), ('f_run', 'fe_sqrt')))
            cases.append(('f_run group.ge_set_xquad x=%s / r.x r.y ret' % fv(v), ('f_run', 'ge_set_xquad')))
            cases.append(('f_run group.ge_set_xo_var x=%s odd=%x / r.x r.y ret' % (fv(v), rng.randint(0, 1)), ('f_run', 'ge_set_xo_var')))
        cases.append(('f_run group.fe_equal a=%s b=%s / ret' % (fv(A_[0]), fv(rng.choice([A_[0], B_[0], A_[0] + 0]))), ('f_run', 'fe_equal')))
        for Q in (A_, (A_[0], (A_[1] + 1) % P), None):
            cases.append(('f_run group.ge_is_valid_var %s / ret' % aff('a', Q, 0), ('f_run', 'ge_is_valid_var')))
    # ---- mode F, set `ellswift`: the ElligatorSwift field algorithms and the inversion-based conversions
    for k in range(n):
        A_ = rng.point(); za = rng.randint(1, P - 1)
        u = rng.choice([0, 1, 2, P - 1, rng.scalar(0.3) % P, rng.scalar(0.3) % P]); t = rng.choice([0, 1, P - 1, rng.scalar(0.3) % P, rng.scalar(0.3) % P])
        cases.append(('f_run ellswift.xswiftec_frac_var u=%s t=%s / xn xd' % (fv(u), fv(t)), ('f_run', 'xswiftec_frac_var')))
        cases.append(('f_run ellswift.xswiftec_var u=%s t=%s / x' % (fv(u), fv(t)), ('f_run', 'xswiftec_var')))
        cases.append(('f_run ellswift.swiftec_var u=%s t=%s / p.x p.y' % (fv(u), fv(t)), ('f_run', 'swiftec_var')))
        for c in range(8):
            xq = rng.choice([A_[0], rng.point()[0]])                                       # contract: x_in is the x of a curve point
            uq = rng.choice([1, 2, rng.scalar(0.3) % P, rng.scalar(0.3) % P])       # u = 0 is outside the function's contract
            cases.append(('f_run ellswift.xswiftec_inv_var x_in=%s u_in=%s c=%x / t?ret ret' % (fv(xq), fv(uq), c), ('f_run', 'xswiftec_inv_var')))
        for xq in (A_[0], (A_[0] + 1) % P, 0, 5):
            cases.append(('f_run ellswift.ge_x_on_curve_var x=%s / ret' % fv(xq), ('f_run', 'ge_x_on_curve_var')))
            d = rng.randint(1, P - 1)
            cases.append(('f_run ellswift.ge_x_frac_on_curve_var xn=%s xd=%s / ret' % (fv(xq * d % P), fv(d)), ('f_run', 'ge_x_frac_on_curve_var')))
        for tv in (0, 1, 2, P - 1, rng.scalar(0.3) % P, rng.scalar(0.3) % P):
            cases.append(('f_run generator.svdw t=%s / ge.x ge.y ge.infinity' % fv(tv), ('f_run', 'svdw')))
        cases.append(('f_run ellswift.ge_set_gej %s / r.x r.y r.infinity' % jac('a', A_, za, 0), ('f_run', 'ge_set_gej')))
        for ia in (0, 1):
            cases.append(('f_run ellswift.ge_set_gej_var %s / r.x r.y r.infinity' % jac('a', A_, za, ia), ('f_run', 'ge_set_gej_var')))
    return cases
