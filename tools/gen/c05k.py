"""C05 (translation validation): run the MiniC IR regenerated from the C sources and the real C functions on the same limb-level inputs."""
from .common import *

def limbs5(rng, top=52, rest=56):
    def one(bits):
        u = rng.random()
        if u < 0.25: return (1 << bits) - 1
        if u < 0.35: return 0
        if u < 0.45: return 1 << (bits - 1)
        if u < 0.55: return (1 << rng.randint(0, bits - 1)) - 1
        return rng.r.getrandbits(bits)
    return [one(rest) for _ in range(4)] + [one(top)]

def h(vs): return ','.join('%x' % v for v in vs)

def generate(rng, tier, ctx):
    cases = []
    n = {'quick': 60, 'thorough': 600}[tier]
    for _ in range(n):
        a, b = limbs5(rng), limbs5(rng)
        for f in ('field5x52.fe_mul_inner', 'field5x52.fe_mul_inner_struct', 'ct.fe_mul_inner'):
            cases.append(('k_run %s a=%s b=%s / r:5' % (f, h(a), h(b)), ('k_run', f)))
        for f in ('field5x52.fe_sqr_inner', 'field5x52.fe_sqr_inner_struct', 'ct.fe_sqr_inner'):
            cases.append(('k_run %s a=%s / r:5' % (f, h(a)), ('k_run', f)))
        # normalisation family: magnitudes up to 32: limbs < 2^52 * 64 (top < 2^48 * 64)
        m = rng.choice([1, 2, 8, 31, 32])
        r_ = [rng.choice([v * m, v]) for v in limbs5(rng, 48, 52)]
        nearp = [0xFFFFEFFFFFC2F + rng.randint(-2, 2), 0xFFFFFFFFFFFFF, 0xFFFFFFFFFFFFF, 0xFFFFFFFFFFFFF, 0x0FFFFFFFFFFFF]
        for r0 in (r_, nearp):
            for f in ('field5x52.fe_normalize', 'ct.fe_normalize', 'field5x52.fe_normalize_weak'):
                cases.append(('k_run %s r.n=%s / r.n:5' % (f, h(r0)), ('k_run', f)))
            cases.append(('k_run ct.fe_normalizes_to_zero r.n=%s / ret' % h(r0), ('k_run', 'ct.fe_normalizes_to_zero')))
        r31 = [v for v in limbs5(rng, 48, 52)]
        cases.append(('k_run field5x52.fe_half r.n=%s / r.n:5' % h(r31), ('k_run', 'field5x52.fe_half')))
        cases.append(('k_run field5x52.fe_add r.n=%s a.n=%s / r.n:5' % (h(limbs5(rng, 48, 52)), h(limbs5(rng, 48, 52))), ('k_run', 'field5x52.fe_add')))
        cases.append(('k_run field5x52.fe_mul_int r.n=%s a=%x / r.n:5' % (h(limbs5(rng, 48, 52)), rng.randint(0, 32)), ('k_run', 'field5x52.fe_mul_int')))
        cases.append(('k_run ct.fe_negate a.n=%s m=%x / r.n:5' % (h(limbs5(rng, 48, 52)), rng.randint(1, 31)), ('k_run', 'ct.fe_negate')))
        cases.append(('k_run ct.fe_cmov r.n=%s a.n=%s flag=%x / r.n:5' % (h(limbs5(rng)), h(limbs5(rng)), rng.randint(0, 1)), ('k_run', 'ct.fe_cmov')))
        def sc4():
            v = rng.scalar(0.6) % N
            return [(v >> (64 * i)) & ((1 << 64) - 1) for i in range(4)]
        cases.append(('k_run ct.scalar_cmov r.d=%s a.d=%s flag=%x / r.d:4' % (h(sc4()), h(sc4()), rng.randint(0, 1)), ('k_run', 'ct.scalar_cmov')))
        cases.append(('k_run ct.scalar_cond_negate r.d=%s flag=%x / r.d:4 ret' % (h(sc4()), rng.randint(0, 1)), ('k_run', 'ct.scalar_cond_negate')))
        cases.append(('k_run ct.scalar_negate a.d=%s / r.d:4' % h(sc4()), ('k_run', 'ct.scalar_negate')))
        cases.append(('k_run ct.scalar_add a.d=%s b.d=%s / r.d:4 ret' % (h(sc4()), h(sc4())), ('k_run', 'ct.scalar_add')))
        raw = rng.scalar(0.7)
        rawd = [(raw >> (64 * i)) & ((1 << 64) - 1) for i in range(4)]
        cases.append(('k_run ct.scalar_is_high a.d=%s / ret' % h(sc4()), ('k_run', 'ct.scalar_is_high')))
        cases.append(('k_run ct.scalar_check_overflow a.d=%s / ret' % h(rawd), ('k_run', 'ct.scalar_check_overflow')))
        cases.append(('k_run ct.scalar_is_zero a.d=%s / ret' % h(sc4()), ('k_run', 'ct.scalar_is_zero')))
        cases.append(('k_run ct.int_cmov r=%x a=%x flag=%x / r:1' % (rng.randint(0, 1000), rng.randint(0, 1000), rng.randint(0, 1)), ('k_run', 'ct.int_cmov')))
    return cases
