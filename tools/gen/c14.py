"""C14: ECDSA adaptor signatures: encrypt / verify / decrypt / recover, the 162-byte codec, the adaptor
nonce function and the internal DLEQ prove / verify.  Honest artefacts come from the model in a first
pass (ctx.model) and are then mutated."""
from .common import *

ALGO_SIGN = b'ECDSAadaptor/non'
ALGO_DLEQ = b'DLEQ'
FIELDS = {'R': (0, 33), 'Rp': (33, 66), 'sp': (66, 98), 'e': (98, 130), 's': (130, 162)}


def enc_line(sk, Y, msg, nf, nd):
    return 'adaptor_encrypt %s %s %s %s %s' % (h32(sk), pt(Y), h32(msg), nf, opt(nd))


def off_curve_x(rng):
    while True:
        x = rng.rand256() % P
        if lift_x(x) is None: return x


def on_curve_x(rng):
    return pmul(rng.seckey(), G)[0]


def field_of(pos):
    for k, (a, b) in FIELDS.items():
        if a <= pos < b: return k


def put(sig, name, val):
    a, b = FIELDS[name]
    if isinstance(val, int): val = (val % M256).to_bytes(32, 'big')
    assert len(val) == b - a
    return sig[:a] + val + sig[b:]


def scalar_mutations(sig, name):
    a, b = FIELDS[name]
    v = int.from_bytes(sig[a:b], 'big')
    out = [(put(sig, name, 0), name + '=0'), (put(sig, name, N), name + '=N'), (put(sig, name, N + 1), name + '=N+1'),
           (put(sig, name, M256 - 1), name + '=max'), (put(sig, name, (v + 1) % N), name + '+1'),
           (put(sig, name, (N - v) % N), name + '-neg'), (put(sig, name, N - 1), name + '=N-1'), (put(sig, name, 1), name + '=1')]
    if v + N < M256: out.append((put(sig, name, v + N), name + '+N'))
    return out


def point_mutations(rng, sig, name):
    a, b = FIELDS[name]
    pre, x = sig[a], int.from_bytes(sig[a + 1:b], 'big')
    def mk(p, xv): return sig[:a] + bytes([p]) + (xv % M256).to_bytes(32, 'big') + sig[b:]
    out = [(mk(pre ^ 1, x), name + '-negated')]
    for p in (0, 1, 4, 5, 6, 7, 0x82, 0xff): out.append((mk(p, x), name + '-prefix%02x' % p))
    out.append((mk(pre, off_curve_x(rng)), name + '-offcurve'))
    out.append((mk(pre, P), name + '-x=P'))
    out.append((mk(pre, P + 1), name + '-x=P+1'))
    out.append((mk(pre, M256 - 1), name + '-x=max'))
    out.append((mk(pre, 0), name + '-x=0'))
    out.append((mk(pre, N), name + '-x=N'))
    if x + P < M256: out.append((mk(pre, x + P), name + '-x+P'))
    out.append((mk(2, GX), name + '=G'))
    out.append((mk(pre, on_curve_x(rng)), name + '-otherpoint'))
    return out


def flips(sig, positions):
    return [(sig[:i] + bytes([sig[i] ^ (1 << bit)]) + sig[i + 1:], 'flip-%s' % field_of(i)) for (i, bit) in positions]


def generate(rng, tier, ctx):
    cases = []
    quick = tier == 'quick'
    rs = lambda: rng.seckey()
    rnd_sk = lambda: rng.r.randint(1, N - 1)

    # ------------------------------------------------------------------ base material
    sks = [1, N - 1, 2, (N - 1) // 2, (N + 1) // 2, rnd_sk(), rs(), rs()]
    dks = [1, N - 1, 2, rnd_sk(), rnd_sk(), rs(), LAMBDA]
    msgs = [0, 1, N - 1, N, N + 1, M256 - 1, P, rng.rand256(), rng.rand256(), 1 << 255]
    nonces = ['_', 'd', '_', 'd', 'c' + h32(rnd_sk()), 'c' + h32(1), 'c' + h32(N - 1), 'c' + h32(N + 5), 'c' + h32(M256 - 1),
              'p%s:%s' % (h32(rnd_sk()), h32(rnd_sk()))]
    base = []   # dict(sk, dk, Y, X, msg, nf, nd)
    nbase = 14 if quick else 60
    for i in range(nbase):
        sk = sks[i % len(sks)] if i < 2 * len(sks) else rs()
        dk = dks[(i * 3 + 1) % len(dks)] if i < 2 * len(dks) else rs()
        msg = msgs[(i * 7) % len(msgs)] if i < 2 * len(msgs) else rng.scalar(0.5)
        nf = nonces[i % len(nonces)]
        nd = None if (i % 3 == 0) else (rng.bytes(32) if i % 3 == 1 else rng.choice([b'\0' * 32, b'\xff' * 32]))
        base.append(dict(sk=sk, dk=dk, Y=pmul(dk, G), X=pmul(sk, G), msg=msg, nf=nf, nd=nd))
    lines = [enc_line(b['sk'], b['Y'], b['msg'], b['nf'], b['nd']) for b in base]
    outs = ctx.model(lines)
    good = []
    for b, l, o in zip(base, lines, outs):
        t = o.split(' ')
        cls = 'key%s-msg%s-nf%s%s' % ('1' if b['sk'] == 1 else 'N-1' if b['sk'] == N - 1 else 'x', 'ovf' if b['msg'] >= N else '0' if b['msg'] == 0 else 'x',
                                     b['nf'][0], '' if b['nd'] is None else '+aux')
        cases.append((l, ('encrypt', cls)))
        if t[0] == '1':
            b['sig'] = bytes.fromhex(t[1]); good.append(b)
    # second pass: decrypted signatures and unrelated ECDSA signatures
    l2 = ['adaptor_decrypt %s %s' % (h32(b['dk']), hx(b['sig'])) for b in good] + \
         ['ecdsa_sign %s %s _ _' % (h32(b['msg']), h32(b['sk'])) for b in good]
    o2 = ctx.model(l2)
    for k, b in enumerate(good):
        t = o2[k].split(' ')
        b['dec'] = bytes.fromhex(t[1]) if t[0] == '1' else None
        t = o2[len(good) + k].split(' ')
        b['plain'] = bytes.fromhex(t[1]) if t[0] == '1' else None

    # ------------------------------------------------------------------ encrypt: more keys / failure paths
    # R.x in [n, p): the nonce point R = k*Y is crafted to have an abscissa >= n (Y = k^-1 * P for a curve point P with x = n + j,
    # constant nonce k); the specification reduces R.x mod n (here to j != 0) and produces a verifying adaptor signature
    jx = 0
    for _ in range(2 if quick else 6):
        jx += 1
        while lift_x(N + jx, 0) is None: jx += 1
        k = rnd_sk(); Pp = lift_x(N + jx, rng.randint(0, 1))
        cases.append((enc_line(rnd_sk(), pmul(pow(k, -1, N), Pp), rng.rand256(), 'p%s:%s' % (h32(k), h32(rnd_sk())), None), ('encrypt', 'Rx>=n')))
    Yr = pmul(rnd_sk(), G)
    for _ in range(6 if quick else 40):
        sk = rng.scalar(0.7); msg = rng.scalar(0.5)
        cls = 'sk=0' if sk == 0 else 'sk>=N' if sk >= N else 'sk-ok'
        cases.append((enc_line(sk, Yr, msg, rng.choice(['_', 'd']), rng.choice([None, rng.bytes(32)])), ('encrypt', cls)))
    k = rnd_sk(); k2 = rnd_sk(); d = rnd_sk(); m = rng.rand256()
    for sk, cls in ((0, 'sk=0'), (N, 'sk=N'), (N + 1, 'sk=N+1'), (M256 - 1, 'sk=max')):
        cases.append((enc_line(sk, Yr, m, '_', None), ('encrypt', cls)))
        cases.append((enc_line(sk, Yr, m, 'c' + h32(k), None), ('encrypt', cls + '-constnonce')))
    cases.append((enc_line(d, None, m, '_', None), ('encrypt', 'enckey-invalid')))
    cases.append((enc_line(0, None, m, 'f', None), ('encrypt', 'enckey-invalid-sk0')))
    for nf, cls in (('f', 'nonce-fails'), ('c' + h32(0), 'nonce=0'), ('c' + h32(N), 'nonce=N'), ('c' + h32(N + 1), 'nonce=N+1'),
                    ('p%s:%s' % (h32(k), h32(0)), 'dleq-nonce=0'), ('p%s:%s' % (h32(k), h32(N)), 'dleq-nonce=N'),
                    ('q' + h32(k), 'dleq-nonce-fails'), ('p%s:%s' % (h32(0), h32(k2)), 'sign-nonce=0-dleq-ok'),
                    ('p%s:%s' % (h32(N), h32(k2)), 'sign-nonce=N-dleq-ok'), ('p%s:%s' % (h32(k), h32(k)), 'same-nonce-twice'),
                    ('p%s:%s' % (h32(k), h32(N - k)), 'dleq-nonce-negated')):
        for nd in (None, rng.bytes(32)):
            cases.append((enc_line(d, Yr, m, nf, nd), ('encrypt', cls)))
    # s' = 0: with a constant nonce k, R = k*Y is known, choose m = -R.x*d mod n
    for kk in (k, 1, N - 1):
        R = pmul(kk, Yr); mz = (-(R[0] % N) * d) % N
        cases.append((enc_line(d, Yr, mz, 'c' + h32(kk), None), ('encrypt', 'sprime=0')))
        if mz + N < M256: cases.append((enc_line(d, Yr, mz + N, 'c' + h32(kk), None), ('encrypt', 'sprime=0-msg+N')))
        cases.append((enc_line(d, Yr, (mz + 1) % N, 'c' + h32(kk), None), ('encrypt', 'sprime=1/k')))
    # enckey = +-signer key, enckey = G
    cases.append((enc_line(d, pmul(d, G), m, '_', None), ('encrypt', 'enckey=pubkey')))
    cases.append((enc_line(d, pneg(pmul(d, G)), m, '_', None), ('encrypt', 'enckey=-pubkey')))
    cases.append((enc_line(d, G, m, '_', None), ('encrypt', 'enckey=G')))

    # ------------------------------------------------------------------ nonce function
    pk33 = ser33(Yr)
    algos = [ALGO_SIGN, ALGO_DLEQ, None, b'', b'ECDSAadaptor/noN', b'ECDSAadaptor/non\0', b'DLEQ\0', b'DLE', b'BIP0340/nonce', rng.bytes(16), rng.bytes(4), rng.bytes(64), rng.bytes(100)]
    for al in algos:
        for nd in (None, rng.bytes(32), b'\0' * 32):
            cases.append(('adaptor_nonce %s %s %s %s %s' % (h32(rng.scalar(0.3)), h32(rng.scalar(0.3)), hx(pk33), '_' if al is None else hx(al), opt(nd)),
                          ('nonce', 'algo-%s-%s' % ('null' if al is None else 'sign' if al == ALGO_SIGN else 'dleq' if al == ALGO_DLEQ else 'len%d' % len(al), 'aux' if nd else 'noaux'))))

    # ------------------------------------------------------------------ verify / codec / decrypt / recover on honest and mutated
    boundary = [0, 1, 2, 31, 32, 33, 34, 35, 64, 65, 66, 67, 96, 97, 98, 99, 128, 129, 130, 131, 160, 161]
    for bi, b in enumerate(good):
        sig, X, Y, msg, dk = b['sig'], b['X'], b['Y'], b['msg'], b['dk']
        V = lambda s_, X_=X, m_=msg, Y_=Y: 'adaptor_verify %s %s %s %s' % (hx(s_), pt(X_), h32(m_), pt(Y_))
        cases.append((V(sig), ('verify', 'honest')))
        cases.append(('adaptor_deser ' + hx(sig), ('codec', 'honest')))
        # wrong key / message / enckey
        if bi < (6 if quick else 30):
            X2 = pmul(rnd_sk(), G); Y2 = pmul(rnd_sk(), G)
            for Xm, mm, Ym, cls in ((X2, msg, Y, 'wrong-pubkey'), (pneg(X), msg, Y, 'negated-pubkey'), (X, msg ^ 1, Y, 'msg-bit0'),
                                    (X, msg ^ (1 << 255), Y, 'msg-bit255'), (X, (msg + 1) % M256, Y, 'msg+1'), (X, rng.rand256(), Y, 'msg-random'),
                                    (X, msg, Y2, 'wrong-enckey'), (X, msg, pneg(Y), 'negated-enckey'), (Y, msg, X, 'swapped-keys'),
                                    (None, msg, Y, 'pubkey-invalid'), (X, msg, None, 'enckey-invalid'), (None, msg, None, 'both-invalid')):
                cases.append((V(sig, Xm, mm, Ym), ('verify', cls)))
            # same message modulo n
            if msg + N < M256: cases.append((V(sig, X, msg + N, Y), ('verify', 'msg+N-same-mod-n')))
            if msg >= N: cases.append((V(sig, X, msg - N, Y), ('verify', 'msg-N-same-mod-n')))
        # mutations of the 162 bytes
        muts = []
        if bi < (4 if quick else 12):
            for f in ('sp', 'e', 's'): muts += scalar_mutations(sig, f)
            for f in ('R', 'Rp'): muts += point_mutations(rng, sig, f)
            a, bb = sig[0:33], sig[33:66]
            muts.append((bb + a + sig[66:], 'swap-R-Rp'))
            muts.append((sig[:98] + sig[130:162] + sig[98:130], 'swap-e-s'))
            muts.append((bytes(162), 'all-zero')); muts.append((b'\xff' * 162, 'all-ff'))
            # invalid points combined with an enckey / pubkey that is invalid too: order of checks
            cases.append((V(put(sig, 'sp', 0), None, msg, None), ('verify', 'sp=0-and-invalid-keys')))
            cases.append((V(put(sig, 's', 1), None, msg, Y), ('verify', 'baddleq-and-invalid-pubkey')))
        if bi < (4 if quick else 3):
            if quick:
                pos = [(i, bit) for i in boundary for bit in ((0, 7) if i in (0, 33) else (rng.randint(0, 7),))]
                pos += [(rng.randint(0, 161), rng.randint(0, 7)) for _ in range(36)]
            else:
                pos = [(i, bit) for i in range(162) for bit in range(8)]
            muts += flips(sig, pos)
        for ms, cls in muts:
            cases.append((V(ms), ('verify', cls)))
            cases.append(('adaptor_deser ' + hx(ms), ('codec', cls)))
            touches_dec = ms[1:33] != sig[1:33] or ms[66:98] != sig[66:98]
            if touches_dec or rng.random() < 0.1:
                cases.append(('adaptor_decrypt %s %s' % (h32(dk), hx(ms)), ('decrypt', cls)))
                if b['dec']: cases.append(('adaptor_recover %s %s %s' % (hx(b['dec']), hx(ms), pt(Y)), ('recover', 'mut-' + cls)))
        # decrypt
        cases.append(('adaptor_decrypt %s %s' % (h32(dk), hx(sig)), ('decrypt', 'honest')))
        for dkm, cls in ((0, 'deckey=0'), (N, 'deckey=N'), (N + dk if N + dk < M256 else M256 - 1, 'deckey>=N'), ((N - dk) % N, 'deckey-negated'),
                         (rnd_sk(), 'deckey-wrong')):
            cases.append(('adaptor_decrypt %s %s' % (h32(dkm), hx(sig)), ('decrypt', cls)))
        # the decrypted signature verifies as plain ECDSA, the wrong-key one does not
        if b['dec']:
            dec = b['dec']; r_, s_ = dec[:32], int.from_bytes(dec[32:], 'big')
            twin = r_ + ((N - s_) % N).to_bytes(32, 'big')
            cases.append(('ecdsa_verify %s %s %s' % (hx(dec), h32(msg), pt(X)), ('ecdsa_verify', 'decrypted')))
            cases.append(('ecdsa_verify %s %s %s' % (hx(twin), h32(msg), pt(X)), ('ecdsa_verify', 'decrypted-high-s-twin')))
            R = lambda sg, a_=sig, Y_=Y: 'adaptor_recover %s %s %s' % (hx(sg), hx(a_), pt(Y_))
            cases.append((R(dec), ('recover', 'from-decrypted')))
            cases.append((R(twin), ('recover', 'from-negated-s-twin')))
            cases.append((R(dec, sig, pneg(Y)), ('recover', 'negated-enckey')))
            cases.append((R(twin, sig, pneg(Y)), ('recover', 'twin-negated-enckey')))
            cases.append((R(dec, sig, pmul(rnd_sk(), G)), ('recover', 'foreign-enckey')))
            cases.append((R(dec, sig, X), ('recover', 'enckey=pubkey')))
            cases.append((R(dec, sig, None), ('recover', 'enckey-invalid')))
            if b['plain']: cases.append((R(b['plain']), ('recover', 'unrelated-ecdsa-same-key-msg')))
            other = good[(bi + 1) % len(good)]
            if other['dec'] and other is not b:
                cases.append((R(other['dec']), ('recover', 'sig-of-other-adaptor')))
                cases.append((R(dec, other['sig'], Y), ('recover', 'other-adaptor-sig')))
            # r matches, s arbitrary ; s matches, r different ; s = 0 ; r = 0
            cases.append((R(r_ + rnd_sk().to_bytes(32, 'big')), ('recover', 'r-ok-s-random')))
            rr = (int.from_bytes(r_, 'big') + 1) % N
            cases.append((R(rr.to_bytes(32, 'big') + dec[32:]), ('recover', 'r-wrong-s-ok')))
            cases.append((R(rr.to_bytes(32, 'big') + twin[32:]), ('recover', 'r-wrong-s-twin')))
            cases.append((R(bytes(32) + dec[32:]), ('recover', 'r=0-s-ok')))
            cases.append((R(r_ + bytes(32)), ('recover', 's=0')))
            cases.append((R(bytes(64)), ('recover', 'sig-zero')))
            cases.append((R(dec, put(sig, 'sp', 0)), ('recover', 'adaptor-sp=0')))
            cases.append((R(dec, put(sig, 'sp', N)), ('recover', 'adaptor-sp=N')))
            cases.append((R(dec, sig[:1] + bytes(32) + sig[33:]), ('recover', 'adaptor-Rx=0')))
            cases.append((R(dec, sig[:1] + N.to_bytes(32, 'big') + sig[33:]), ('recover', 'adaptor-Rx=N')))
            # garbage in the parts recover / decrypt never parse (R prefix, R', e, s): still succeeds
            junk = bytes([0xff]) + sig[1:33] + rng.bytes(33) + sig[66:98] + rng.bytes(64)
            cases.append((R(dec, junk), ('recover', 'unparsed-parts-garbage')))
            cases.append(('adaptor_decrypt %s %s' % (h32(dk), hx(junk)), ('decrypt', 'unparsed-parts-garbage')))
            cases.append((V(junk), ('verify', 'unparsed-parts-garbage')))

    # ------------------------------------------------------------------ codec round trip
    for _ in range(10 if quick else 60):
        Rr = rng.point(); Rp = rng.point()
        cases.append(('adaptor_ser %s %s %s %s %s' % (pt(Rr), pt(Rp), h32(rng.scalar(0.5)), h32(rng.scalar(0.5)), h32(rng.scalar(0.5))), ('codec', 'serialize')))
    for _ in range(20 if quick else 200):
        # random 162-byte strings with plausible structure
        Rr = rng.point(); Rp = rng.point()
        s_ = ser33(Rr) + ser33(Rp) + b''.join((rng.scalar(0.6)).to_bytes(32, 'big') for _ in range(3))
        cases.append(('adaptor_deser ' + hx(s_), ('codec', 'structured-random')))
        cases.append(('adaptor_verify %s %s %s %s' % (hx(s_), pt(Yr), h32(rng.rand256()), pt(Yr)), ('verify', 'structured-random')))

    # ------------------------------------------------------------------ DLEQ
    for i in range(12 if quick else 60):
        sk = [1, N - 1, 2, N + 1][i] if i < 4 else rng.scalar(0.4)
        if sk % N == 0: sk = 7
        gen2 = rng.point()
        nf = ['_', 'd', 'c' + h32(rnd_sk()), 'c' + h32(0), 'f', 'c' + h32(N), 'q' + h32(rnd_sk()), 'c' + h32(N + 1), '_', 'd', 'c' + h32(N - 1), 'p%s:%s' % (h32(0), h32(rnd_sk()))][i % 12]
        nd = rng.choice([None, rng.bytes(32)])
        cases.append(('dleq_prove %s %s %s %s' % (h32(sk), pt(gen2), nf, opt(nd)), ('dleq_prove', 'nf' + nf[0] + ('+aux' if nd else ''))))
    # verify: honest proofs from the model, then mutate
    pl = []
    for _ in range(4 if quick else 20):
        sk = rs(); gen2 = rng.point()
        pl.append(('dleq_prove %s %s _ _' % (h32(sk), pt(gen2)), sk, gen2))
    po = ctx.model([x[0] for x in pl])
    for (l, sk, gen2), o in zip(pl, po):
        t = o.split(' ')
        if t[0] != '1': continue
        s_, e_ = int(t[1], 16), int(t[2], 16); p1 = pmul(sk, G); p2 = pmul(sk, gen2)
        DV = lambda s, e, a, g, b_: 'dleq_verify %s %s %s %s %s' % (h32(s), h32(e), pt(a), pt(g), pt(b_))
        other = rng.point()
        for args, cls in (((s_, e_, p1, gen2, p2), 'honest'), ((s_ + N, e_, p1, gen2, p2), 's+N') if s_ + N < M256 else ((s_, e_, p1, gen2, p2), 'honest'),
                          ((s_, e_ + N, p1, gen2, p2), 'e+N') if e_ + N < M256 else ((s_, e_, p1, gen2, p2), 'honest'),
                          (((s_ + 1) % N, e_, p1, gen2, p2), 's+1'), ((s_, (e_ + 1) % N, p1, gen2, p2), 'e+1'), ((0, e_, p1, gen2, p2), 's=0'),
                          ((s_, 0, p1, gen2, p2), 'e=0'), ((0, 0, p1, gen2, p2), 's=e=0'), ((N - s_, N - e_, p1, gen2, p2), 'both-negated'),
                          ((s_, e_, pneg(p1), gen2, p2), 'p1-negated'), ((s_, e_, p1, gen2, pneg(p2)), 'p2-negated'), ((s_, e_, p1, pneg(gen2), p2), 'gen2-negated'),
                          ((s_, e_, p2, gen2, p1), 'p1-p2-swapped'), ((s_, e_, p1, other, p2), 'gen2-other'), ((s_, e_, p1, gen2, other), 'p2-other'),
                          ((s_, e_, other, gen2, p2), 'p1-other'), ((s_, e_, p1, G, p1), 'gen2=G-unrelated-proof'),
                          # R1 or R2 at infinity: s*G = e*P1  <=>  s = e*sk
                          ((e_ * sk % N, e_, p1, gen2, p2), 'R1=R2=infinity'), ((5 * sk % N, 5, p1, gen2, other), 'R1=infinity')):
            cases.append((DV(*args), ('dleq_verify', cls)))
    return cases
