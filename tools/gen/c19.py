"""C19: Bulletproofs++ norm argument (commit / prove / verify, internal functions), two-points-in-65-bytes
codec, transcript challenge, generator lists (create / parse / serialize).

Honest proofs are obtained from the model in a first pass (ctx.model) and then mutated; the
implementation is run on exactly the same lines, so a wrong first-pass artefact shows up as a
disagreement on the `bppp_prove` line itself."""
from .common import *

def log2(n): return n.bit_length() - 1
def rounds(g, h): return max(log2(g), log2(h))
def scratch_needed(g, h):
    """bytes the verifier allocates from the scratch space: gammas, s_g, s_h, rho_inv_pows (32-byte scalars)"""
    return 32 * (rounds(g, h) + g + h + log2(g))

VEC_KINDS = ['rand', 'rand', 'rand', 'zero', 'edge', 'ones', 'max', 'over', 'unit']
def vec(rng, n, kind):
    if kind == 'zero': return [0] * n
    if kind == 'edge': return [rng.choice([0, 1, N - 1]) for _ in range(n)]
    if kind == 'ones': return [1] * n
    if kind == 'max': return [N - 1] * n
    if kind == 'over': return [rng.choice([N, N + 1, M256 - 1, N + rng.randint(2, 1000), rng.rand256()]) for _ in range(n)]
    if kind == 'unit':
        v = [0] * n; v[rng.randint(0, n - 1)] = rng.choice([1, N - 1, rng.rand256() % N]); return v
    return [rng.rand256() % N for _ in range(n)]
def vs(v): return ' '.join(h32(x) for x in v)

PREFIX_LENS = [0, 1, 31, 32, 55, 56, 63, 64, 65, 100, 119, 120, 200]
def transcript(rng):
    b = rng.bytes(rng.choice(PREFIX_LENS))
    return ('t' if rng.random() < 0.3 else '') + hx(b)

RHO_EDGE = [0, 1, 2, N - 1, N - 2, N, N + 1, M256 - 1, (N - 1) // 2, (N + 1) // 2]
SCRATCH_P = ['_', '_', '0', '1', '100', '1000', '4096', '100000', '4000000']

def ser2(p, q):
    b0 = ((p[1] & 1) << 1 if p else 0) | ((q[1] & 1) if q else 0)
    return bytes([b0]) + (p[0].to_bytes(32, 'big') if p else b'\0' * 32) + (q[0].to_bytes(32, 'big') if q else b'\0' * 32)

def off_curve_x(rng):
    while True:
        x = rng.rand256() % P
        if x and lift_x(x) is None: return x
def small_on_curve_x():
    x = 1
    while lift_x(x) is None: x += 1
    return x

def gen_enc(rng):
    q = rng.point()
    return bytes([rng.choice([10, 11])]) + q[0].to_bytes(32, 'big')

class Base:
    """an honest proof with everything needed to write verify lines"""
    def __init__(self, tr, rho, n, l, cvec, proof, commit, tag):
        self.tr, self.rho, self.n, self.l, self.c, self.proof, self.commit, self.tag = tr, rho, n, l, list(cvec), proof, commit, tag
    def line(self, scratch=None, tr=None, rho=None, gens_n=None, g_len=None, commit=None, c=None, proof=None):
        scratch = '300000' if scratch is None else str(scratch)
        c = self.c if c is None else c
        proof = self.proof if proof is None else proof
        return 'bppp_verify %s %s %s %d %d %s / %s / %s' % (
            scratch, self.tr if tr is None else tr, h32(self.rho if rho is None else rho),
            self.n + self.l if gens_n is None else gens_n, self.n if g_len is None else g_len,
            self.commit if commit is None else commit, vs(c), hx(proof))

def mutations(rng, b, full):
    """verify lines derived from an honest proof; `full` = every class, else a small sample"""
    out = []
    def add(cls, **kw): out.append((b.line(**kw), ('verify', cls)))
    p = b.proof; r = rounds(b.n, b.l); need = scratch_needed(b.n, b.l)
    # honest proof, every scratch boundary
    suff = [(need, 'scratch-exact'), (need + 1, 'scratch+1'), (need + 15, 'scratch+15'), (need + 16, 'scratch+16'),
            (need + 4096, 'scratch+4096'), (4000000, 'scratch-big')]
    insuff = [(need - 1, 'scratch-1'), (need - 16, 'scratch-16'), (need - 32, 'scratch-32'), (need // 2, 'scratch-half'), (0, 'scratch-0'), (31, 'scratch-31')]
    if not full: suff = [suff[0], rng.choice(suff[1:])]; insuff = [insuff[0], rng.choice(insuff[1:])]
    for s, cls in suff: add('honest-' + cls, scratch=s)
    for s, cls in insuff:
        if 0 <= s < need: add('insufficient-' + cls, scratch=s)
    if not full:
        k = rng.randint(0, len(p) * 8 - 1); q = bytearray(p); q[k // 8] ^= 1 << (k % 8)
        add('bitflip-random', proof=bytes(q))
        add('trailing-1', proof=p + b'\0'); add('truncated-1', proof=p[:-1])
        return out
    # single-bit flips: sampled positions plus one in every field
    pos = set(rng.randint(0, len(p) * 8 - 1) for _ in range(10))
    pos |= {len(p) * 8 - 1, (len(p) - 32) * 8 - 1, (len(p) - 64) * 8, (len(p) - 33) * 8 + 7, 0 + 8 * (len(p) - 1), 8 * (len(p) - 32 - 1)}
    for j in range(r):
        pos |= {520 * j + 0, 520 * j + 1, 520 * j + 2, 520 * j + 7, 520 * j + 8 * 32 + 0, 520 * j + 8 * 64 + 0, 520 * j + 8 + 7, 520 * j + 8 * 33 + 7}
    for k in sorted(x for x in pos if 0 <= x < len(p) * 8):
        q = bytearray(p); q[k // 8] ^= 1 << (k % 8)
        field = 'n' if k // 8 >= len(p) - 64 and k // 8 < len(p) - 32 else 'l' if k // 8 >= len(p) - 32 else ['sign', 'X', 'R'][0 if (k // 8) % 65 == 0 else 1 if (k // 8) % 65 <= 32 else 2]
        add('bitflip-' + field, proof=bytes(q))
    # point encodings
    for j in range(r):
        o = 65 * j
        for sb in [4, 5, 7, 8, 0x10, 0x80 | p[o], 0xff, p[o] + 4, 0x40]:
            q = bytearray(p); q[o] = sb & 0xff; add('signbyte-gt3', proof=bytes(q))
        for sb in range(4):
            q = bytearray(p); q[o] = sb
            add('signbyte-%s' % ('same' if sb == p[o] else 'other'), proof=bytes(q))
        for which, off, mask in [('X', 1, 2), ('R', 33, 1)]:
            for sign in (0, 1):
                q = bytearray(p); q[o + off:o + off + 32] = b'\0' * 32
                q[o] = (q[o] & ~mask & 0xff) | (mask if sign else 0)
                add('inf-%s-sign%d' % (which, sign), proof=bytes(q))
            for x, cls in [(P, 'xP'), (P + small_on_curve_x(), 'x+P'), (M256 - 1, 'xff'), (off_curve_x(rng), 'offcurve'), (rng.point()[0], 'otherpoint')]:
                q = bytearray(p); q[o + off:o + off + 32] = x.to_bytes(32, 'big'); add('%s-%s' % (which, cls), proof=bytes(q))
        if r >= 2 and j + 1 < r:
            q = bytearray(p); q[o:o + 65], q[o + 65:o + 130] = p[o + 65:o + 130], p[o:o + 65]; add('rounds-swapped', proof=bytes(q))
    # final scalars out of range / re-encoded
    for which, o in [('n', len(p) - 64), ('l', len(p) - 32)]:
        v = int.from_bytes(p[o:o + 32], 'big')
        for x, cls in [(N, 'N'), (N + 1, 'N+1'), (M256 - 1, 'ff'), (v + N if v + N < M256 else N + 5, 'plusN'), ((v + 1) % N, 'plus1'), ((N - v) % N, 'neg'), (0, 'zero')]:
            q = bytearray(p); q[o:o + 32] = x.to_bytes(32, 'big'); add('scalar-%s-%s' % (which, cls), proof=bytes(q))
    q = bytearray(p); q[-64:-32], q[-32:] = p[-32:], p[-64:-32]; add('scalars-swapped', proof=bytes(q))
    # length
    for cls, q in [('truncated-1', p[:-1]), ('truncated-32', p[:-32]), ('truncated-64', p[:-64]), ('truncated-65', p[:-65]), ('head-cut-65', p[65:]),
                   ('head-cut-1', p[1:]), ('trailing-1', p + b'\0'), ('trailing-3', p + rng.bytes(3)), ('trailing-65', p + b'\0' * 65), ('trailing-dup-round', p[:65] + p if r else p + p[:64]),
                   ('leading-65', b'\0' * 65 + p), ('empty', b''), ('only-scalars', p[-64:]), ('doubled', p + p)]:
        if q != p: add('len-' + cls, proof=q)
    # sizes: non-power-of-two, zero, generator-count mismatch
    tot = b.n + b.l
    for gl in sorted({3, 5, 6, 7, b.n + 1, b.n * 2 - 1 if b.n > 1 else 3, b.n * 3}):
        if gl & (gl - 1) == 0: continue
        rr = max(log2(gl), log2(b.l))
        q = (p[:65] * rr if r else rng.bytes(65) * rr)[:65 * rr] + p[-64:]
        add('glen-not-pow2', g_len=gl, gens_n=gl + b.l, proof=q)
        add('glen-not-pow2-honestlen', g_len=gl, gens_n=gl + b.l)
    for hl in sorted({3, 5, 6, b.l + 1, b.l * 3}):
        if hl & (hl - 1) == 0: continue
        rr = max(log2(b.n), log2(hl))
        q = (p[:65] * rr if r else rng.bytes(65) * rr)[:65 * rr] + p[-64:]
        c2 = (b.c * hl)[:hl]
        add('hlen-not-pow2', c=c2, gens_n=b.n + hl, proof=q)
    add('glen-0', g_len=0); add('glen-0-gens', g_len=0, gens_n=b.l)
    add('hlen-0', c=[]); add('hlen-0-gens', c=[], gens_n=b.n)
    for gn in sorted({tot - 1, tot + 1, tot + 2, 0, 2 * tot, b.n, b.l}):
        if gn != tot and gn >= 0: add('gens-count-mismatch', gens_n=gn)
    add('glen-halved', g_len=max(1, b.n // 2)); add('glen-doubled', g_len=b.n * 2)
    add('glen-doubled-gens', g_len=b.n * 2, gens_n=2 * b.n + b.l)
    if b.n != b.l:
        add('split-swapped', g_len=b.l, c=(b.c * b.n)[:b.n])
    add('hlen-doubled-gens', c=b.c + b.c, gens_n=b.n + 2 * b.l)
    # wrong public inputs
    cm = b.commit
    if cm != 'Z':
        x, y = int(cm[2:66], 16), int(cm[66:], 16)
        add('commit-negated', commit=pt((x, P - y))); add('commit-plusG', commit=pt(padd((x, y), G)))
        add('commit-inf', commit='Z')
    else:
        add('commit-G', commit=pt(G))
    add('commit-random', commit=pt(rng.point()))
    rho = b.rho % N
    add('rho-plus1', rho=(rho + 1) % N); add('rho-neg', rho=(N - rho) % N); add('rho-zero', rho=0); add('rho-N', rho=N)
    if rho + N < M256: add('rho-reencoded-plusN', rho=rho + N)
    add('transcript-other', tr=hx(rng.bytes(7)))
    add('transcript-tag-toggled', tr=b.tr[1:] if b.tr.startswith('t') else 't' + b.tr)
    c2 = list(b.c); k = rng.randint(0, b.l - 1); c2[k] = (c2[k] + 1) % N; add('cvec-entry-plus1', c=c2)
    c2 = list(b.c); k = rng.randint(0, b.l - 1)
    if c2[k] % N + N < M256: c2[k] = c2[k] % N + N; add('cvec-entry-reencoded-plusN', c=c2)
    if b.l >= 2: c2 = list(b.c); c2[0], c2[1] = c2[1], c2[0]; add('cvec-swapped', c=c2)
    return out

def generate(rng, tier, ctx):
    cases = []
    thorough = tier == 'thorough'
    mult = 6 if thorough else 1

    # ------------------------------------------------------------------ helpers ops
    for n in [0, 1, 2, 3, 4, 5, 6, 7, 8, 9, 15, 16, 17, 63, 64, 65, 255, 256, 257, (1 << 31) - 1, 1 << 31, (1 << 32) - 1, 1 << 32, (1 << 32) + 1,
              (1 << 63) - 1, 1 << 63, (1 << 63) + 1, (1 << 64) - 1] + [rng.randint(1, (1 << 64) - 1) for _ in range(8 * mult)] + [1 << k for k in range(0, 64, 7)]:
        cases.append(('bppp_log2 %d' % n, ('log2', 'zero' if n == 0 else 'pow2' if n & (n - 1) == 0 else 'other')))
    for _ in range(24 * mult):
        idx = rng.choice([0, 0, 1, 2, 255, 256, 65535, 1 << 32, (1 << 64) - 1, rng.randint(0, (1 << 64) - 1)])
        t = transcript(rng)
        cases.append(('bppp_challenge %s %d' % (t, idx), ('challenge', ('tagged' if t.startswith('t') else 'plain') + ('-idx0' if idx == 0 else '-idx'))))
    # two-point codec
    for _ in range(12 * mult):
        a = rng.choice([None, rng.point(), rng.point()]); b = rng.choice([None, rng.point(), rng.point()])
        cases.append(('bppp_points_ser %s %s' % (pt(a), pt(b)), ('points_ser', ('inf' if a is None else 'pt') + '-' + ('inf' if b is None else 'pt'))))
        enc = bytearray(ser2(a, b))
        cases.append(('bppp_points_parse ' + hx(bytes(enc)), ('points_parse', 'valid')))
        for sb in [0, 1, 2, 3, 4, 5, 6, 7, 8, 0x80, 0x83, 0xfe, 0xff]:
            q = bytearray(enc); q[0] = sb
            cases.append(('bppp_points_parse ' + hx(bytes(q)), ('points_parse', 'sign%d' % sb if sb < 8 else 'sign-high')))
    sx = small_on_curve_x()
    for off in (1, 33):
        for x, cls in [(P, 'xP'), (P + sx, 'x+P'), (sx, 'small-x'), (M256 - 1, 'xff'), (P - 1, 'xP-1'), (off_curve_x(rng), 'offcurve'), (0, 'zero')]:
            for sb in range(5):
                q = bytearray(ser2(rng.point(), rng.point())); q[0] = sb; q[off:off + 32] = x.to_bytes(32, 'big')
                cases.append(('bppp_points_parse ' + hx(bytes(q)), ('points_parse', '%s-%s' % ('X' if off == 1 else 'R', cls))))
    for sb in range(5):
        cases.append(('bppp_points_parse ' + hx(bytes([sb]) + b'\0' * 64), ('points_parse', 'both-zero')))
    # inner products
    for _ in range(30 * mult):
        step = rng.choice([1, 1, 2, 2, 3]); ln = rng.choice([0, 1, 2, 3, 4, 8]); ao = rng.randint(0, 2); bo = rng.randint(0, 2)
        al = ao + step * max(ln - 1, 0) + 1 + rng.randint(0, 2); bl = bo + step * max(ln - 1, 0) + 1 + rng.randint(0, 2)
        ka = rng.choice(VEC_KINDS); kb = rng.choice(VEC_KINDS)
        mu = rng.choice(['_', h32(rng.scalar(0.6))])
        cases.append(('bppp_ip %s %d %d %d %d / %s / %s' % (mu, ao, bo, step, ln, vs(vec(rng, al, ka)), vs(vec(rng, bl, kb))),
                      ('ip', ('weighted' if mu != '_' else 'plain') + ('-len0' if ln == 0 else ''))))

    # ------------------------------------------------------------------ generator lists
    counts = [0, 1, 2, 3, 7, 16, 33, 64, 100, 128, 255, 256] + [rng.randint(4, 254) for _ in range(4)]
    if thorough: counts = list(range(0, 257))
    for n in counts:
        cases.append(('bppp_gens_create %d' % n, ('gens_create', 'n0' if n == 0 else 'n1' if n == 1 else 'n256' if n == 256 else 'n')))
    for n, k in [(0, 0), (0, 5), (1, 0), (1, 1), (2, 1), (16, 1), (16, 16), (64, 64), (100, 156)] + ([(255, 1)] if thorough else []) + [(rng.randint(0, 60), rng.randint(0, 40)) for _ in range(3 * mult)]:
        cases.append(('bppp_gens_prefix %d %d' % (n, k), ('gens_prefix', 'k0' if k == 0 else 'n0' if n == 0 else 'nk')))
    for n in [0, 1, 2, 16, 50] + ([128, 256] if thorough else []):
        for bl, cls in [(33 * n, 'exact'), (33 * n - 1, 'short-1'), (33 * n + 1, 'long+1'), (33 * n + 33, 'long+33'), (0, 'zero'), (33 * n - 33, 'short-33'), (33 * n + 1000, 'long+1000')]:
            if bl >= 0: cases.append(('bppp_gens_serialize %d %d' % (n, bl), ('gens_serialize', cls + ('-n0' if n == 0 else ''))))
        cases.append(('bppp_gens_serialize %d _' % n, ('gens_serialize', 'null-data')))
    cases.append(('bppp_gens_serialize _ 66', ('gens_serialize', 'null-gens')))
    cases.append(('bppp_gens_serialize _ _', ('gens_serialize', 'null-both')))
    # parse
    cases.append(('bppp_gens_parse _', ('gens_parse', 'null')))
    cases.append(('bppp_gens_parse -', ('gens_parse', 'empty')))
    bad_points = lambda: [
        ('prefix-02', bytes([2]) + rng.point()[0].to_bytes(32, 'big')), ('prefix-03', bytes([3]) + rng.point()[0].to_bytes(32, 'big')),
        ('prefix-08', bytes([8]) + rng.point()[0].to_bytes(32, 'big')), ('prefix-09', bytes([9]) + rng.point()[0].to_bytes(32, 'big')),
        ('prefix-0c', bytes([12]) + rng.point()[0].to_bytes(32, 'big')), ('prefix-00', bytes([0]) + rng.point()[0].to_bytes(32, 'big')),
        ('prefix-8a', bytes([0x8a]) + rng.point()[0].to_bytes(32, 'big')), ('prefix-1a', bytes([0x1a]) + rng.point()[0].to_bytes(32, 'big')),
        ('offcurve', bytes([10]) + off_curve_x(rng).to_bytes(32, 'big')), ('offcurve-11', bytes([11]) + off_curve_x(rng).to_bytes(32, 'big')),
        ('x-zero', bytes([10]) + b'\0' * 32), ('all-zero', b'\0' * 33),
        ('x-P', bytes([10]) + P.to_bytes(32, 'big')), ('x+P', bytes([rng.choice([10, 11])]) + (P + sx).to_bytes(32, 'big')),
        ('x-ff', bytes([11]) + b'\xff' * 32)]
    for k in [1, 2, 3, 5, 16] + ([64, 256] if thorough else []):
        for _ in range(2 * mult):
            encs = [gen_enc(rng) for _ in range(k)]
            data = b''.join(encs)
            cases.append(('bppp_gens_parse ' + hx(data), ('gens_parse', 'valid-k%d' % k)))
            cases.append(('bppp_gens_parse ' + hx(data[:-1]), ('gens_parse', 'len-33k-1')))
            cases.append(('bppp_gens_parse ' + hx(data + rng.bytes(1)), ('gens_parse', 'len-33k+1')))
            cases.append(('bppp_gens_parse ' + hx(data[1:]), ('gens_parse', 'len-33k-1-head')))
            cases.append(('bppp_gens_parse ' + hx(data + data[:32]), ('gens_parse', 'len-33k+32')))
            positions = sorted({0, k // 2, k - 1})
            for posi in positions:
                pcl = 'first' if posi == 0 else 'last' if posi == k - 1 else 'middle'
                if k == 1: pcl = 'only'
                for cls, enc in (bad_points() if _ == 0 else rng.sample(bad_points(), 3)):
                    e2 = list(encs); e2[posi] = enc
                    cases.append(('bppp_gens_parse ' + hx(b''.join(e2)), ('gens_parse', 'bad-%s-%s' % (cls, pcl))))
            if k >= 2:
                e2 = list(encs); e2[0] = e2[1]
                cases.append(('bppp_gens_parse ' + hx(b''.join(e2)), ('gens_parse', 'duplicate-entry')))
                e2 = list(encs); e2[0] = bytes([e2[0][0] ^ 1]) + e2[0][1:]
                cases.append(('bppp_gens_parse ' + hx(b''.join(e2)), ('gens_parse', 'sign-toggled')))
    for ln in [1, 2, 32, 34, 65, 67]:
        cases.append(('bppp_gens_parse ' + hx(rng.bytes(ln)), ('gens_parse', 'garbage-len%d' % ln)))

    # ------------------------------------------------------------------ commit
    sizes = [1, 2, 4, 8, 16] + ([32, 64] if thorough else [])
    for _ in range(24 * mult):
        n = rng.choice(sizes[:4]); l = rng.choice(sizes[:4])
        kn, kl, kc = rng.choice(VEC_KINDS), rng.choice(VEC_KINDS), rng.choice(VEC_KINDS)
        rho = rng.choice(RHO_EDGE + [rng.rand256()] * 6)
        extra = rng.choice([0, 0, 1, 7])
        cases.append(('bppp_commit %s %s / %s / %s / %s / %d' % (rng.choice(SCRATCH_P), h32(rho), vs(vec(rng, n, kn)), vs(vec(rng, l, kl)), vs(vec(rng, l, kc)), n + l + extra),
                      ('commit', '%s-%s-%s%s' % (kn, kl, kc, '-extragens' if extra else ''))))
    cases.append(('bppp_commit _ %s / %s / %s / %s / 2' % (h32(0), h32(0), h32(0), h32(0)), ('commit', 'infinity')))

    # ------------------------------------------------------------------ prove (first pass through the model)
    plan = []   # (n, l, kinds, rho, transcript, scratch, class, mutate: 0 none / 1 light / 2 full)
    grid = [(n, l) for n in sizes for l in sizes]
    for (n, l) in grid:
        big = n * l >= 64 or n + l > 20
        full = (not big) if thorough else (n, l) in [(1, 1), (2, 2), (1, 4), (4, 2)]
        plan.append((n, l, ('rand', 'rand', 'rand'), rng.rand256() % N or 1, transcript(rng), rng.choice(SCRATCH_P), 'grid-%dx%d' % (n, l),
                     2 if full else 1))
    small = [(1, 1), (1, 2), (2, 1), (2, 2), (4, 2), (2, 4), (4, 4), (1, 8), (8, 1)]
    for rho in RHO_EDGE:
        for (n, l) in rng.sample(small, 2 if not thorough else 5):
            plan.append((n, l, ('rand', 'rand', 'rand'), rho, transcript(rng), rng.choice(SCRATCH_P), 'rho-%s' % ('zero' if rho % N == 0 else 'over' if rho >= N else 'edge'), 1))
    for kinds in [('zero', 'zero', 'zero'), ('zero', 'rand', 'rand'), ('rand', 'zero', 'rand'), ('rand', 'rand', 'zero'), ('zero', 'zero', 'rand'),
                  ('edge', 'edge', 'edge'), ('max', 'max', 'max'), ('ones', 'ones', 'ones'), ('over', 'over', 'over'), ('unit', 'unit', 'unit'), ('zero', 'unit', 'unit'), ('unit', 'zero', 'zero')]:
        for (n, l) in rng.sample(small + [(8, 8)], 2 if not thorough else 6):
            plan.append((n, l, kinds, rng.rand256() % N or 1, transcript(rng), rng.choice(SCRATCH_P), 'vec-' + '-'.join(kinds), 2 if kinds == ('zero', 'zero', 'zero') and (thorough or not any(m[7] == 2 and m[6].startswith('vec-zero') for m in plan)) else 1))
    for pl in PREFIX_LENS:
        for tagged in ('', 't'):
            n, l = rng.choice(small)
            plan.append((n, l, ('rand', 'edge', 'rand'), rng.rand256() % N or 1, tagged + hx(rng.bytes(pl)), rng.choice(SCRATCH_P), 'prefix-len%d%s' % (pl, '-tagged' if tagged else ''), 0))
    for s in ['_', '0', '1', '16', '1000', '4096', '65536', '4000000']:
        n, l = rng.choice(small + [(8, 8), (16, 4)])
        plan.append((n, l, ('rand', 'rand', 'rand'), rng.rand256() % N or 1, transcript(rng), s, 'prover-scratch-%s' % ('null' if s == '_' else s), 0))
    for _ in range(10 * (mult - 1)):
        n, l = rng.choice(grid)
        plan.append((n, l, tuple(rng.choice(VEC_KINDS) for _ in range(3)), rng.choice(RHO_EDGE + [rng.rand256()] * 8), transcript(rng), rng.choice(SCRATCH_P), 'random', rng.choice([0, 1, 1, 2])))

    lines, meta = [], []
    for (n, l, kinds, rho, tr, scr, cls, mut) in plan:
        nv, lv, cv = vec(rng, n, kinds[0]), vec(rng, l, kinds[1]), vec(rng, l, kinds[2])
        lines.append('bppp_prove %s %s %s / %s / %s / %s' % (scr, tr, h32(rho), vs(nv), vs(lv), vs(cv)))
        meta.append((n, l, rho, tr, cv, cls, mut))
        cases.append((lines[-1], ('prove', cls)))
    outs = ctx.model(lines)
    nfull = 0
    for o, (n, l, rho, tr, cv, cls, mut) in zip(outs, meta):
        f = o.split(' ')
        if len(f) != 5 or f[0] != '1' or f[2] == '-': continue
        proof = bytes.fromhex(f[2]) if f[2] != '-' else b''
        b = Base(tr, rho, n, l, cv, proof, f[3], cls)
        if mut == 0:
            cases.append((b.line(), ('verify', 'honest')))
            continue
        cases += mutations(rng, b, mut == 2)
    return cases
