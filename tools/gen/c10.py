"""C10: range-proof verification on adversarial inputs.
Base proofs come from the model in a first pass (ctx.model): library-made proofs (`rangeproof_sign`), proofs of a
reference prover that chooses every free value (`rangeproof_mk_adv`, model only: small forged scalars, chosen nonces
and blinds, arbitrary header fields incl. exponent 19, reserved bit, overflowing ranges) and proofs of a prover that
knows the rewind nonce (`rangeproof_genrand`, model only) and embeds chosen value/message side channels.
Each base proof and its mutations go to rangeproof_verify / rangeproof_info / rangeproof_rewind on both sides."""
from .common import *
from .c08 import HGEN, commit_bytes, commit_pt
from .c09 import est_params, sign_line, pick_extra, U64MAX, I64MAX


def layout(m):
    if m == 0: return 1, [1], 1
    full = m // 2
    if m & 1: return full + 1, [4] * full + [2], 4 * full + 2
    return full, [4] * full, 4 * full


def header_bytes(exp, mant, minv, hdr_or=0):
    b0 = ((64 | exp) if mant else 0) | (32 if minv else 0) | hdr_or
    return bytes([b0]) + (bytes([mant - 1]) if mant else b'') + (minv.to_bytes(8, 'big') if minv else b'')


def digits_of(v, rings): return [(v >> (2 * i)) & 3 for i in range(rings)]


def mk_adv_line(hdr_or, exp, mant, minv, gen, extra, secidx, sec, k, s):
    return 'rangeproof_mk_adv %d %d %d %d %s %s / %s / %s / %s / %s' % (hdr_or, exp, mant, minv, pt(gen), opt(extra), ' '.join(map(str, secidx)),
            ' '.join(map(h32, sec)), ' '.join(map(h32, k)), ' '.join(map(h32, s)))


class Base:
    """a proof together with what is needed to address its fields"""
    def __init__(self, kind, commit, proof, extra, gen, mant, has_min, nonce=None, forged=None, expect=None):
        self.kind, self.commit, self.proof, self.extra, self.gen, self.mant, self.nonce = kind, commit, proof, extra, gen, mant, nonce
        self.rings, self.rsizes, self.npub = layout(mant)
        self.hdr = (2 if mant else 1) + (8 if has_min else 0)
        self.nsign = (self.rings + 6) >> 3
        self.xoff = self.hdr + self.nsign
        self.e0off = self.xoff + 32 * (self.rings - 1)
        self.soff = self.e0off + 32
        self.forged = forged or []      # flat indices of forged (small) scalars
        self.expect = expect


SMALL_ON = [x for x in range(1, 60) if lift_x(x) is not None]
SMALL_OFF = [x for x in range(0, 60) if lift_x(x) is None]


def put(p, off, b): return p[:off] + b + p[off + len(b):]
def flip(rng, p, off, ln):
    """flip one random bit inside p[off:off+ln]"""
    k = rng.randint(0, ln * 8 - 1)
    return put(p, off + k // 8, bytes([p[off + k // 8] ^ (1 << (k % 8))]))


def mutations(rng, b, tier, budget):
    """list of (class, proof bytes). `budget`: number of mutations that reach the ring equation (model cost 2*npub mults each)"""
    p = b.proof
    cheap = []      # rejected (or decided) before any curve arithmetic
    costly = []
    cheap += [('trail+00', p + b'\0'), ('trail+ff', p + b'\xff'), ('trail+32', p + rng.bytes(32)), ('trail+33', p + rng.bytes(33)),
              ('trunc-1', p[:-1]), ('trunc-32', p[:-32]), ('trunc-33', p[:-33]), ('trunc64', p[:64]), ('trunc65', p[:65]), ('trunc1', p[:1]), ('empty', b'')]
    # header
    for bit in range(8):
        (cheap if bit in (7,) else costly).append(('hdr0-bit%d' % bit, put(p, 0, bytes([p[0] ^ (1 << bit)]))))
    cheap.append(('hdr-reserved', put(p, 0, bytes([p[0] | 128]))))
    if b.mant:
        for e in (19, 20, 31):
            cheap.append(('hdr-exp%d' % e, put(p, 0, bytes([(p[0] & 0xE0) | e]))))
        costly.append(('hdr-exp+1', put(p, 0, bytes([(p[0] & 0xE0) | (((p[0] & 31) + 1) & 31)]))))
        for mbyte in (64, 65, 255, 128):
            cheap.append(('hdr-mant%d' % (mbyte + 1), put(p, 1, bytes([mbyte]))))
        cheap.append(('hdr-mant+1', put(p, 1, bytes([(p[1] + 1) & 255]))))
        if p[1] > 0: cheap.append(('hdr-mant-1', put(p, 1, bytes([p[1] - 1]))))
    if b.hdr >= 9:
        o = b.hdr - 8
        costly.append(('hdr-min+1', put(p, o, ((int.from_bytes(p[o:o + 8], 'big') + 1) & U64MAX).to_bytes(8, 'big'))))
        cheap.append(('hdr-min-max', put(p, o, b'\xff' * 8)))
        costly.append(('hdr-min-bit', flip(rng, p, o, 8)))
    # sign bits
    used = b.rings - 1
    for i in range(b.nsign * 8):
        q = put(p, b.hdr + i // 8, bytes([p[b.hdr + i // 8] ^ (1 << (i % 8))]))
        if i < used:
            if i < 2 or i == used - 1 or rng.random() < 0.2: costly.append(('sign-flip', q))
        else: cheap.append(('sign-spare%d' % (i - used), q))
    if b.nsign and used % 8: cheap.append(('sign-spare-all', put(p, b.hdr + b.nsign - 1, bytes([p[b.hdr + b.nsign - 1] | (0xff << (used % 8)) & 0xff]))))
    # digit commitments
    if used:
        i = rng.randint(0, used - 1); o = b.xoff + 32 * i
        xo = rng.choice(SMALL_ON)
        costly.append(('x-small-oncurve', put(p, o, xo.to_bytes(32, 'big'))))
        cheap.append(('x-small+P', put(p, o, (xo + P).to_bytes(32, 'big'))))
        cheap.append(('x-offcurve+P', put(p, o, (rng.choice(SMALL_OFF) + P).to_bytes(32, 'big'))))
        cheap.append(('x=P', put(p, o, P.to_bytes(32, 'big'))))
        cheap.append(('x=2^256-1', put(p, o, b'\xff' * 32)))
        cheap.append(('x-offcurve', put(p, o, rng.choice(SMALL_OFF).to_bytes(32, 'big'))))
        x = int.from_bytes(p[o:o + 32], 'big')
        if x + P < M256: cheap.append(('x+P-fits', put(p, o, (x + P).to_bytes(32, 'big'))))
        costly.append(('x-bitflip', flip(rng, p, o, 32)))
        if used >= 2:
            j = (i + 1) % used; oj = b.xoff + 32 * j
            costly.append(('x-swap', put(put(p, o, p[oj:oj + 32]), oj, p[o:o + 32])))
    # e0
    costly.append(('e0-bitflip', flip(rng, p, b.e0off, 32)))
    # ring scalars
    idxs = list(range(b.npub)); rng.shuffle(idxs)
    for j in b.forged:
        o = b.soff + 32 * j; s = int.from_bytes(p[o:o + 32], 'big')
        if s + N < M256: cheap.append(('s+N-forged', put(p, o, (s + N).to_bytes(32, 'big'))))
    for j in idxs[:3]:
        o = b.soff + 32 * j; s = int.from_bytes(p[o:o + 32], 'big')
        if s + N < M256 and j not in b.forged: cheap.append(('s+N', put(p, o, (s + N).to_bytes(32, 'big'))))
        cheap.append(('s=N', put(p, o, N.to_bytes(32, 'big'))))
        cheap.append(('s=2^256-1', put(p, o, b'\xff' * 32)))
        cheap.append(('s=0', put(p, o, bytes(32))))          # decided at the first ring step of that ring at the latest
        costly.append(('s=N-1', put(p, o, (N - 1).to_bytes(32, 'big'))))
        costly.append(('s-bitflip', flip(rng, p, o, 32)))
    if b.npub >= 2:
        o = b.soff; costly.append(('s-swap', put(put(p, o, p[o + 32:o + 64]), o + 32, p[o:o + 32])))
    # random single-bit flips over the whole proof
    for _ in range(6):
        costly.append(('bitflip', flip(rng, p, 0, len(p))))
    rng.shuffle(costly)
    return [('identity', p)] + cheap + costly[:budget]


def emit(cases, rng, b, cls, proof, fam_prefix=''):
    c, g, ex = hx(b.commit), pt(b.gen), opt(b.extra)
    ph = hx(proof)
    cases.append(('rangeproof_verify %s %s %s %s' % (c, ph, ex, g), (fam_prefix + 'verify', b.kind + ':' + cls)))
    if cls.startswith(('hdr', 'trunc', 'empty', 'identity', 'trail')):
        cases.append(('rangeproof_info %s' % ph, (fam_prefix + 'info', b.kind + ':' + cls)))
    if cls == 'identity' or rng.random() < 0.25:
        nonce = b.nonce or rng.bytes(32)
        cases.append(('rangeproof_rewind %s %s %s %s %s %s' % (c, ph, hx(nonce), ex, g, rng.choice(['4096', '4096', '64', '0', '_'])), (fam_prefix + 'rewind', b.kind + ':' + cls)))


def generate(rng, tier, ctx):
    cases = []
    n = {'quick': 1, 'thorough': 5}[tier]
    gens = [HGEN, pmul(rng.seckey(), G), pmul(rng.seckey(), G)]
    bases = []

    # ---- library-made proofs ------------------------------------------------------------------------------
    lib = []   # (minv, exp, min_bits, value)
    lib += [(0, -1, 0, 0), (0, -1, 0, 77), (0, 0, 0, 0), (0, 0, 0, 1), (0, 0, 2, 2), (0, 0, 0, 5), (3, 0, 0, 12), (0, 1, 0, 157), (7, 2, 5, 4007),
            (0, 0, 6, 33), (0, 0, 17, 5), (5, 0, 18, 100), (0, 0, 19, 99), (0, 0, 15, 1), (0, 0, 16, 1)]
    if tier != 'quick': lib += [(0, 0, 64, U64MAX), (0, 0, 33, 1), (0, 18, 0, I64MAX), (1, 0, 62, 5)]
    else: lib += [(0, 0, 64, 12345)]
    first = []
    for (mv, e, mb, v) in lib:
        est = est_params(mv, e, mb, v); g = rng.choice(gens); bl = rng.rand256() % N or 1; nonce = rng.bytes(32); extra = pick_extra(rng)
        msg = rng.bytes(min(est['cap'], rng.choice([0, 5, 40])))
        first.append((sign_line(mv, bl, nonce, e, mb, v, msg, extra, g, 5134), commit_bytes(commit_pt(bl, v, g)), nonce, extra, g, est))
    outs = ctx.model([f[0] for f in first])
    for (l, c, nonce, extra, g, est), o in zip(first, outs):
        t = o.split(' ')
        if t[0] != '1': continue
        bases.append(Base('lib-m%d' % est['mant'], c, bytes.fromhex(t[2]), extra, g, est['mant'], est['minv'] != 0, nonce=nonce, expect=1))

    # ---- reference prover with chosen free values -----------------------------------------------------------
    adv = []   # (class, hdr_or, exp, mant, minv, expect)
    adv += [('plain-m%d' % m, 0, 0, m, 0, 1) for m in (0, 1, 2, 3, 4, 5, 6)]
    adv += [('plain-m17', 0, 0, 17, 0, 1), ('plain-m18', 0, 2, 18, 9, 1), ('min', 0, 0, 3, 1000, 1), ('exact-min', 0, 0, 0, 55, 1)]
    adv += [('exp18-m4', 0, 18, 4, 0, 1), ('exp18-m4-minedge', 0, 18, 4, U64MAX - 15 * 10 ** 18, 1), ('exp18-m4-minover', 0, 18, 4, U64MAX - 15 * 10 ** 18 + 1, 0),
            ('exp18-m5-scaleover', 0, 18, 5, 0, 0), ('exp17-m5', 0, 17, 5, 0, 1),
            ('minmax-edge', 0, 0, 4, U64MAX - 15, 1), ('minmax-overflow', 0, 0, 4, U64MAX - 14, 0), ('minmax-overflow-big', 0, 0, 3, U64MAX, 0),
            ('exact-min-max', 0, 0, 0, U64MAX, 1), ('m1-minmax-edge', 0, 0, 1, U64MAX - 1, 1), ('m1-minmax-over', 0, 0, 1, U64MAX, 0),
            ('exp19-m1', 0, 19, 1, 0, 0), ('exp19-m1-min', 0, 19, 1, 5, 0), ('exp20-m1', 0, 20, 1, 0, 0), ('exp31-m2', 0, 31, 2, 0, 0),
            ('reserved-bit', 128, 0, 3, 0, 0), ('reserved-bit-exact', 128, 0, 0, 9, 0), ('reserved-bit-min', 128, 1, 2, 77, 0)]
    if tier != 'quick': adv += [('plain-m64', 0, 0, 64, 0, 1), ('m64-exp1-scaleover', 0, 1, 64, 0, 0), ('m63-min-edge', 0, 0, 63, 1 << 63, 1), ('m63-min-over', 0, 0, 63, (1 << 63) + 1, 0)]
    adv = adv * n
    first = []
    for (cls, hdr_or, e, m, mv, expect) in adv:
        rings, rsizes, npub = layout(m)
        g = rng.choice(gens); extra = pick_extra(rng)
        v = rng.randint(0, (1 << m) - 1) if m else 0
        secidx = digits_of(v, rings)
        sec = [rng.choice([1, 2, rng.rand256() % N or 1, rng.rand256() % N or 1]) for _ in range(rings)]
        k = [rng.choice([1, rng.rand256() % N or 1, rng.rand256() % N or 1]) for _ in range(rings)]
        s = [rng.choice([1, 2, 3, rng.randint(1, 1 << 64), rng.randint(1, M256 - N - 1)]) for _ in range(npub)]
        forged = [4 * i + j for i in range(rings) for j in range(rsizes[i]) if j != secidx[i]]
        first.append((mk_adv_line(hdr_or, e, m, mv, g, extra, secidx, sec, k, s), cls, extra, g, m, mv, forged, expect))
        # the prover may also choose a forged scalar of ZERO: the ring equation still closes, but a zero scalar must be
        # rejected wherever it sits (every flat position, not only the first `rings` ones)
        if cls.startswith('plain-m') and 2 <= m <= 6:
            for q in sorted(set(([f for f in forged if f >= rings][:1]) + forged[:1] + forged[-1:])):
                s0 = list(s); s0[q] = 0
                first.append((mk_adv_line(hdr_or, e, m, mv, g, extra, secidx, sec, k, s0), 'zero-forged-pos%d-m%d' % (q, m), extra, g, m, mv, [f for f in forged if f != q], 0))
    outs = ctx.model([f[0] for f in first])
    for (l, cls, extra, g, m, mv, forged, expect), o in zip(first, outs):
        t = o.split(' ')
        if t[0] != '1': continue
        bases.append(Base('adv-' + cls, bytes.fromhex(t[1]), bytes.fromhex(t[2]), extra, g, m, mv != 0, forged=forged, expect=expect))

    # ---- mutations ------------------------------------------------------------------------------------------
    for b in bases:
        budget = (14 if b.npub <= 12 else 6 if b.npub <= 40 else 2) * (1 if tier == 'quick' else 3)
        for cls, proof in mutations(rng, b, tier, budget):
            emit(cases, rng, b, cls, proof)
        # the same proof under other extra data / commitment / generator
        c, g, ex, ph = hx(b.commit), pt(b.gen), b.extra, hx(b.proof)
        if b.npub <= 40:
            alt = []
            alt.append(('extra-null-vs-empty', c, '-' if ex is None else '_' if ex == b'' else hx(ex), g))
            alt.append(('extra-append0', c, hx((ex or b'') + b'\0'), g))
            if ex: alt.append(('extra-bitflip', c, hx(put(ex, 0, bytes([ex[0] ^ 1]))), g)); alt.append(('extra-dropped', c, '_', g))
            alt.append(('commit-neg', hx(bytes([b.commit[0] ^ 1]) + b.commit[1:]), opt(ex), g))
            alt.append(('commit-other', hx(commit_bytes(rng.point())), opt(ex), g))
            other = gens[(gens.index(b.gen) + 1) % 3]
            alt.append(('gen-neg', c, opt(ex), pt(pneg(b.gen)))); alt.append(('gen-other', c, opt(ex), pt(other)))
            for (cls, c2, ex2, g2) in alt:
                cases.append(('rangeproof_verify %s %s %s %s' % (c2, ph, ex2, g2), ('verify', b.kind + ':' + cls)))
                if b.nonce and rng.random() < 0.4:
                    cases.append(('rangeproof_rewind %s %s %s %s %s 4096' % (c2, ph, hx(b.nonce), ex2, g2), ('rewind', b.kind + ':' + cls)))

    # ---- prover that knows the rewind nonce: chosen value / message side channels ------------------------------
    specs = []
    kinds = ['consistent', 'consistent', 'wrongpos', 'value-mismatch', 'value-highbits', 'value-wrap', 'msg-lastring', 'no-encoding', 'digit-oob']
    for _ in range(5 * n):
        for kind in kinds:
            m = rng.choice([1, 2, 3, 4, 5, 6, 7])
            if kind == 'digit-oob': m = rng.choice([1, 3, 5, 7])
            if kind == 'value-mismatch': m = rng.choice([3, 4, 5, 6, 7])
            e = rng.choice([0, 0, 1, 3]); mv = rng.choice([0, 0, 12])
            if kind == 'value-wrap': e = rng.choice([1, 2, 5])
            specs.append((kind, m, e, mv))
    first = []
    for (kind, m, e, mv) in specs:
        rings, rsizes, npub = layout(m)
        g = rng.choice(gens); extra = pick_extra(rng); nonce = rng.bytes(32); bl = rng.rand256() % N or 1
        v = rng.randint(0, (1 << m) - 1)
        value = mv + v * 10 ** e
        cp = commit_pt(bl, value, g)
        hdr = header_bytes(e, m, mv)
        first.append(('rangeproof_genrand %s %s %s %s %d' % (hx(nonce), hx(commit_bytes(cp)), hx(hdr), pt(g), m), kind, m, e, mv, g, extra, nonce, bl, v, commit_bytes(cp)))
    outs = ctx.model([f[0] for f in first])
    second = []
    for (l, kind, m, e, mv, g, extra, nonce, bl, v, cb), o in zip(first, outs):
        rings, rsizes, npub = layout(m)
        parts = o.split(' / ')
        if len(parts) != 3 or parts[0] != '1': continue
        secs = [int(x, 16) for x in parts[1].split(' ')]
        blocks = [bytes.fromhex(x) for x in parts[2].split(' ')]
        secidx = digits_of(v, rings)
        sec = secs[:-1] + [(bl - sum(secs[:-1])) % N]
        rs_last = rsizes[-1]; enc = rs_last - 1 - (1 if secidx[-1] == rs_last - 1 else 0)
        shift = 2 * (rings - 1)
        emb = v
        if kind == 'wrongpos': emb = (v & ~(3 << shift)) | (enc << shift)
        if kind == 'value-mismatch': emb = v ^ 1                      # another digit in ring 0, same last digit
        if kind == 'value-highbits': emb = v | (1 << rng.randint(2 * rings, 62))   # bits no ring looks at
        if kind == 'value-wrap': emb = v | (1 << 63)
        if kind == 'digit-oob': emb = (v & ~(3 << shift)) | (rng.choice([2, 3]) << shift)
        prep = [bytes(32)] * npub
        msg_blocks = list(range(4 * (rings - 1)))
        if kind == 'msg-lastring': msg_blocks = [j for j in range(npub)]
        for j in msg_blocks:
            if rng.random() < 0.7: prep[j] = rng.bytes(32) if rng.random() < 0.8 else rng.bytes(5) + bytes(27)
        pos_enc = 4 * (rings - 1) + enc
        if kind != 'no-encoding': prep[pos_enc] = b'\x80' + bytes(7) + emb.to_bytes(8, 'big') * 3
        else: prep[pos_enc] = rng.bytes(32)
        if kind == 'msg-lastring': prep[4 * (rings - 1) + secidx[-1]] = bytes(32)   # the blinding-factor slot must stay zero
        sv = [int.from_bytes(bytes(a ^ c for a, c in zip(blocks[j], prep[j])), 'big') for j in range(npub)]
        if any(x == 0 or x >= N for x in sv): continue
        k = [sv[4 * i + secidx[i]] for i in range(rings)]
        second.append((mk_adv_line(0, e, m, mv, g, extra, secidx, sec, k, sv), kind, m, mv, g, extra, nonce, cb))
    outs = ctx.model([f[0] for f in second])
    for (l, kind, m, mv, g, extra, nonce, cb), o in zip(second, outs):
        t = o.split(' ')
        if t[0] != '1' or bytes.fromhex(t[1]) != cb: continue
        b = Base('nonce-' + kind, cb, bytes.fromhex(t[2]), extra, g, m, mv != 0, nonce=nonce)
        c, gg, ex, ph = hx(cb), pt(g), opt(extra), t[2]
        cases.append(('rangeproof_verify %s %s %s %s' % (c, ph, ex, gg), ('verify', 'nonce-adv:' + kind)))
        for mbuf in ['4096', rng.choice(['0', '1', '32', '33', '64', '_'])]:
            cases.append(('rangeproof_rewind %s %s %s %s %s %s' % (c, ph, hx(nonce), ex, gg, mbuf), ('rewind_adv', kind + '-m%d' % (m & 1))))

    # ---- headers: every first byte x mantissa byte x min-value pattern (info only, no curve arithmetic) ---------
    mant_bytes = [0, 1, 2, 3, 4, 5, 57, 58, 59, 60, 61, 62, 63, 64, 127, 255]
    mins = [0, 1, U64MAX, 1 << 63]
    tail = rng.bytes(80)
    for b0 in range(256):
        for mbyte in mant_bytes:
            for mv in mins:
                p = bytes([b0, mbyte]) + mv.to_bytes(8, 'big') + tail
                if not (b0 & 64): p = bytes([b0]) + mv.to_bytes(8, 'big') + tail
                cases.append(('rangeproof_info %s' % hx(p[:rng.choice([65, 66, 80])]), ('info', 'grid-b0=%02x' % b0)))
    # min + max boundary for each exponent / mantissa: min = 2^64-1-max (accept) and one more (reject)
    for e in range(0, 19):
        for m in range(1, 65):
            mx = ((1 << m) - 1) * 10 ** e
            if mx > U64MAX: continue
            for d in (0, 1):
                mv = U64MAX - mx + d
                if mv == 0 or mv > U64MAX: continue
                cases.append(('rangeproof_info %s' % hx(header_bytes(e, m, mv) + tail), ('info', 'minmax-edge%+d' % d)))
    for ln in [0, 1, 2, 63, 64, 65]:
        cases.append(('rangeproof_info %s' % hx((b'\x40\x00' + tail)[:ln]), ('info', 'len%d' % ln)))

    # ---- structurally well-formed garbage: right length, random content -----------------------------------------
    for _ in range(60 * n):
        m = rng.choice([0, 1, 2, 3, 4, 5, 6]); e = rng.choice([0, 1, 18]) if m else 0; mv = rng.choice([0, 0, 5])
        rings, rsizes, npub = layout(m)
        hdr = header_bytes(e, m, mv)
        xs = b''.join((rng.point()[0] if rng.random() < 0.8 else rng.rand256()).to_bytes(32, 'big') for _ in range(rings - 1))
        signs = bytes([rng.randint(0, (1 << (rings - 1)) - 1)]) if rings > 1 else b''
        body = hdr + signs + xs + rng.bytes(32) + b''.join((rng.rand256() % N).to_bytes(32, 'big') for _ in range(npub))
        c = hx(commit_bytes(rng.point())); g = rng.choice(gens)
        cases.append(('rangeproof_verify %s %s %s %s' % (c, hx(body), opt(pick_extra(rng)), pt(g)), ('verify', 'garbage-m%d' % m)))
        if rng.random() < 0.3:
            cases.append(('rangeproof_rewind %s %s %s _ %s 4096' % (c, hx(body), hx(rng.bytes(32)), pt(g)), ('rewind', 'garbage')))
    return cases
