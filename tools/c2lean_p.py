#!/usr/bin/env python3
"""tools/c2lean_p: mode P of the translator — protocol cores as programs over ALGEBRAIC values (AlgIR).

Reads clang's typed AST of the scalar/point-level core functions (secp256k1_ecdsa_sig_verify, _sig_sign, _sig_recover, …)
in the current working tree and emits `lean/SecpZkp/Gen/P_<set>.lean`: one `AlgIR.Stmt` per call of a scalar / field /
group / conversion primitive, integer flags as MiniC expressions. Anything outside the fragment is a translation error."""
import os, re, json, sys
sys.path.insert(0, os.path.dirname(os.path.abspath(__file__)))
import c2lean_k as K
import c2lean_f as F
from c2lean_k import Unsupported, lit, var


def unidx(e):
    """`*p` on an int out-parameter is modelled as the integer variable p"""
    if not isinstance(e, tuple): return e
    if e[0] == 'idx' and e[2] == ('lit', 0): return ('var', e[1])
    return tuple(unidx(x) if isinstance(x, tuple) else x for x in e)


def pfold(e):
    """constant folding for integer expressions (mode P only: mode K output must stay byte-stable for its proofs)"""
    if not isinstance(e, tuple): return e
    k = e[0]
    if k == 'lnot':
        a = pfold(e[1])
        return lit(0 if a[1] else 1) if a[0] == 'lit' else ('lnot', a)
    if k == 'cond':
        c, a, b = pfold(e[1]), pfold(e[2]), pfold(e[3])
        if c[0] == 'lit': return a if c[1] else b
        return ('cond', c, a, b)
    if k == 'bin':
        a, b = pfold(e[3]), pfold(e[4])
        if a[0] == 'lit' and b[0] == 'lit':
            w = e[2]; m = (1 << w) - 1; x, y = a[1], b[1]
            r = {'add': (x + y) & m, 'sub': (x - y) & m, 'mul': (x * y) & m, 'and': x & y, 'or': x | y, 'xor': x ^ y,
                 'shl': (x << y) & m, 'shr': x >> y, 'lt': int(x < y), 'le': int(x <= y), 'eq': int(x == y), 'ne': int(x != y)}.get(e[1])
            if r is not None: return lit(r)
        return ('bin', e[1], e[2], a, b)
    if k in ('cast',):
        a = pfold(e[2])
        return lit(a[1] & ((1 << e[1]) - 1)) if a[0] == 'lit' else (k, e[1], a)
    return e


class PTranslator(F.FTranslator):
    sliced = ('sig64',)        # byte-array parameters that the code addresses as 32-byte slices

    def name_of(self, n, env):
        lv = self.pointer(n, env)
        if lv == ('null',): return '@null'        # an optional argument passed as NULL (e.g. no G term in secp256k1_ecmult): never assigned, reads as 0
        if lv[0] in ('struct', 'array', 'var'): return lv[1]
        if lv[0] == 'elem' and lv[2][0] == 'lit':          # `&sig64[32]`: a 32-byte slice, named by its offset
            return lv[1] if (lv[2][1] == 0 and lv[1] not in self.sliced) else '%s@%d' % (lv[1], lv[2][1])
        raise Unsupported('argument ' + str(lv))

    def call(self, n, env, out, want_value=False):
        name = self.callee_name(n)
        a = n['inner'][1:]
        short = name.replace('secp256k1_fe_impl_', 'fe_').replace('secp256k1_', '')
        V = lambda i: self.name_of(a[i], env)
        S = lambda *t: (out.append(('alg',) + t), (lit(0), (32, True)))[1]
        def T(op, *args):
            tmp = self.fresh(op); out.append(('alg', op, tmp) + args); return var(tmp), (32, True)
        if short == 'scalar_is_zero': return T('scIsZero', V(0))
        if short == 'scalar_is_high': return T('scIsHigh', V(0))
        if short in ('scalar_inverse', 'scalar_inverse_var'): return S('scInv', V(0), V(1))
        if short == 'scalar_mul': return S('scMul', V(0), V(1), V(2))
        if short == 'scalar_add': return S('scAdd', V(0), V(1), V(2))
        if short == 'scalar_negate': return S('scNeg', V(0), V(1))
        if short == 'scalar_clear': return S('scClear', V(0))
        if short == 'scalar_cond_negate':
            e, t = self.expr(a[1], env, out); return S('scCondNeg', V(0), unidx(K.fold(e)))
        if short == 'scalar_set_b32':
            ov = None if self.pointer(a[2], env) == ('null',) else self.name_of(a[2], env)
            return S('scOfBytes', V(0), V(1), ('opt', ov))
        if short == 'scalar_get_b32': return S('bytesOfSc', V(0), V(1))
        if short == 'fe_set_b32_mod': return S('feOfBytesMod', V(0), V(1))
        if short == 'fe_set_b32_limit':
            tmp = self.fresh('lim'); out.append(('alg', 'feOfBytesLimit', tmp, V(0), V(1))); return var(tmp), (32, True)
        if short == 'fe_get_b32': return S('bytesOfFe', V(0), V(1))
        if short == 'fe_add': return S('feAdd', V(0), V(1))
        if short in ('fe_normalize', 'fe_normalize_var', 'fe_normalize_weak'): return S('feNorm', V(0))
        if short == 'fe_cmp_var': return T('feCmp', V(0), V(1))
        if short == 'fe_is_odd': return T('feIsOdd', V(0))
        if short in ('gej_set_ge', 'ge_set_gej', 'ge_set_gej_var'): return S('ptSet', V(0), V(1))
        if short in ('gej_clear', 'ge_clear'): return S('ptClear', V(0))
        if short in ('gej_add_var', 'gej_add_ge_var', 'gej_add_ge'): return S('ptAdd', V(0), V(1), V(2))
        if short in ('gej_neg', 'ge_neg'): return S('ptNeg', V(0), V(1))
        if short in ('gej_set_infinity', 'ge_set_infinity'): return S('ptClear', V(0))
        if short == 'ecmult': return S('ecmult', V(0), V(1), V(2), V(3))
        if short == 'ecmult_gen': return S('ecmultGen', V(1), V(2))
        if short in ('gej_is_infinity', 'ge_is_infinity'): return T('ptIsInf', V(0))
        if short == 'gej_eq_x_var': return T('eqX', V(0), V(1))
        if short == 'ge_set_xo_var':
            e, t = self.expr(a[2], env, out)
            tmp = self.fresh('lift'); out.append(('alg', 'liftX', tmp, V(0), V(1), unidx(K.fold(e)))); return var(tmp), (32, True)
        if name == '__builtin_expect': return self.expr(a[0], env, out)
        if short == 'ecdsa_signature_load':      # the signature OBJECT is the pair of scalars <obj>.r, <obj>.s
            o = V(3); out.append(('alg', 'scSet', V(1), o + '.r')); out.append(('alg', 'scSet', V(2), o + '.s')); return lit(0), (32, True)
        if short == 'ecdsa_signature_save':
            o = V(0); out.append(('alg', 'scSet', o + '.r', V(1))); out.append(('alg', 'scSet', o + '.s', V(2))); return lit(0), (32, True)
        if short == 'ecmult_gen_context_is_built': return lit(1), (32, True)      # translated for a fully built context
        if short == 'memczero':                  # secp256k1_memczero(obj, sizeof, flag): the all-zero object if flag
            tgt = self.pointer(a[0], env); e, t = self.expr(a[2], env, out)
            if tgt[0] != 'struct': raise Unsupported('memczero on ' + str(tgt))
            out.append(('ite', pfold(unidx(K.fold(e))), [('alg', 'ptClear', tgt[1])], [])); return lit(0), (32, True)
        if short == 'scalar_set_b32_seckey':
            tmp = self.fresh('sk'); out.append(('alg', 'scOfBytesSeckey', tmp, V(0), V(1))); return var(tmp), (32, True)
        if short == 'scalar_cmov':
            e, t = self.expr(a[2], env, out); return S('scCmov', V(0), V(1), pfold(unidx(K.fold(e))))
        if short in ('pubkey_save', 'xonly_pubkey_save'): return S('ptSet', V(0), V(1))
        if name == 'memset':
            tgt = self.pointer(a[0], env)
            if tgt[0] == 'struct': return S('ptClear', tgt[1])          # memset(pubkey, 0, sizeof(*pubkey)): the all-zero object
            raise Unsupported('memset on ' + str(tgt))
        if short in ('xonly_pubkey_load', 'pubkey_load'): return T('ptLoad', V(1), V(2))
        if short == 'fe_equal': return T('feEqual', V(0), V(1))
        if short == 'schnorrsig_challenge': return S('challenge', V(1), V(2), V(3), V(5))
        if short == 'callback_call':
            out.append(('assign', 'illegal', ('bin', 'add', 32, var('illegal'), lit(1)))); return lit(0), (32, True)
        if name.startswith('secp256k1_fe_') or name.startswith('secp256k1_scalar_') or name.startswith('secp256k1_ge') or name.startswith('secp256k1_ecmult') \
                or name in ('memcpy', 'memset', 'secp256k1_memclear_explicit', 'secp256k1_memcmp_var'):
            raise Unsupported('primitive outside the AlgIR fragment: ' + name)
        sub = []                                                     # another library function: inlined as a scope
        r = self.call_inline_scoped(n, env, sub, want_value)
        out.append(('scope', sub))
        return r

    def expr(self, n, env, out=None):
        # relational operators on (signed) int: compare with the sign bit flipped, which orders 32-bit two's-complement
        # values correctly under the IR's unsigned comparison (needed for `secp256k1_fe_cmp_var(..) >= 0`)
        m = n
        while m['kind'] == 'ParenExpr': m = m['inner'][0]
        if m['kind'] == 'BinaryOperator' and m.get('opcode') in ('<', '<=', '>', '>=') and \
                all(c.get('type', {}).get('qualType') == 'int' for c in m['inner'][:2]):
            ea, _ = self.expr(m['inner'][0], env, out); eb, _ = self.expr(m['inner'][1], env, out)
            fl = lambda e: K.fold(('bin', 'xor', 32, e, lit(1 << 31)))
            op = m['opcode']
            if op in ('>', '>='): ea, eb = eb, ea
            return ('bin', 'lt' if op in ('<', '>') else 'le', 32, fl(ea), fl(eb)), (32, True)
        if m['kind'] == 'BinaryOperator' and m.get('opcode') in ('&&', '||') and out is not None and self.has_impure_call(m['inner'][1]):
            # C short-circuit evaluation: the right operand (a call) runs only if the left operand does not decide the result
            ea, _ = self.expr(m['inner'][0], env, out)
            tmp = self.fresh('sc'); sub = []
            eb, _ = self.expr(m['inner'][1], env, sub)
            nz = ('bin', 'ne', 32, eb, lit(0))
            if m['opcode'] == '&&': out.append(('ite', ea, sub + [('assign', tmp, nz)], [('assign', tmp, lit(0))]))
            else: out.append(('ite', ea, [('assign', tmp, lit(1))], sub + [('assign', tmp, nz)]))
            return var(tmp), (32, True)
        if m['kind'] == 'UnaryOperator' and m.get('opcode') == '*' and out is not None:
            lv = self.pointer(m['inner'][0], env)
            if lv[0] == 'array': return var(lv[1]), (32, True)          # `*recid` read: the int out-parameter as a variable
        return F.FTranslator.expr(self, n, env, out)

    PURE = ('secp256k1_scalar_is_zero', 'secp256k1_scalar_is_high', 'secp256k1_fe_equal', 'secp256k1_fe_impl_is_odd', 'secp256k1_gej_is_infinity',
            'secp256k1_ge_is_infinity', 'secp256k1_gej_eq_x_var', 'secp256k1_fe_impl_cmp_var', '__builtin_expect')

    def has_impure_call(self, n):
        if n.get('kind') == 'CallExpr':
            try:
                if self.callee_name(n) not in self.PURE: return True
            except Unsupported:
                return True
        return any(self.has_impure_call(c) for c in n.get('inner', []) if isinstance(c, dict))

    def struct_copy(self, dst, rhs, qt, env, out):
        while rhs['kind'] in ('ParenExpr', 'ImplicitCastExpr') and (rhs['kind'] == 'ParenExpr' or rhs.get('castKind') in ('LValueToRValue', 'NoOp')):
            rhs = rhs['inner'][0]
        src = self.lvalue(rhs, env)
        t = qt.replace('const ', '').strip()
        if t == 'secp256k1_scalar': out.append(('alg', 'scSet', dst[1], src[1]))
        elif t in ('secp256k1_ge', 'secp256k1_gej'): out.append(('alg', 'ptSet', dst[1], src[1]))
        else: raise Unsupported('copy of ' + t)

    def global_const(self, name):
        if name in self.globals: return self.globals[name]
        vd = self.front.global_var(name)
        if vd['type']['qualType'].replace('const ', '').strip() == 'secp256k1_scalar':
            save = self.prologue; self.prologue = []
            K.Translator.global_const(self, name)
            stores, self.prologue = self.prologue, save
            val = sum(s_[3][1] << (64 * s_[2][1]) for s_ in stores if s_[0] == 'store')        # native configuration: 4x64 limbs
            self.prologue.append(('alg', 'scConst', 'g.' + name, val))
            self.globals[name] = ('struct', 'g.' + name)
            return self.globals[name]
        r = F.FTranslator.global_const(self, name)        # emits ('fe','const', gname, value) into the prologue
        self.prologue = [('alg', 'feConst', s[2], s[3]) if (s[0] == 'fe' and s[1] == 'const') else s for s in self.prologue]
        return r

    def function(self, name, alias=()):
        fd = self.front.function(name)
        params = [c for c in fd['inner'] if c['kind'] == 'ParmVarDecl']
        body = [c for c in fd['inner'] if c['kind'] == 'CompoundStmt'][0]
        env = {}
        for p in params:
            qt = p['type']['qualType']
            if '*' in qt:
                base = qt.replace('const ', '').replace('*', '').strip()
                env[p['id']] = ('struct', p['name']) if base.startswith('secp256k1_') else ('array', p['name'])
            else: env[p['id']] = ('var', p['name'])
        out = []
        self.block(body, env, out, '', top=True)
        return {'name': name, 'body': self.prologue + out}


def clean(ss):
    out = []
    for s in ss:
        k = s[0]
        if k == 'alg': out.append(s)
        elif k == 'assign': out.append(('int', s[1], pfold(unidx(s[2]))))
        elif k == 'store':
            if s[2] != ('lit', 0): raise Unsupported('array store ' + s[1])
            out.append(('int', s[1], unidx(s[3])))
        elif k == 'ite':
            c = pfold(unidx(s[1]))
            if c[0] == 'lit': out.extend(clean(s[2] if c[1] else s[3]))       # decided at translation time (ARG_CHECK on a non-NULL pointer)
            else: out.append(('ite', c, clean(s[2]), clean(s[3])))
        elif k == 'scope':
            sub = clean(s[1])
            if sub: out.append(('scope', sub))
        elif k == 'ret': out.append(('int', 'ret', pfold(unidx(s[1])))); out.append(('ret',))
        elif k == '__return__': out.append(('ret',))
        elif k == 'fe': raise Unsupported('field-level primitive in a protocol core: ' + str(s[1]))
        else: raise Unsupported('statement ' + k)
    return out


def lean_pstmts(ss, ind):
    pad = ' ' * ind; items = []
    for s in ss:
        if s[0] == 'alg':
            parts = []
            for x in s[2:]:
                if isinstance(x, str): parts.append('"%s"' % x)
                elif isinstance(x, int): parts.append(str(x))
                elif isinstance(x, tuple) and x[0] == 'opt': parts.append('none' if x[1] is None else '(some "%s")' % x[1])
                else: parts.append(K.lean_expr(x))
            items.append('%s.%s %s' % (pad, s[1], ' '.join(parts)))
        elif s[0] == 'int': items.append('%s.int "%s" %s' % (pad, s[1], K.lean_expr(s[2])))
        elif s[0] == 'ite': items.append('%s.ite %s [\n%s\n%s] [\n%s\n%s]' % (pad, K.lean_expr(s[1]), lean_pstmts(s[2], ind + 2), pad, lean_pstmts(s[3], ind + 2), pad))
        elif s[0] == 'scope': items.append('%s.scope [\n%s\n%s]' % (pad, lean_pstmts(s[1], ind + 2), pad))
        elif s[0] == 'ret': items.append('%s.ret' % pad)
    return ',\n'.join(items)


SETS = {'schnorr': [
    ('verify', 'secp256k1_schnorrsig_verify'),
], 'keys': [
    ('eckey_privkey_tweak_add', 'secp256k1_eckey_privkey_tweak_add'),
    ('eckey_privkey_tweak_mul', 'secp256k1_eckey_privkey_tweak_mul'),
    ('eckey_pubkey_tweak_add', 'secp256k1_eckey_pubkey_tweak_add'),
    ('eckey_pubkey_tweak_mul', 'secp256k1_eckey_pubkey_tweak_mul'),
    ('ec_seckey_tweak_add', 'secp256k1_ec_seckey_tweak_add'),
    ('ec_seckey_tweak_mul', 'secp256k1_ec_seckey_tweak_mul'),
    ('ec_pubkey_tweak_add', 'secp256k1_ec_pubkey_tweak_add'),
    ('ec_pubkey_tweak_mul', 'secp256k1_ec_pubkey_tweak_mul'),
    ('ec_seckey_negate', 'secp256k1_ec_seckey_negate'),
    ('ec_pubkey_negate', 'secp256k1_ec_pubkey_negate'),
], 'ecdsa': [
    ('sig_verify', 'secp256k1_ecdsa_sig_verify'),
    ('sig_sign', 'secp256k1_ecdsa_sig_sign'),
    ('sig_recover', 'secp256k1_ecdsa_sig_recover'),
], 'api': [
    ('ecdsa_verify', 'secp256k1_ecdsa_verify'),
    ('ecdsa_signature_normalize', 'secp256k1_ecdsa_signature_normalize'),
    ('ec_pubkey_create', 'secp256k1_ec_pubkey_create'),
    ('ec_seckey_verify', 'secp256k1_ec_seckey_verify'),
    ('xonly_pubkey_tweak_add', 'secp256k1_xonly_pubkey_tweak_add'),
]}


def regenerate(setname, repo, lean_dir):
    from c2lean import write_if_changed
    front = K.Front(repo, 'native')
    errors, names, targets = [], [], []
    body = ['import SecpZkp.Model.AlgIR',
            '/- GENERATED by tools/c2lean_p.py (mode P) from clang-14\'s typed AST of the current working tree: protocol cores as',
            '   programs over scalars, field elements, points and byte strings. DO NOT EDIT. -/',
            'namespace SecpZkp', 'namespace Gen', 'namespace P%s' % setname, 'open MiniC AlgIR', '']
    for defname, cfn in SETS[setname]:
        try:
            tr = PTranslator(front, unroll=True)
            fn = tr.function(cfn)
            ss = clean(fn['body'])
            body.append('/-- `%s` -/\ndef %s : AlgIR.Fn := {\n  name := "%s"\n  body := [\n%s\n  ]\n}\n' % (cfn, defname, cfn, lean_pstmts(ss, 4)))
            names.append(defname); targets.append({'mode': 'P', 'name': defname, 'c_function': cfn, 'statements': len(ss)})
        except Unsupported as e:
            errors.append('P:%s (%s): %s' % (defname, cfn, e))
    body.append('def all : List (String × AlgIR.Fn) := [%s]' % ', '.join('("%s", %s)' % (n, n) for n in names))
    body += ['', 'end P%s' % setname, 'end Gen', 'end SecpZkp', '']
    write_if_changed(os.path.join(lean_dir, 'SecpZkp', 'Gen', 'P_%s.lean' % setname), '\n'.join(body))
    return {'errors': errors, 'targets': targets, 'obligations': len(names)}


if __name__ == '__main__':
    root = os.path.dirname(os.path.dirname(os.path.abspath(__file__)))
    for a in (sys.argv[1:] or list(SETS)):
        r = regenerate(a, os.environ.get('VERIF_REPO', '/repo'), os.environ.get('C2LEAN_OUT', os.path.join(root, 'lean')))
        print(json.dumps({'errors': r['errors'], 'ok': [t['name'] for t in r['targets']]}))
