#!/usr/bin/env python3
"""One-off scaffold: writes lean/SecpZkp/Props/<pid>_guards.lean from the call-site facts of the CURRENT tree.
The emitted expected-lists are then the specification (committed, hand-owned); c2lean_g.py regenerates Gen/Guards.lean on
every run and the theorems (by `decide`) fail when a check on a fallible primitive disappears or a flag is dropped."""
import os, re, sys
OUT = os.environ.get('C2LEAN_OUT', os.path.join(os.path.dirname(os.path.dirname(os.path.abspath(__file__))), 'lean'))
src = open(os.path.join(OUT, 'SecpZkp/Gen/Guards.lean')).read()
facts = []
for m in re.finditer(r'^def (\w+) : List CallFact := \[(.*?)^\]', src, re.S | re.M):
    for f in re.findall(r'⟨\.(\w+), (\d+), (true|false), (none|some true|some false)⟩', m.group(2)):
        facts.append((m.group(1),) + f)
EXCEPT = {
 'musig_partial_sig_load': 'the object can only come from secp256k1_musig_partial_sig_parse, which rejects s >= n (pinned above), or from partial_sign / save, which store a reduced scalar',
}
MAP = {
 'C01': ['ecdsa_sig_verify', 'ecdsa_verify', 'ecdsa_signature_parse_compact', 'ecdsa_recoverable_signature_parse_compact', 'ecdsa_sig_sign', 'ecdsa_sign_inner', 'ecdsa_signature_load', 'ecdsa_recover', 'ecdsa_recoverable_signature_load', 'ecdsa_sig_recover'],
 'C02': ['schnorrsig_verify', 'xonly_pubkey_parse', 'schnorrsig_challenge', 'schnorrsig_sign_internal'],
 'C03': ['der_parse_integer', 'ecdsa_sig_parse', 'eckey_pubkey_parse', 'ec_pubkey_parse', 'ecdsa_signature_parse_compact', 'xonly_pubkey_parse'],
 'C04': ['ec_seckey_tweak_add', 'ec_seckey_tweak_mul', 'ec_seckey_tweak_add_helper', 'ec_pubkey_tweak_add_helper', 'ec_pubkey_tweak_mul', 'ec_pubkey_create_helper', 'ec_seckey_negate', 'ec_seckey_verify', 'keypair_seckey_load', 'scalar_set_b32_seckey'],
 'C08': ['generator_parse', 'pedersen_commitment_parse', 'pedersen_commit', 'pedersen_blind_sum', 'pedersen_blind_generator_blind_sum', 'generator_generate_internal', 'generator_load', 'pedersen_scalar_set_u64'],
 'C09': ['borromean_sign', 'rangeproof_genrand', 'rangeproof_sign_impl'],
 'C10': ['rangeproof_verify_impl', 'borromean_verify'],
 'C11': ['surjectionproof_verify', 'surjectionproof_generate', 'surjection_genrand'],
 'C12': ['musig_partial_sig_parse', 'musig_pubnonce_parse', 'musig_partial_sign', 'musig_partial_sig_verify', 'musig_pubkey_tweak_add_internal', 'keyagg_cache_load', 'musig_adapt', 'musig_extract_adaptor', 'musig_keyaggcoef_internal', 'musig_nonce_gen_internal', 'musig_nonce_process_internal', 'musig_partial_sig_load', 'musig_secnonce_load', 'musig_session_load', 'nonce_function_musig'],
 'C14': ['ecdsa_adaptor_sig_deserialize', 'ecdsa_adaptor_verify', 'ecdsa_adaptor_recover', 'ecdsa_adaptor_encrypt', 'ecdsa_adaptor_decrypt', 'dleq_verify', 'dleq_challenge', 'dleq_nonce'],
 'C15': ['ecdsa_s2c_verify_commit', 'ecdsa_anti_exfil_signer_commit'],
 'C16': ['whitelist_verify', 'whitelist_compute_tweaked_privkey', 'borromean_verify', 'whitelist_hash_pubkey', 'whitelist_sign'],
 'C17': ['schnorrsig_aggverify', 'schnorrsig_inc_aggregate'],
 'C18': ['ecdh', 'ellswift_xdh', 'ellswift_create'],
 'C20': ['ecmult_gen_blind'],
 'C19': ['bppp_rangeproof_norm_product_verify', 'bppp_generators_parse', 'bppp_parse_one_of_points', 'bppp_challenge_scalar'],
}
for pid, fns in MAP.items():
    mine = [f for f in facts if f[0] in fns]
    missing = [fn for fn in fns if not any(f[0] == fn for f in facts)]
    if missing: print('WARNING', pid, 'no facts for', missing)
    L = []
    L.append('import SecpZkp.Gen.Guards')
    L.append('/-! # %s — the argument checks the model assumes are present at the C call sites (translator mode G)' % pid)
    L.append('')
    L.append('`Gen.callFacts` is regenerated from clang\'s AST of /repo on every run (tools/c2lean_g.py): one fact per call of a')
    L.append('fallible primitive (range-checked field/scalar decoding, curve membership, infinity / zero tests, nested parsers)')
    L.append('inside the functions this property is anchored in, saying whether the call\'s result steers control flow')
    L.append('(`resultChecked`) and whether the overflow flag it writes is read before being overwritten (`flag = some true`;')
    L.append('`none` = the call passes NULL, i.e. reduces silently).  The executable model rejects out-of-range encodings at')
    L.append('exactly these places; the theorems below pin the C side to the same shape.  A fact list that no longer matches')
    L.append('is a broken tie (the check then searches for a failing input with the differential generators). -/')
    L.append('namespace SecpZkp.Props.%s_guards' % pid)
    L.append('open SecpZkp.Gen')
    L.append('')
    for fn in fns:
        fm = [f for f in mine if f[0] == fn]
        L.append('/-- `secp256k1_%s`: its fallible-primitive call sites are exactly these, each with its result / overflow flag' % fn)
        L.append('    consumed as listed. -/')
        L.append('theorem %s_sites : Facts.%s = [' % (fn, fn))
        L.append(',\n'.join('    ⟨.%s, %s, %s, %s⟩' % f[1:] for f in fm))
        L.append('  ] := by decide')
        L.append('')
    exc = [fn for fn in fns if fn in EXCEPT]
    for fn in exc:
        L.append('/-- `secp256k1_%s` ignores the overflow flag outside VERIFY builds ON PURPOSE: %s. -/' % (fn, EXCEPT[fn]))
        L.append('theorem %s_flag_verify_only : (Facts.%s.filter (fun f => f.flag = some false)).length = 1 := by decide' % (fn, fn))
        L.append('')
    L.append('def all : List CallFact := %s' % ' ++ '.join('Facts.' + fn for fn in fns if fn not in EXCEPT))
    L.append('')
    L.append('/-- No overflow flag written by a scalar decoding in these functions is ignored (overwritten or never read). -/')
    L.append('theorem no_flag_dropped : ∀ f ∈ all, f.flag ≠ some false := by decide')
    L.append('')
    L.append('/-- non-vacuity: the regenerated fact lists are not empty -/')
    L.append('example : all.length = %d := by decide' % len([f for f in mine if f[0] not in EXCEPT]))
    L.append('')
    L.append('end SecpZkp.Props.%s_guards' % pid)
    open(os.path.join(OUT, 'SecpZkp/Props/%s_guards.lean' % pid), 'w').write('\n'.join(L) + '\n')
    print(pid, len(mine))
