#!/usr/bin/env python3
"""Extracts the Wycheproof ECDSA secp256k1 / SHA-256 "bitcoin" vectors
($VERIF_REPO/src/wycheproof/ecdsa_secp256k1_sha256_bitcoin_test.json) into protocol lines with expectations
(corpus/C01/wycheproof_ecdsa.txt).

The library's own consumer (src/tests.c, test_ecdsa_wycheproof) parses the 65-byte public key, hashes the message
with SHA-256, parses the signature with secp256k1_ecdsa_signature_parse_der and, if that succeeds, calls
secp256k1_ecdsa_verify; the published result `valid` means parse AND verify succeed, `invalid` means at least one
of them fails.  The protocol has no combined op, so one vector becomes
    sig_parse_der <der>                    and, only when parsing succeeds,
    ecdsa_verify <r||s> <sha256(msg)> <pk>
with the published result attached to the LAST line of the vector.  Which of the two lines is the last one of an
`invalid` vector (and the (r, s) handed to the verify line) is decided by der_parse() below, a transcription of the
strict DER rules of the library (src/ecdsa_impl.h); expectations that rest on it are marked `derived` in the free
text, everything else is the published result."""
import json, os, sys, hashlib
sys.path.insert(0, os.path.dirname(os.path.abspath(__file__)))
from gen.common import N

REPO = os.environ.get('VERIF_REPO', '/repo')
ROOT = os.path.dirname(os.path.dirname(os.path.abspath(__file__)))
SIZE_T = 8


def der_read_len(b, pos):
    """-> (length, new position) | None"""
    if pos >= len(b): return None
    b1 = b[pos]; pos += 1
    if b1 == 0xFF: return None
    if b1 & 0x80 == 0: return b1, pos
    if b1 == 0x80: return None
    left = b1 & 0x7F
    if left > len(b) - pos: return None
    if b[pos] == 0: return None
    if left > SIZE_T: return None
    l = int.from_bytes(b[pos:pos + left], 'big'); pos += left
    if l > len(b) - pos: return None
    if l < 128: return None
    return l, pos


def der_int(b, pos):
    """-> (scalar, new position) | None; out-of-range / negative values become 0 like in the library"""
    if pos == len(b) or b[pos] != 0x02: return None
    r = der_read_len(b, pos + 1)
    if r is None: return None
    l, pos = r
    if l == 0 or l > len(b) - pos: return None
    if b[pos] == 0x00 and l > 1 and b[pos + 1] & 0x80 == 0: return None
    if b[pos] == 0xFF and l > 1 and b[pos + 1] & 0x80: return None
    overflow = bool(b[pos] & 0x80)
    if b[pos] == 0: l -= 1; pos += 1
    if l > 32: overflow = True
    v = int.from_bytes(b[pos:pos + l], 'big')
    if overflow or v >= N: v = 0
    return v, pos + l


def der_parse(b):
    """-> (r, s) | None"""
    if len(b) == 0 or b[0] != 0x30: return None
    r = der_read_len(b, 1)
    if r is None: return None
    l, pos = r
    if l != len(b) - pos: return None
    r = der_int(b, pos)
    if r is None: return None
    rr, pos = r
    r = der_int(b, pos)
    if r is None: return None
    ss, pos = r
    if pos != len(b): return None
    return rr, ss


def main():
    doc = json.load(open(os.path.join(REPO, 'src/wycheproof/ecdsa_secp256k1_sha256_bitcoin_test.json')))
    out = ['// Wycheproof ECDSA secp256k1 / SHA-256, bitcoin variant (src/wycheproof/ecdsa_secp256k1_sha256_bitcoin_test.json, %d vectors),'
           % doc['numberOfTests'],
           '// produced by tools/extract_wycheproof_ecdsa.py. One vector = sig_parse_der and, when parsing succeeds, ecdsa_verify;',
           '// the published result (valid = 1, invalid = 0) is expected on the last line of each vector.']
    stats = {'groups': 0, 'vectors': 0, 'valid': 0, 'invalid-parse': 0, 'invalid-verify': 0}
    for g in doc['testGroups']:
        assert g['type'] == 'EcdsaBitcoinVerify' and g['sha'] == 'SHA-256' and g['publicKey']['curve'] == 'secp256k1'
        pk = g['publicKey']['uncompressed'].lower()
        assert len(pk) == 130 and pk.startswith('04')
        stats['groups'] += 1
        out.append('# expect group %d public key parses -> 1 %s' % (stats['groups'], pk))
        out.append('pubkey_parse ' + pk)
        for t in g['tests']:
            stats['vectors'] += 1
            res = t['result']
            assert res in ('valid', 'invalid')        # the library's converter rejects anything else, too
            sig = bytes.fromhex(t['sig']); h = hashlib.sha256(bytes.fromhex(t['msg'])).hexdigest()
            name = 'tcId %d (%s)' % (t['tcId'], t['comment'].replace('->', '=>'))
            rs = der_parse(sig)
            if res == 'valid':
                assert rs is not None and 0 < rs[0] < N and 0 < rs[1] < N, name
                stats['valid'] += 1
                rs_hex = '%064x%064x' % rs
                out.append('# expect %s valid: DER parse -> 1 %s' % (name, rs_hex))
                out.append('sig_parse_der ' + (sig.hex() or '-'))
                out.append('# expect %s valid: verify -> 1' % name)
                out.append('ecdsa_verify %s %s %s' % (rs_hex, h, pk))
            elif rs is None:
                stats['invalid-parse'] += 1
                out.append('# expect %s invalid: DER parse fails -> 0' % name)
                out.append('sig_parse_der ' + (sig.hex() or '-'))
            else:
                stats['invalid-verify'] += 1
                rs_hex = '%064x%064x' % rs
                out.append('# expect %s invalid, derived: strict DER accepts the encoding -> 1 %s' % (name, rs_hex))
                out.append('sig_parse_der ' + (sig.hex() or '-'))
                out.append('# expect %s invalid: verify -> 0' % name)
                out.append('ecdsa_verify %s %s %s' % (rs_hex, h, pk))
    assert stats['vectors'] == doc['numberOfTests']
    os.makedirs(os.path.join(ROOT, 'corpus/C01'), exist_ok=True)
    open(os.path.join(ROOT, 'corpus/C01/wycheproof_ecdsa.txt'), 'w').write('\n'.join(out) + '\n')
    print('corpus/C01/wycheproof_ecdsa.txt: %d lines;' % len(out), stats)


if __name__ == '__main__':
    main()
