#!/usr/bin/env python3
"""Extracts the Wycheproof ECDH secp256k1 vectors ($VERIF_REPO/src/wycheproof/ecdh_secp256k1_test.json) into protocol
lines with expectations (corpus/C18/wycheproof_ecdh.txt).

The library's consumer (src/modules/ecdh/tests_impl.h test_ecdh_wycheproof, data prepared by
tools/tests_wycheproof_generate_ecdh.py) drops the vectors flagged InvalidAsn / WrongCurve and seven tcIds whose
ASN.1 wrapper carries invalid explicit curve parameters (the library never sees the wrapper), strips the ASN.1 wrapper,
and then requires  secp256k1_ec_pubkey_parse == (result != invalid)  and, when the key parses, that secp256k1_ecdh
with a hash function passing x through returns the published shared secret.  Here:
    pubkey_parse <sec1 key>                         expected 1 <point> | 0
    ecdh <point> <private key> x _                  expected 1 <x||y>        (only when the key parses)
The `x` hash function of the harness writes x32 || y32; x is the published shared secret, y is recomputed here with the
big-integer arithmetic of tools/gen/common.py (the script stops if that arithmetic does not reproduce the published x).
Vectors whose key is not a plain 33/65-byte SEC1 key behind the fixed SubjectPublicKeyInfo prefix are skipped and
counted."""
import json, os, sys
sys.path.insert(0, os.path.dirname(os.path.abspath(__file__)))
from gen.common import P, N, lift_x, pmul, pt, h32

REPO = os.environ.get('VERIF_REPO', '/repo')
ROOT = os.path.dirname(os.path.dirname(os.path.abspath(__file__)))
# SEQUENCE { SEQUENCE { OID ecPublicKey, OID secp256k1 }, BIT STRING (0 unused bits) <key> }
PREFIX65 = '3056301006072a8648ce3d020106052b8104000a034200'
PREFIX33 = '3036301006072a8648ce3d020106052b8104000a032200'
SKIP_FLAGS = {'InvalidAsn', 'WrongCurve'}                 # as in tools/tests_wycheproof_generate_ecdh.py
SKIP_TCIDS = {496, 497, 502, 503, 504, 505, 507}


def sec1_key(public_hex):
    if public_hex.startswith(PREFIX65) and len(public_hex) == len(PREFIX65) + 130: return public_hex[len(PREFIX65):]
    if public_hex.startswith(PREFIX33) and len(public_hex) == len(PREFIX33) + 66: return public_hex[len(PREFIX33):]
    return None


def decode(key_hex):
    """point of a 33/65-byte SEC1 encoding, None if the library must reject it (input construction only: the
    expectation whether it parses comes from the vector)"""
    b = bytes.fromhex(key_hex)
    x = int.from_bytes(b[1:33], 'big')
    if x >= P: return None
    if len(b) == 33 and b[0] in (2, 3): return lift_x(x, b[0] & 1)
    if len(b) == 65 and b[0] in (4, 6, 7):
        y = int.from_bytes(b[33:], 'big')
        if y >= P or (y * y - x * x * x - 7) % P: return None
        if b[0] != 4 and (y & 1) != (b[0] & 1): return None
        return (x, y)
    return None


def main():
    doc = json.load(open(os.path.join(REPO, 'src/wycheproof/ecdh_secp256k1_test.json')))
    out = ['// Wycheproof ECDH secp256k1 (src/wycheproof/ecdh_secp256k1_test.json, %d vectors), produced by tools/extract_wycheproof_ecdh.py.' % doc['numberOfTests'],
           '// pubkey_parse must return (result != invalid); for keys that parse, ecdh with the x-pass-through hash must give the published',
           '// shared secret (first 32 bytes of the 64-byte token; the y half is recomputed by the extraction script).']
    st = {'total': 0, 'skipped-like-library-InvalidAsn': 0, 'skipped-like-library-WrongCurve': 0, 'skipped-like-library-tcId-list': 0,
          'skipped-not-plain-sec1': 0, 'emitted': 0, 'parse-ok+ecdh': 0, 'parse-fail': 0}
    skipped_plain = []
    for g in doc['testGroups']:
        assert g['type'] == 'EcdhTest' and g['curve'] == 'secp256k1' and g['encoding'] == 'asn'
        for t in g['tests']:
            st['total'] += 1
            fl = set(t['flags'])
            if 'InvalidAsn' in fl: st['skipped-like-library-InvalidAsn'] += 1; continue
            if 'WrongCurve' in fl: st['skipped-like-library-WrongCurve'] += 1; continue
            if t['tcId'] in SKIP_TCIDS: st['skipped-like-library-tcId-list'] += 1; continue
            key = sec1_key(t['public'])
            if key is None:
                st['skipped-not-plain-sec1'] += 1; skipped_plain.append('%d(%s)' % (t['tcId'], '+'.join(t['flags']))); continue
            st['emitted'] += 1
            name = 'tcId %d %s [%s] %s' % (t['tcId'], t['comment'].replace('->', '=>'), ','.join(t['flags']), t['result'])
            expect_parse = 0 if t['result'] == 'invalid' else 1
            q = decode(key)
            if not expect_parse:
                assert t['shared'] == ''
                st['parse-fail'] += 1
                out.append('# expect %s: pubkey_parse -> 0' % name)
                out.append('pubkey_parse ' + key)
                continue
            assert q is not None, name
            sk_hex = t['private']
            assert len(sk_hex) <= 64 or set(sk_hex[:-64]) == {'0'}, name
            sk = int(sk_hex, 16); assert 0 < sk < N, name
            s = pmul(sk, q)
            assert s is not None and len(t['shared']) == 64 and s[0] == int(t['shared'], 16), 'reference arithmetic disagrees with ' + name
            st['parse-ok+ecdh'] += 1
            out.append('# expect %s: pubkey_parse -> 1 %s' % (name, pt(q)))
            out.append('pubkey_parse ' + key)
            out.append('# expect %s: shared x -> 1 %s%s' % (name, t['shared'], h32(s[1])))
            out.append('ecdh %s %s x _' % (pt(q), h32(sk)))
    os.makedirs(os.path.join(ROOT, 'corpus/C18'), exist_ok=True)
    open(os.path.join(ROOT, 'corpus/C18/wycheproof_ecdh.txt'), 'w').write('\n'.join(out) + '\n')
    print('corpus/C18/wycheproof_ecdh.txt: %d lines;' % len(out), st)
    print('not plain SEC1 (skipped):', ' '.join(skipped_plain))


if __name__ == '__main__':
    main()
