#!/usr/bin/env python3
"""tools/c2lean_g: mode G of the translator — guard facts.

For a fixed list of parsing / verification functions, reads clang-14's typed AST of the CURRENT sources and emits,
as Lean data (`lean/SecpZkp/Gen/Guards.lean`), one fact per call site of a "fallible primitive":
  * `resultChecked`: the call's return value reaches a condition (if / ?: / && / || / `ret &= …` / return expression),
    directly or through a local variable that is read afterwards;
  * `flagChecked`: for an out-parameter flag passed as `&v` (e.g. the overflow flag of `secp256k1_scalar_set_b32`):
    `some true` if `v` is READ after this call before anything writes it again, `some false` if it is overwritten or never
    read (the classic "second call clobbers the first overflow flag" slip), `none` if NULL was passed.
The theorems in `Props/*_guards.lean` state which of these must hold; they are re-checked by `decide` on every run.
This is a syntactic audit: it establishes that a check is PRESENT in the code, which matters exactly for the rejection
clauses that no constructible input can exercise (r >= p or s >= n in a valid BIP-340 signature, a range-proof digit
commitment with x >= p, …)."""
import os, re, json, sys
sys.path.insert(0, os.path.dirname(os.path.abspath(__file__)))
from c2lean_k import Front, Unsupported

FALLIBLE = {
    'secp256k1_fe_impl_set_b32_limit': {}, 'secp256k1_fe_impl_is_zero': {}, 'secp256k1_fe_impl_normalizes_to_zero_var': {},
    'secp256k1_scalar_set_b32': {'flag_arg': 2},
    'secp256k1_scalar_set_b32_seckey': {},
    'secp256k1_fe_set_b32_limit': {},
    'secp256k1_ge_set_xquad': {},
    'secp256k1_ge_set_xo_var': {},
    'secp256k1_eckey_pubkey_parse': {},
    'secp256k1_ge_is_valid_var': {},
    'secp256k1_xonly_pubkey_load': {},
    'secp256k1_pubkey_load': {},
    'secp256k1_generator_parse': {},
    'secp256k1_borromean_verify': {},
    'secp256k1_rangeproof_getheader_impl': {},
    'secp256k1_der_read_len': {},
    'secp256k1_der_parse_integer': {},
    'secp256k1_ecdsa_sig_parse': {},
    'secp256k1_ge_parse_ext': {},
    'secp256k1_bppp_parse_one_of_points': {},
    'secp256k1_ecdsa_adaptor_sig_deserialize': {},
    'secp256k1_dleq_verify': {},
    'secp256k1_musig_secnonce_load': {},
    'secp256k1_keyagg_cache_load': {},
    'secp256k1_musig_session_load': {},
    'secp256k1_musig_partial_sig_load': {},
    'secp256k1_musig_pubnonce_load': {},
    'secp256k1_keypair_load': {},
    'secp256k1_ecmult_gen_context_is_built': {},
    'secp256k1_scalar_is_zero': {},
    'secp256k1_scalar_is_high': {},
    'secp256k1_fe_is_zero': {},
    'secp256k1_gej_is_infinity': {},
    'secp256k1_ge_is_infinity': {},
    'secp256k1_memcmp_var': {},
    'secp256k1_is_zero_array': {},
    'secp256k1_ec_commit': {}, 'secp256k1_ec_commit_tweak': {}, 'secp256k1_ec_seckey_tweak_add_helper': {}, 'secp256k1_ec_pubkey_tweak_add_helper': {},
}

TARGETS = [
    'secp256k1_ecdsa_signature_parse_compact', 'secp256k1_ecdsa_recoverable_signature_parse_compact', 'secp256k1_ecdsa_sig_verify', 'secp256k1_ecdsa_verify',
    'secp256k1_der_read_len', 'secp256k1_der_parse_integer', 'secp256k1_ecdsa_sig_parse', 'secp256k1_eckey_pubkey_parse', 'secp256k1_ec_pubkey_parse',
    'secp256k1_xonly_pubkey_parse', 'secp256k1_schnorrsig_verify', 'secp256k1_ec_seckey_tweak_add', 'secp256k1_ec_seckey_tweak_mul',
    'secp256k1_ec_seckey_tweak_add_helper', 'secp256k1_ec_pubkey_tweak_add_helper', 'secp256k1_ec_pubkey_tweak_mul', 'secp256k1_ecdh',
    'secp256k1_generator_parse', 'secp256k1_pedersen_commitment_parse', 'secp256k1_pedersen_commit', 'secp256k1_pedersen_blind_sum',
    'secp256k1_pedersen_blind_generator_blind_sum', 'secp256k1_generator_generate_internal',
    'secp256k1_rangeproof_verify_impl', 'secp256k1_rangeproof_getheader_impl', 'secp256k1_borromean_verify', 'secp256k1_rangeproof_sign_impl',
    'secp256k1_surjectionproof_verify', 'secp256k1_surjectionproof_parse', 'secp256k1_surjectionproof_generate',
    'secp256k1_whitelist_verify', 'secp256k1_whitelist_compute_tweaked_privkey', 'secp256k1_whitelist_signature_parse',
    'secp256k1_schnorrsig_aggverify', 'secp256k1_schnorrsig_inc_aggregate',
    'secp256k1_musig_partial_sig_parse', 'secp256k1_musig_pubnonce_parse', 'secp256k1_musig_aggnonce_parse', 'secp256k1_musig_partial_sign',
    'secp256k1_musig_partial_sig_verify', 'secp256k1_musig_pubkey_tweak_add_internal',
    'secp256k1_ecdsa_adaptor_sig_deserialize', 'secp256k1_ecdsa_adaptor_verify', 'secp256k1_ecdsa_adaptor_recover', 'secp256k1_ecdsa_adaptor_encrypt',
    'secp256k1_ecdsa_adaptor_decrypt', 'secp256k1_dleq_verify',
    'secp256k1_ecdsa_s2c_verify_commit', 'secp256k1_anti_exfil_host_verify',
    'secp256k1_bppp_rangeproof_norm_product_verify', 'secp256k1_bppp_generators_parse', 'secp256k1_bppp_parse_one_of_points',
    'secp256k1_ellswift_xdh', 'secp256k1_ellswift_create',
    # every other function of the library that decodes a scalar / field element with a range check (found by scanning src/)
    'secp256k1_ecdsa_sig_sign', 'secp256k1_ecdsa_sign_inner', 'secp256k1_ecdsa_signature_load', 'secp256k1_ecdsa_recover',
    'secp256k1_ecdsa_recoverable_signature_load', 'secp256k1_ecdsa_sig_recover',
    'secp256k1_schnorrsig_challenge', 'secp256k1_schnorrsig_sign_internal',
    'secp256k1_ec_pubkey_create_helper', 'secp256k1_ec_seckey_negate', 'secp256k1_ec_seckey_verify', 'secp256k1_keypair_seckey_load', 'secp256k1_scalar_set_b32_seckey',
    'secp256k1_generator_load', 'secp256k1_pedersen_scalar_set_u64',
    'secp256k1_borromean_sign', 'secp256k1_rangeproof_genrand', 'secp256k1_surjection_genrand',
    'secp256k1_keyagg_cache_load', 'secp256k1_musig_adapt', 'secp256k1_musig_extract_adaptor', 'secp256k1_musig_keyaggcoef_internal',
    'secp256k1_musig_nonce_gen_internal', 'secp256k1_musig_nonce_process_internal', 'secp256k1_musig_partial_sig_load', 'secp256k1_musig_secnonce_load',
    'secp256k1_musig_session_load', 'secp256k1_nonce_function_musig',
    'secp256k1_dleq_challenge', 'secp256k1_dleq_nonce', 'secp256k1_ecdsa_anti_exfil_signer_commit',
    'secp256k1_whitelist_hash_pubkey', 'secp256k1_whitelist_sign', 'secp256k1_bppp_challenge_scalar', 'secp256k1_ecmult_gen_blind',
]


# retry / rejection-sampling loops whose specification is "repeat until a candidate succeeds": the loop facts (kind of every loop in
# source order, and whether its condition is a non-zero integer literal / absent, i.e. the loop can only be left from inside) are
# pinned by Props/*_guards.lean - a bound added to such a loop makes the function return without a result on rare inputs
LOOP_TARGETS = ['secp256k1_ellswift_xelligatorswift_var', 'secp256k1_ecdsa_sign_inner', 'secp256k1_whitelist_sign',
                'secp256k1_surjectionproof_initialize', 'secp256k1_surjectionproof_csprng_next']


def loops_for(front, name):
    fd = front.function(name)
    out = []
    def lit_true(c):
        c = strip(c) if c else None
        return c is not None and c.get('kind') == 'IntegerLiteral' and int(c.get('value', '0')) != 0
    def f(n, anc):
        k = n.get('kind')
        if k == 'WhileStmt': out.append(('while', lit_true(n['inner'][0])))
        elif k == 'DoStmt':
            c = strip(n['inner'][1])
            if not (c.get('kind') == 'IntegerLiteral' and int(c.get('value', '1')) == 0):     # `do { } while(0)` of the ARG_CHECK macros is no loop
                out.append(('do', lit_true(n['inner'][1])))
        elif k == 'ForStmt':
            c = n['inner'][2] if len(n.get('inner', [])) > 2 else None
            out.append(('for', (not c) or c == {} or lit_true(c)))
    walk([c for c in fd['inner'] if c['kind'] == 'CompoundStmt'][0], f)
    return out


def walk(n, f, anc=()):
    f(n, anc)
    for c in n.get('inner', []) or []:
        if isinstance(c, dict): walk(c, f, anc + (n,))


def strip(n):
    while n.get('kind') in ('ParenExpr', 'ImplicitCastExpr', 'CStyleCastExpr', 'ConstantExpr') and n.get('inner'): n = n['inner'][0]
    return n


def callee(n):
    f = strip(n['inner'][0])
    return f['referencedDecl']['name'] if f.get('kind') == 'DeclRefExpr' else None


def declref_id(n):
    n = strip(n)
    return n['referencedDecl']['id'] if n.get('kind') == 'DeclRefExpr' else None


def analyse(fd):
    """linearise the body into events in source order: ('call', node, ancestors) / ('read', declid, in_condition) / ('write', declid)"""
    body = [c for c in fd['inner'] if c['kind'] == 'CompoundStmt'][0]
    events = []
    def in_condition(anc, node):
        """is `node` (transitively) inside the condition of an if / ?: / loop, an operand of && || !, a return expression,
        or the right-hand side of `x &= …` / `x = … && …`?"""
        child = node
        for a in reversed(anc):
            k = a.get('kind')
            if k in ('IfStmt', 'ConditionalOperator', 'WhileStmt', 'DoStmt', 'ForStmt'):
                conds = a.get('inner', [])
                idx = {'IfStmt': 0, 'ConditionalOperator': 0, 'WhileStmt': 0, 'DoStmt': 1, 'ForStmt': 2}[k]
                if len(conds) > idx and conds[idx] is child: return True
            if k == 'ReturnStmt': return True
            if k == 'BinaryOperator' and a.get('opcode') in ('&&', '||'): return True
            if k == 'UnaryOperator' and a.get('opcode') == '!': pass
            if k == 'CompoundAssignOperator' and a.get('opcode') in ('&=', '|=') and a['inner'][1] is child: return True
            child = a
        return False
    def visit(n, anc):
        k = n.get('kind')
        if k == 'CallExpr':
            events.append(('call', n, anc))
        if k == 'DeclRefExpr' and n.get('referencedDecl', {}).get('kind') in ('VarDecl', 'ParmVarDecl'):
            # read or write?
            parent = anc[-1] if anc else None
            did = n['referencedDecl']['id']
            is_write = False
            if parent is not None:
                pk = parent.get('kind')
                if pk == 'BinaryOperator' and parent.get('opcode') == '=' and strip(parent['inner'][0]) is n: is_write = True
                if pk == 'UnaryOperator' and parent.get('opcode') == '&': is_write = True      # address taken: assume written by callee
            loops = tuple(id(a) for a in anc if a.get('kind') in ('ForStmt', 'WhileStmt', 'DoStmt'))
            events.append(('write' if is_write else 'read', did, in_condition(anc, n), loops))
        if k == 'VarDecl' and n.get('inner'):
            events.append(('write', n['id'], False, tuple(id(a) for a in anc if a.get('kind') in ('ForStmt', 'WhileStmt', 'DoStmt'))))
    walk(body, visit)
    return events


def facts_for(front, name):
    fd = front.function(name)
    ev = analyse(fd)
    out = []
    ordinal = {}
    for i, e in enumerate(ev):
        if e[0] != 'call': continue
        cn = callee(e[1])
        if cn not in FALLIBLE: continue
        node, anc = e[1], e[2]
        ordinal[cn] = ordinal.get(cn, 0) + 1
        # --- result checked?
        checked = False
        child = node
        for a in reversed(anc):
            k = a.get('kind')
            if k in ('IfStmt', 'ConditionalOperator', 'WhileStmt') and a['inner'][0] is child: checked = True; break
            if k == 'ReturnStmt': checked = True; break
            if k == 'BinaryOperator' and a.get('opcode') in ('&&', '||'): checked = True; break
            if k == 'CompoundAssignOperator' and a.get('opcode') in ('&=', '|=', '&&='): checked = True; break
            if k == 'BinaryOperator' and a.get('opcode') == '=' and a['inner'][1] is child:
                tgt = declref_id(a['inner'][0])
                # assigned to a variable: checked iff that variable is read later
                later = ev[i + 1:]
                checked = any(x[0] == 'read' and x[1] == tgt for x in later); break
            if k == 'VarDecl':
                later = ev[i + 1:]
                checked = any(x[0] == 'read' and x[1] == a['id'] for x in later); break
            if k in ('CompoundStmt',): break
            child = a
        # --- flag out-parameter
        flag = None
        fa = FALLIBLE[cn].get('flag_arg')
        if fa is not None and len(node['inner']) > fa + 1:
            arg = strip(node['inner'][fa + 1])
            if arg.get('kind') == 'UnaryOperator' and arg.get('opcode') == '&':
                did = declref_id(arg['inner'][0])
                flag = False
                # the variable events generated inside this call's own subtree are exactly the next m events
                cnt = [0]
                def count(m_, _a):
                    if m_.get('kind') == 'DeclRefExpr' and m_.get('referencedDecl', {}).get('kind') in ('VarDecl', 'ParmVarDecl'): cnt[0] += 1
                walk(node, count)
                my_loops = tuple(id(a) for a in anc if a.get('kind') in ('ForStmt', 'WhileStmt', 'DoStmt'))
                for x in ev[i + 1 + cnt[0]:]:
                    if x[0] in ('read', 'write') and x[1] == did:
                        if x[0] == 'read':
                            # inside a loop the flag must be read within the same iteration (same innermost loop)
                            flag = (not my_loops) or (len(x[3]) >= len(my_loops) and x[3][:len(my_loops)] == my_loops)
                        break
                if not flag and my_loops:
                    # loop-carried check: the flag written at the end of an iteration is tested at the top of the next one
                    # (first event on the variable inside the same innermost loop, textually before the call, is a read)
                    for x in ev[:i]:
                        if x[0] in ('read', 'write') and x[1] == did and len(x[3]) >= len(my_loops) and x[3][:len(my_loops)] == my_loops:
                            flag = (x[0] == 'read'); break
            else:
                flag = None
        out.append({'fn': name, 'callee': cn, 'ord': ordinal[cn], 'resultChecked': checked, 'flag': flag})
    return out


def lean_bool(b): return 'true' if b else 'false'


def regenerate(_arg, repo, lean_dir):
    from c2lean import write_if_changed, lean_str
    front = Front(repo, 'native')
    facts, errors = [], []
    from concurrent.futures import ThreadPoolExecutor
    def _pre(t):
        try: front.function(t)
        except Exception: pass
    with ThreadPoolExecutor(max_workers=int(os.environ.get('VERIF_JOBS', '16'))) as ex:
        list(ex.map(_pre, TARGETS))
    for t in TARGETS:
        try:
            facts += facts_for(front, t)
        except Unsupported as e:
            errors.append('G:%s: %s' % (t, e))
        except Exception as e:
            errors.append('G:%s: %s: %s' % (t, type(e).__name__, e))
    short = lambda n: n.replace('secp256k1_', '')
    callees = sorted(short(k) for k in FALLIBLE)
    body = ['/- GENERATED by tools/c2lean_g.py (mode G) from clang-14\'s AST of the current sources: one fact per call site of a',
            '   fallible primitive inside the audited parse/verify functions. DO NOT EDIT. -/',
            'namespace SecpZkp', 'namespace Gen', '',
            'inductive Callee where']
    body += ['  | %s' % c for c in callees]
    body += ['deriving Repr, DecidableEq', '',
             'structure CallFact where', '  callee : Callee', '  ord : Nat', '  resultChecked : Bool', '  flag : Option Bool', 'deriving Repr, DecidableEq', '',
             'namespace Facts', '']
    for t in TARGETS:
        mine = [f for f in facts if f['fn'] == t]
        body.append('def %s : List CallFact := [' % short(t))
        body.append(',\n'.join('  ⟨.%s, %d, %s, %s⟩' % (short(f['callee']), f['ord'], lean_bool(f['resultChecked']),
                                                       'none' if f['flag'] is None else 'some ' + lean_bool(f['flag'])) for f in mine))
        body.append(']')
        body.append('')
    body += ['end Facts', '', 'inductive LoopKind where', '  | while | do | for', 'deriving Repr, DecidableEq', '',
             '/-- one loop of a function, in source order; `unconditional`: the condition is a non-zero literal (or absent) -/',
             'structure LoopFact where', '  kind : LoopKind', '  unconditional : Bool', 'deriving Repr, DecidableEq', '', 'namespace Loops', '']
    nloops = 0
    for t in LOOP_TARGETS:
        try:
            ls = loops_for(front, t); nloops += len(ls)
            body.append('def %s : List LoopFact := [%s]' % (short(t), ', '.join('⟨.%s, %s⟩' % (k, lean_bool(u)) for k, u in ls)))
        except Exception as e:
            errors.append('G:loops:%s: %s: %s' % (t, type(e).__name__, e))
    body += ['', 'end Loops', '']
    body += ['/-- every audited function with its facts (names only for reporting) -/',
             'def callFacts : List (String × List CallFact) := [']
    body.append(',\n'.join('  (%s, Facts.%s)' % (lean_str(short(t)), short(t)) for t in TARGETS))
    body += [']', '', 'end Gen', 'end SecpZkp', '']
    write_if_changed(os.path.join(lean_dir, 'SecpZkp', 'Gen', 'Guards.lean'), '\n'.join(body))
    return {'errors': errors, 'targets': [{'mode': 'G', 'name': 'guards', 'facts': len(facts), 'functions': len(TARGETS), 'loop_facts': nloops}], 'obligations': 1}


if __name__ == '__main__':
    root = os.path.dirname(os.path.dirname(os.path.abspath(__file__)))
    out = os.environ.get('C2LEAN_OUT', os.path.join(root, 'lean'))
    r = regenerate('', os.environ.get('VERIF_REPO', '/repo'), out)
    print(json.dumps(r, indent=1))
