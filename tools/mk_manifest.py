#!/usr/bin/env python3
"""Regenerates MANIFEST.json from tools/props.py and the Props files that exist.
A property is claimed only when at least one Props/<id>*.lean file with theorems exists AND it has a generator."""
import json, os, glob, sys
ROOT = os.path.dirname(os.path.dirname(os.path.abspath(__file__)))
sys.path.insert(0, os.path.join(ROOT, 'tools'))
import props

TEXT = {
 'C01': ('The scalar/point-level cores secp256k1_ecdsa_sig_verify / _sig_sign / _sig_recover REGENERATED from the C sources are proved to compute exactly the model functions (C01_ir), and the ECDSA verify/sign/recover model is proved exact (verify ⇔ ECDSA equation with low-S and r,s ranges; signing output verifies and recovers; invalid key / failing nonce give zeros) and tied to the C code by correspondence over boundary scalars, messages ≥ n, custom nonce functions, all recids, in several limb configurations.',
         'Lean kernel + Mathlib; group law of the model proved against Mathlib\'s Weierstrass group (Proofs/Group.lean); cofactor-1 never assumed; tie to C = differential testing (harness + generators); retry-loop termination not proved (fuel).'),
 'C02': ('secp256k1_schnorrsig_verify REGENERATED from the C source is proved to compute exactly the model function (C02_ir); BIP-340 verify proved equal to the BIP\'s Verify predicate for every 64-byte string / message / key; default signing proved to verify for both key and nonce parities; aux NULL = zero aux; model tied to C by correspondence on every message length 0..300 (sampled above), bit flips and re-encodings.',
         'Lean kernel + Mathlib; tagged-hash midstates tied by correspondence and by kernel-checked equality with the tag-derived state; tie to C = differential testing.'),
 'C03': ('Every parser/serializer of keys and signatures is modelled line by line; DER parse proved to accept exactly the canonical X.690 encoding (full iff), round trips, size negotiation, compact range checks, failed parse leaves a never-verifying object, pubkey parse iff; tie by exhaustive structural enumeration (every prefix byte, length, DER shape) against the real parsers under ASan/UBSan.',
         'Lean kernel (core only for C03, no Mathlib); compressed-key round trip carries the square-root hypothesis until linked with Proofs/Field; tie to C = differential testing of the hand-written model.'),
 'C04': ('The public key-tweak / negate functions REGENERATED from the C sources are proved to compute exactly the model functions (C04_ir); heap sort proved to return a sorted permutation for every length and every total preorder (fuel sufficiency included); key-algebra commutation proved under the group law; all 15+ API functions tied by correspondence incl. chains of mixed tweaks, cancelling combines, sort lengths to 200.',
         'Lean kernel + Mathlib for the algebra part; statements about arbitrary parsed keys that need n·Q = ∞ carry that hypothesis explicitly; tie to C = differential testing.'),
 'C05': ('Limb-level and group-level theorems about code REGENERATED from the C sources on every run: 5x52 and 10x26 field mul/sqr/normalize/add/mul_int/half/negate exact for all limb values within the documented magnitudes (plus the invariant that keeps the 10x26 normalisation away from finding F4), scalar 4x64 AND 8x32 add/negate/mul_512/reduce_512/mul/half/cadd_bit (4x64 also mul_shift_var for every shift), the emulated 128-bit integer and the field multiplication built on it (by a verified simulation against the native kernel), the square-root addition chain with ge_set_xquad / ge_set_xo_var = the model lift_x, and the group functions of group_impl.h (gej_double, complete gej_add_ge, gej_add_var, gej_add_ge_var, gej_add_zinv_var, ...) proved equal to the affine group law with every magnitude precondition discharged statically; SHA-256 streaming = one-shot for every chunking, tagged hashes, HMAC, RFC 6979; every translated function is also executed against the real one (k_run, f_run) and the whole arithmetic API is compared with the model in four limb/asm configurations (six in the thorough tier).',
         'Lean kernel + Mathlib; translator tools/c2lean_k.py / c2lean_f.py over clang-14 ASTs (validated by running IR and C function on the same inputs); the value semantics of the group-level IR rests on the limb-level theorems, their composition (argument aliasing inside field primitives) is checked by correspondence only; x86-64 assembly, safegcd modinv, wNAF/Strauss/Pippenger/comb algorithms are tied by correspondence only (with carry-maximising crafted inputs); known findings F4 (10x26 normalisation on the magnitude-32 extreme of fe_get_bounds) and F5 (fe_equal at b magnitude 31).'),
 'C06': ('Leakage-trace non-interference proved for the translated constant-time primitives via a verified taint checker; the compiled binary is observed under valgrind with secrets undefined (own copy of the maintainers\' secret-argument list, several configurations).',
         'Source-level leakage model of the translator; compiler/CPU behaviour outside any Lean model (partial); valgrind observes executed paths only.'),
 'C07': ('Index/length arithmetic and closure (parsed ⇒ valid) of every parser proved on the model; every entry point run under ASan+UBSan+leak detection with callback counters on structured mutations of valid artefacts and random bytes.',
         'Memory safety of the compiled C is a runtime fact: proved for the modelled logic, observed by sanitizers on generated inputs (partial).'),
 'C08': ('commit = b·G + v·H with exact failure cases, tally ⇔ sum = ∞, blind-sum bookkeeping, codecs; the Shallue-van de Woestijne map regenerated from the C source proved equal to the model function (always a valid curve point); model tied by correspondence (boundary blinds/values, mixed generators, balanced/unbalanced tallies, all prefixes × boundary x).',
         'Lean kernel + Mathlib; "balance only if values balance" needs independence of generators (discrete-log assumption) and is stated with that hypothesis.'),
 'C09': ('Parameter layer proved for all inputs (value reconstruction, ring layout bounds, header round trip, size bound); `rangeproof_complete`: every proof that sign creates is accepted by verify with the header\'s range (no expanded ring key at infinity); Borromean ring completeness; byte-exact correspondence of sign/verify/rewind/info incl. exhaustive exp×min_bits grid.',
         'Lean kernel + Mathlib; "any other nonce fails" is conditional on hash outputs differing; tie to C = differential testing.'),
 'C10': ('Header and guard rejections proved on the model for all remaining bytes (reserved bit, exp>18, overflowing ranges, trailing bytes, spare sign bits, scalars ≥ n, x ≥ p); adversarial prover (model-built proofs with chosen free values, s+n / x+p re-encodings) against the real verifier.',
         'Lean kernel; soundness against forgery is cryptographic and not claimed; tie to C = differential testing.'),
 'C11': ('Parser proved to accept exactly canonical encodings with bounds ≤ 256 inputs; initialize/generate/verify modelled incl. CSPRNG; adversarial prover and structural parser enumeration against the real code.',
         'Lean kernel + Mathlib; `generate` => `verify` proved (hypotheses: forged scalars non-zero, no stray bitmap bits); generate refuses when any input tag equals the output tag; tie to C = differential testing + call-site guard facts.'),
 'C12': ('BIP-327 functions modelled object-for-object; honest-session completeness under the group law; byte-exact correspondence of all 15+ API functions incl. infinity nonces, duplicate keys, tweak chains, 64-bit counters.',
         'Lean kernel + Mathlib; "fails for any other key" is conditional (hash hypotheses); tie to C = differential testing.'),
 'C13': ('The statement order of secp256k1_musig_partial_sign REGENERATED from the C source is proved to wipe the whole nonce object immediately after its load, before any exit, and to bind both coordinates (C13_seq); partial_sign proved to leave the secret nonce all-zero on every path; zero/foreign nonces never sign; history invariant by induction over arbitrary call sequences; exhaustive enumeration of call histories (depth 3–4) against the real code with raw-byte inspection of the nonce objects.',
         'Lean kernel; the model of partial_sign is hand-written and tied by correspondence (the wipe-order mutant is caught at history `gen sign:wrongkp`).'),
 'C14': ('encrypt→verify→decrypt→recover pipeline and verify guards modelled; completeness under the group law; every field mutation of the 162-byte format against the real code.',
         'Lean kernel + Mathlib; tie to C = differential testing.'),
 'C15': ('s2c / anti-exfil modelled on top of the ECDSA signing loop; opening equality of signer-commit and sign proved on the model; protocol op compares the two separately written C derivations on boundary messages.',
         'Lean kernel; equality of the two derivations in C is what the correspondence checks; "fails for any other datum" conditional.'),
 'C16': ('Codec iff + round trips; verification of an EMPTY key list proved impossible (finding F1, repaired in /repo by a fix: commit); count/scalar guards; forged and mutated signatures against the real code, counts 0..255.',
         'Lean kernel + Mathlib; `sign` => `verify` proved (no other ring key at infinity), a ring key at infinity never verifies, sign refuses a zero tweaked secret (F2); ring-signature soundness is cryptographic and not claimed; tie to C = differential testing + call-site guard facts.'),
 'C17': ('Incremental aggregation proved equal to one-shot for every split; length and guard theorems; verify unfolded to the spec equation; correspondence over all 2-/3-way splits, buffers, re-encodings (incl. s = n for the empty aggregate).',
         'Lean kernel; completeness needs the group law; tie to C = differential testing.'),
 'C18': ('ECDH/XDH agreement under the group law; ElligatorSwift map/inverse modelled branch by branch AND proved equal to the code regenerated from the C sources (xswiftec_frac_var, xswiftec_var, swiftec_var, xswiftec_inv_var, ge_x_on_curve_var, ge_x_frac_on_curve_var as field-level IR: the hand model is a proved transcription); decode onto the curve for every 64-byte string, inverse round trip; correspondence incl. all exceptional inputs; Wycheproof ECDH and BIP-324 vectors binding on the model.',
         'Lean kernel + Mathlib; field inversion and the Jacobi-symbol squareness test (safegcd) are opaque in the field-level IR (model semantics, tied by correspondence); ecmult_const_xonly modelled at spec level.'),
 'C19': ('Norm-argument prover/verifier, transcript and generator lists modelled; length/guard theorems; correspondence with mutations, scratch sizes, prefix consistency and leak tracking.',
         'Lean kernel + Mathlib; completeness of the norm argument proved for every vector length 2^a, 2^b (generators d·G, or arbitrary valid generators with the order hypothesis made explicit: cofactor 1 is not proved); rho = 0 is accepted by the prover and rejected by the verifier (proved, documented); the internal verifier dereferences a NULL scratch (observation).'),
 'C20': ('No function references writable static storage (theorem re-checked against the object code of the current tree); blinding state machine modelled byte-exactly and proved balanced over all histories; API results compared across random context histories, static context dichotomy, allocation counts, and 2–16 threads under TSan.',
         'Statics audit trusts gcc/objdump section and relocation data; data-race freedom of the binary is observed by TSan on executed accesses (partial).'),
}
TECH = 'Lean 4 theorems about an executable model + checked tie (translator and/or differential correspondence)'

def main():
    pl = [json.loads(l) for l in open(os.path.join(ROOT, 'properties.jsonl'))]
    checks, na = [], []
    for p in pl:
        pid = p['id']
        files = glob.glob(os.path.join(ROOT, 'lean', 'SecpZkp', 'Props', pid + '.lean')) + glob.glob(os.path.join(ROOT, 'lean', 'SecpZkp', 'Props', pid + '_*.lean'))
        if pid in props.PROPS and files:
            t = TEXT[pid]
            checks.append({
                'property_id': pid,
                'quick_cmd': './check %s --tier quick' % pid,
                'thorough_cmd': './check %s --tier thorough' % pid,
                'evidence_file': '/verif/evidence/%s.json' % pid,
                'replay_cmd_template': './check %s --replay {path}' % pid,
                'engine': 'lean4+correspondence',
                'level_claimed': {'category': 'proof', 'text': t[0], 'design_ref': 'DESIGN.md section 6 (%s), section 10 (as built)' % pid},
                'level_note': t[1],
                'technique': TECH,
            })
        else:
            na.append({'property_id': pid, 'reason': 'Lean technique applies; model/correspondence %s, theorems not yet landed in this session — not claimed until they are' % ('built' if pid in props.PROPS else 'under construction')})
    m = {
        'version': 1,
        'setup_cmd': 'cd /verif/lean && lake build',
        'hooks': {'guard': 'SECP256K1_ZKP_VERIF', 'enable': 'the harness (harness/harness.c, one TU including /repo/src/secp256k1.c) is compiled with -DSECP256K1_ZKP_VERIF; no source hook was needed, so /repo carries no guarded code',
                  'baseline_off_cmd': 'cmake -G Ninja -B /repo/_build -S /repo && cmake --build /repo/_build && ctest --test-dir /repo/_build -j8 --timeout 900',
                  'source_commits': [], 'add_only': True},
        'engines': [{'name': 'lean4+correspondence', 'path': '/verif/check', 'serves_properties': [c['property_id'] for c in checks],
                     'kind_free_text': 'Lean 4.33 + Mathlib theorems over an executable model (lean/SecpZkp), translator tools/c2lean.py, C harness + Python generators for the model/implementation correspondence'}],
        'checks': checks,
        'not_applicable': na,
        'notes': 'See DESIGN.md (section 10 as built). known_findings.json lists genuine defects: fixed F1, F2 (whitelist), F3 (rangeproof rewind); recorded F4 (10x26 normalisation at the magnitude-32 extreme) and F5 (fe_equal at magnitude 31), both C05.',
    }
    json.dump(m, open(os.path.join(ROOT, 'MANIFEST.json'), 'w'), indent=1)
    print('claimed:', [c['property_id'] for c in checks])

if __name__ == '__main__':
    main()
