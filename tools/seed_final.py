#!/usr/bin/env python3
"""seed_final.py [<seed-id>...]: re-evaluates the kept seeded changes (seeded/<id>-<k>/patch.diff) with the CURRENT checks:
apply to /repo, run the quick check of the property (plus the neighbouring checks listed in EXTRA), revert /repo; the
outcome is stored in seeded/<id>-<k>/meta.json (`final_results`, `detected`, `what_was_run`), merged with summary.json."""
import sys, os, json, glob, time
ROOT = os.path.dirname(os.path.dirname(os.path.abspath(__file__)))
sys.path.insert(0, os.path.join(ROOT, 'tools'))
import seed_eval
EXTRA = {'C03': ['C07'], 'C10': ['C07'], 'C11': ['C07'], 'C05': ['C01']}
want = set(sys.argv[1:])
for d in sorted(glob.glob(os.path.join(ROOT, 'seeded', '*'))):
    sid = os.path.basename(d)
    if want and sid not in want: continue
    mf = os.path.join(d, 'meta.json')
    if not os.path.exists(mf) or not os.path.exists(os.path.join(d, 'patch.diff')): continue
    m = json.load(open(mf))
    if not m.get('confirmed_by_me', {}).get('confirmed'): continue
    pid = m['property']
    pids = [pid] + EXTRA.get(pid, [])
    ev = seed_eval.evaluate(os.path.join(d, 'patch.diff'), pids)
    m['final_results'] = ev
    m['detected'] = any(v.get('violations', 0) > 0 for v in ev.get('checks', {}).values())
    m['what_was_run'] = ['git -C /repo apply seeded/%s/patch.diff' % sid] + ['./check %s --tier quick' % p for p in pids] + ['git -C /repo checkout -- .']
    sf = os.path.join(d, 'summary.json')
    if os.path.exists(sf): m.update(json.load(open(sf)))
    json.dump(m, open(mf, 'w'), indent=1)
    print(time.strftime('%H:%M:%S'), sid, 'detected=%s' % m['detected'], {p: (v['exit'], v['violations']) for p, v in ev.get('checks', {}).items()}, flush=True)
