#!/usr/bin/env python3
"""seed_table.py: prints the markdown table of seeded changes (seeded/*/meta.json) for DESIGN.md."""
import os, json, re, glob
ROOT = os.path.dirname(os.path.dirname(os.path.abspath(__file__)))
rows = []
for d in sorted(glob.glob(os.path.join(ROOT, 'seeded', '*'))):
    mf = os.path.join(d, 'meta.json')
    if not os.path.exists(mf): continue
    m = json.load(open(mf))
    patch = open(os.path.join(d, 'patch.diff')).read() if os.path.exists(os.path.join(d, 'patch.diff')) else ''
    files = sorted(set(re.findall(r'^\+\+\+ b/(\S+)', patch, re.M)))
    res = m.get('final_results') or m.get('check_results_after_strengthening') or m.get('check_results') or {}
    caught = []
    for pid, r in sorted(res.get('checks', {}).items()):
        if r.get('exit', 0) != 0:
            kinds = sorted({(v.get('kind') or '?') + ('' if not v.get('no_input') else ' (no-failing-input-found)') + (' @' + v['config'] if v.get('config') else '') for v in r.get('first', [])})
            caught.append('%s: %s' % (pid, '; '.join(kinds)[:160]))
    rows.append((os.path.basename(d), m.get('summary', ''), m.get('needs_to_manifest', ''),
                 '<br>'.join(caught) if caught else '**missed**' + (' — ' + m['miss_note'] if m.get('miss_note') else '')))
print('| seed | change | needs, to manifest | caught by (quick tier) |')
print('|------|--------|--------------------|------------------------|')
for r in rows: print('| ' + ' | '.join(x.replace('|', '\\|').replace('\n', ' ') for x in r) + ' |')
