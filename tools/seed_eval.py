#!/usr/bin/env python3
"""seed_eval.py <diff> <pid> [<pid>...]: applies a seeded change to /repo, runs the quick checks of the given
properties, reverts /repo, and prints/returns what was reported."""
import sys, subprocess, json, os, re, time
ROOT = os.path.dirname(os.path.dirname(os.path.abspath(__file__)))
def sh(cmd, **kw): return subprocess.run(cmd, shell=True, capture_output=True, text=True, **kw)
def evaluate(diff, pids, tier='quick'):
    st = sh('git -C /repo status --porcelain --untracked-files=no').stdout.strip()
    if st: raise SystemExit('/repo is not clean: ' + st)
    a = sh('git -C /repo apply %s' % diff)
    if a.returncode != 0: return {'applies': False, 'err': a.stderr[-500:]}
    res = {'applies': True, 'checks': {}}
    try:
        for pid in pids:
            t0 = time.time()
            r = sh('cd %s && ./check %s --tier %s' % (ROOT, pid, tier), timeout=7200)
            viol = [l for l in r.stdout.split('\n') if l.startswith('VIOLATION')]
            kinds = []
            for v in viol[:6]:
                m = re.search(r'replay=(\S+)', v)
                if m and os.path.exists(m.group(1)):
                    d = json.load(open(m.group(1)))
                    kinds.append({'kind': d.get('kind'), 'tag': d.get('tag'), 'config': d.get('config'), 'line': (d.get('line') or '')[:160],
                                  'model': (d.get('model') or '')[:80], 'impl': (d.get('impl') or '')[:160], 'detail': str(d.get('detail', ''))[:300],
                                  'no_input': 'no-failing-input-found' in v})
            res['checks'][pid] = {'exit': r.returncode, 'violations': len(viol), 'first': kinds, 'wall_s': round(time.time() - t0), 'tail': r.stderr[-300:]}
    finally:
        sh('git -C /repo checkout -- .')
    return res
if __name__ == '__main__':
    print(json.dumps(evaluate(sys.argv[1], sys.argv[2:]), indent=1))
