#!/usr/bin/env python3
"""seed_import5.py <pid>...: imports the fifth round of seeded changes (/tmp/mut5_<pid>/_seed, confirmed by tools/seed_confirm.py)
into /verif/seeded/<pid>-<k>/ (k continues after the existing ones). Prints the new seed ids."""
import os, json, shutil, sys, glob, re
ROOT = os.path.dirname(os.path.dirname(os.path.abspath(__file__)))
for pid in sys.argv[1:]:
    seed = '/tmp/mut5_%s/_seed' % pid
    cj = os.path.join(seed, 'confirm.json')
    if not os.path.exists(cj): print(pid, 'not confirmed yet', file=sys.stderr); continue
    c = json.load(open(cj))
    notes = open(os.path.join(seed, 'NOTES.md')).read() if os.path.exists(os.path.join(seed, 'NOTES.md')) else ''
    have = [int(os.path.basename(d).split('-')[1]) for d in glob.glob(os.path.join(ROOT, 'seeded', pid + '-*'))]
    # idempotent: a change already imported in round 5 keeps its id
    done = {}
    for d in glob.glob(os.path.join(ROOT, 'seeded', pid + '-*')):
        mf = os.path.join(d, 'meta.json')
        if os.path.exists(mf):
            m = json.load(open(mf))
            if m.get('round') == 5: done[m.get('notes_change_number')] = os.path.basename(d)
    nxt = max(have + [0]) + 1
    for k in (1, 2):
        r = c.get('change%d' % k)
        if not r: continue
        if not r.get('confirmed'):
            print(pid, 'change', k, 'NOT confirmed:', {x: r.get(x) for x in ('applies', 'builds', 'ctest', 'demo_exit_pristine', 'demo_exit_changed')}, file=sys.stderr); continue
        sid = done.get(k)
        if not sid: sid = '%s-%d' % (pid, nxt); nxt += 1
        out = os.path.join(ROOT, 'seeded', sid); os.makedirs(out, exist_ok=True)
        shutil.copy(os.path.join(seed, 'change%d.diff' % k), os.path.join(out, 'patch.diff'))
        for f in os.listdir(seed):
            if f.startswith('demo%d' % k) and not f.endswith('.bin') and os.path.isfile(os.path.join(seed, f)) and os.path.getsize(os.path.join(seed, f)) < 200000 and '.' in f:
                shutil.copy(os.path.join(seed, f), os.path.join(out, f))
        open(os.path.join(out, 'NOTES.md'), 'w').write('(Change %d of the notes below is this seed.)\n\n' % k + notes)
        mf = os.path.join(out, 'meta.json')
        meta = json.load(open(mf)) if os.path.exists(mf) else {}
        meta.update({'property': pid, 'round': 5, 'confirmed_by_me': r,
                     'origin': 'independent sub-agent (fifth round) given only the property text, a focus area and a scratch worktree',
                     'agent_notes_file': 'NOTES.md', 'notes_change_number': k})
        json.dump(meta, open(mf, 'w'), indent=1)
        print(sid)
