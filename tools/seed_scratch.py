#!/usr/bin/env python3
"""seed_scratch.py <slot> <seed-id>...: evaluates kept seeded changes WITHOUT touching /repo or /verif's evidence: a private
copy of /verif (/tmp/ve<slot>, with its own .lake and build directories) runs the quick checks with VERIF_REPO pointing at a
scratch git worktree of /repo (/tmp/wt_e<slot>) to which the patch is applied. Results go to seeded/<id>/meta.json
(`final_results`, `detected`, `what_was_run`) of the REAL /verif. Several slots can run at the same time."""
import sys, os, json, subprocess, re, time, shutil
ROOT = os.path.dirname(os.path.dirname(os.path.abspath(__file__)))
EXTRA = {'C03': ['C07'], 'C10': ['C07'], 'C11': ['C07'], 'C05': ['C01']}
def sh(cmd, **kw): return subprocess.run(cmd, shell=True, capture_output=True, text=True, **kw)
slot = sys.argv[1]; ids = sys.argv[2:]
ve, wt = '/tmp/ve' + slot, '/tmp/wt_e' + slot
if not os.path.isdir(wt): sh('git -C /repo worktree add --detach %s HEAD' % wt)
sh('rsync -a --delete --exclude .git --exclude evidence/replays %s/ %s/' % (ROOT, ve))
for sid in ids:
    d = os.path.join(ROOT, 'seeded', sid)
    m = json.load(open(os.path.join(d, 'meta.json')))
    pid = m['property']; pids = [pid] + EXTRA.get(pid, [])
    sh('git -C %s checkout -- . && git -C %s clean -fdq' % (wt, wt))
    a = sh('git -C %s apply %s' % (wt, os.path.join(d, 'patch.diff')))
    res = {'applies': a.returncode == 0, 'checks': {}}
    if a.returncode == 0:
        for p in pids:
            t0 = time.time()
            r = sh('cd %s && VERIF_REPO=%s ./check %s --tier quick' % (ve, wt, p), timeout=7200)
            viol = [l for l in r.stdout.split('\n') if l.startswith('VIOLATION')]
            kinds = []
            for v in viol[:6]:
                mm = re.search(r'replay=(\S+)', v)
                if mm and os.path.exists(mm.group(1)):
                    dd = json.load(open(mm.group(1)))
                    kinds.append({'kind': dd.get('kind'), 'tag': dd.get('tag'), 'config': dd.get('config'), 'line': (dd.get('line') or '')[:160],
                                  'model': (dd.get('model') or '')[:80], 'impl': (dd.get('impl') or '')[:160], 'detail': str(dd.get('detail', ''))[:300],
                                  'no_input': 'no-failing-input-found' in v})
            res['checks'][p] = {'exit': r.returncode, 'violations': len(viol), 'first': kinds, 'wall_s': round(time.time() - t0), 'tail': r.stderr[-300:]}
    sh('git -C %s checkout -- .' % wt)
    m['final_results'] = res
    m['detected'] = any(v.get('violations', 0) > 0 for v in res.get('checks', {}).values())
    m['what_was_run'] = ['git -C <scratch worktree of /repo> apply seeded/%s/patch.diff' % sid] + \
        ['VERIF_REPO=<scratch worktree> ./check %s --tier quick   (in a private copy of /verif)' % p for p in pids] + ['git -C <scratch worktree> checkout -- .']
    sf = os.path.join(d, 'summary.json')
    if os.path.exists(sf): m.update(json.load(open(sf)))
    json.dump(m, open(os.path.join(d, 'meta.json'), 'w'), indent=1)
    print(time.strftime('%H:%M:%S'), sid, 'detected=%s' % m['detected'], {p: (v['exit'], v['violations']) for p, v in res.get('checks', {}).items()}, flush=True)
# restore the private copy's generated files is unnecessary (it is re-synced on the next call)
