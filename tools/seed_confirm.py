#!/usr/bin/env python3
"""seed_confirm.py <worktree> : for each _seed/changeK.diff in a scratch worktree of /repo, confirm that the change
(1) applies, (2) builds, (3) passes the whole existing ctest suite, and that (4) its demo exits 0 without and non-zero
with the change. Writes <worktree>/_seed/confirm.json."""
import sys, os, subprocess, json, re, glob
wt = sys.argv[1]
seed = os.path.join(wt, '_seed')
def sh(cmd, **kw): return subprocess.run(cmd, shell=True, cwd=wt, capture_output=True, text=True, **kw)
def demo_cmd(k):
    src = os.path.join(seed, 'demo%d.c' % k)
    head = open(src).read()[:3000]
    head = re.sub(r'\\[ \t]*\n[ \t]*\*?[ \t]*', ' ', head)     # join shell line continuations inside the header comment
    m = re.search(r'(gcc[^\n]*demo%d[^\n]*)' % k, head)
    cmd = m.group(1).strip().rstrip('*/').strip() if m else 'gcc -O1 -I. -Isrc -DECMULT_WINDOW_SIZE=15 -DCOMB_BLOCKS=43 -DCOMB_TEETH=6 _seed/demo%d.c -o _seed/demo%d' % (k, k)
    # normalise paths: compile from worktree root, source in _seed
    cmd = re.sub(r'(?<![\w/])demo%d\.c' % k, '_seed/demo%d.c' % k, cmd)
    cmd = re.sub(r'-o\s+\S+', '-o _seed/demo%d.bin' % k, cmd)
    if '-o ' not in cmd: cmd += ' -o _seed/demo%d.bin' % k
    cmd = cmd.split('&&')[0].strip()
    return cmd
def run_cmd(k):
    head = open(os.path.join(seed, 'demo%d.c' % k)).read()[:3000]
    m = re.search(r'RUN:\s*([^\n]*demo%d[^\n]*)' % k, head)     # e.g. `RUN: valgrind --error-exitcode=42 -q ./demo1` (constant-time demos)
    if not m: return './_seed/demo%d.bin' % k
    return re.sub(r'(\./)?(_seed/)?demo%d(\.bin)?(?![\w.])' % k, './_seed/demo%d.bin' % k, m.group(1).strip().rstrip('*/').strip())
res = {}
sh('git checkout -- .')
for k in (1, 2):
    diff = os.path.join(seed, 'change%d.diff' % k)
    if not os.path.exists(diff): continue
    r = {}
    dc = demo_cmd(k); r['demo_compile_cmd'] = dc
    c = sh(dc); r['demo_compiles_pristine'] = c.returncode == 0
    if c.returncode != 0: r['demo_compile_err'] = c.stderr[-800:]
    d0 = sh(run_cmd(k), timeout=1800); r['demo_run_cmd'] = run_cmd(k); r['demo_exit_pristine'] = d0.returncode
    a = sh('git apply _seed/change%d.diff' % k); r['applies'] = a.returncode == 0
    if a.returncode == 0:
        b = sh('cmake -G Ninja -B build -S . >/dev/null && cmake --build build 2>&1 | tail -3'); r['builds'] = b.returncode == 0 and 'error' not in b.stdout.lower()
        t = sh('ctest --test-dir build -j8 --timeout 900 2>&1 | tail -12', timeout=7200)
        m = re.search(r'(\d+)% tests passed, (\d+) tests failed out of (\d+)', t.stdout)
        r['ctest'] = m.group(0) if m else t.stdout[-300:]
        r['ctest_all_pass'] = bool(m and m.group(2) == '0' and m.group(3) == '317')
        c = sh(dc); d1 = sh(run_cmd(k), timeout=1800)
        r['demo_exit_changed'] = d1.returncode; r['demo_output_changed'] = (d1.stdout + d1.stderr)[-600:]
    sh('git checkout -- .')
    r['confirmed'] = bool(r.get('applies') and r.get('builds') and r.get('ctest_all_pass') and r.get('demo_exit_pristine') == 0 and r.get('demo_exit_changed', 0) != 0)
    res['change%d' % k] = r
    json.dump(res, open(os.path.join(seed, 'confirm.json'), 'w'), indent=1)
sh('rm -rf build _seed/*.bin')
print(json.dumps({k: v['confirmed'] for k, v in res.items()}))
