#!/usr/bin/env python3
"""tools/c2lean_f: mode F of the translator — group-level functions as programs over FIELD VALUES (FeIR).

Reads clang's typed AST of src/group_impl.h functions in the current working tree and emits `lean/SecpZkp/Gen/F_group.lean`:
every call of a field primitive becomes one `FeIR.Stmt` (its value semantics and magnitude contract are those of
src/field.h, proved at limb level in Props/C05_field*.lean / C05_fieldlin.lean), integer flags are MiniC expressions,
struct copies of field / group elements become field-level copies, calls of other group functions are inlined as
`.scope` blocks. Anything outside this fragment is a translation error."""
import os, re, json, sys
sys.path.insert(0, os.path.dirname(os.path.abspath(__file__)))
import c2lean_k as K
from c2lean_k import Unsupported, lit, var

FE_TYPES = ('secp256k1_fe',)

class FTranslator(K.Translator):
    def fe_name(self, n, env, out=None):
        m = n
        while m['kind'] in ('ParenExpr', 'ImplicitCastExpr') and (m['kind'] == 'ParenExpr' or m.get('castKind') in ('NoOp', 'BitCast')): m = m['inner'][0]
        if m['kind'] == 'ConditionalOperator' and out is not None:      # `cond ? &a : &b` as an argument: select into a temporary
            c, tc = self.expr(m['inner'][0], env, out)
            na, nb = self.fe_name(m['inner'][1], env, out), self.fe_name(m['inner'][2], env, out)
            tmp = self.fresh('sel')
            out.append(('ite', K.fold(c), [('fe', 'set', tmp, na)], [('fe', 'set', tmp, nb)]))
            return tmp
        lv = self.pointer(n, env)
        if lv[0] != 'struct': raise Unsupported('field argument ' + str(lv))
        return lv[1]

    def call(self, n, env, out, want_value=False):
        name = self.callee_name(n)
        a = n['inner'][1:]
        short = name.replace('secp256k1_fe_impl_', 'fe_').replace('secp256k1_', '')
        F = lambda i: self.fe_name(a[i], env, out)
        def intarg(i):
            e, t = self.expr(a[i], env, out); e = K.fold(e)
            if e[0] != 'lit': raise Unsupported('non-literal integer argument of ' + name)
            return e[1]
        if short == 'fe_mul': out.append(('fe', 'mul', F(0), F(1), F(2))); return lit(0), (32, True)
        if short == 'fe_sqr': out.append(('fe', 'sqr', F(0), F(1))); return lit(0), (32, True)
        if short == 'fe_add': out.append(('fe', 'add', F(0), F(1))); return lit(0), (32, True)
        if short in ('fe_negate_unchecked',): out.append(('fe', 'neg', F(0), F(1), intarg(2))); return lit(0), (32, True)
        if short in ('fe_mul_int_unchecked',): out.append(('fe', 'mulInt', F(0), intarg(1))); return lit(0), (32, True)
        if short == 'fe_add_int': out.append(('fe', 'addInt', F(0), intarg(1))); return lit(0), (32, True)
        if short == 'fe_set_int': out.append(('fe', 'setInt', F(0), intarg(1))); return lit(0), (32, True)
        if short == 'fe_half': out.append(('fe', 'half', F(0))); return lit(0), (32, True)
        if short in ('fe_normalize', 'fe_normalize_var', 'fe_normalize_weak'): out.append(('fe', 'norm', F(0))); return lit(0), (32, True)
        if short in ('fe_clear',): out.append(('fe', 'clear', F(0))); return lit(0), (32, True)
        if short == 'fe_cmov':
            e, t = self.expr(a[2], env, out)
            out.append(('fe', 'cmov', F(0), F(1), K.fold(e))); return lit(0), (32, True)
        if short in ('fe_normalizes_to_zero', 'fe_normalizes_to_zero_var', 'fe_is_zero'):
            tmp = self.fresh('z'); out.append(('fe', 'isZero', tmp, F(0))); return var(tmp), (32, True)
        if short in ('fe_inv', 'fe_inv_var') or name in ('secp256k1_fe_inv', 'secp256k1_fe_inv_var'):
            out.append(('fe', 'inv', F(0), F(1))); return lit(0), (32, True)
        if short in ('fe_is_square_var',) or name == 'secp256k1_fe_is_square_var':
            tmp = self.fresh('sq'); out.append(('fe', 'isSquare', tmp, F(0))); return var(tmp), (32, True)
        if name == '__builtin_expect':
            return self.expr(a[0], env, out)
        if short == 'fe_is_odd':
            tmp = self.fresh('odd'); out.append(('fe', 'isOdd', tmp, F(0))); return var(tmp), (32, True)
        if name.startswith('secp256k1_fe_impl_') or name in ('secp256k1_fe_get_b32', 'secp256k1_fe_set_b32_mod'):
            raise Unsupported('field primitive outside the FeIR fragment: ' + name)
        if name in ('secp256k1_memclear_explicit', 'memset'):
            raise Unsupported('memory call ' + name)
        # another group-level function: inline as a scope (its `return` ends only the callee)
        sub = []
        r = self.call_inline_scoped(n, env, sub, want_value)
        out.append(('scope', sub))
        return r

    def stmt(self, s, env, out, tag, retvar, top):
        if s['kind'] == 'DeclStmt':
            # function-local `static const secp256k1_fe c = SECP256K1_FE_CONST(...)`: a constant like the file-scope ones
            rest = []
            for d in s.get('inner', []):
                qt = d.get('type', {}).get('qualType', '')
                if d.get('kind') == 'VarDecl' and d.get('storageClass') == 'static' and 'const' in qt and qt.replace('const ', '').strip() == 'secp256k1_fe' \
                        and any(c.get('kind') == 'InitListExpr' for c in d.get('inner', [])):
                    uniq = '%s%s' % ((tag + '.') if tag else '', d['name'])
                    self.front.cache['var:' + uniq] = d
                    env[d['id']] = self.global_const(uniq)
                else: rest.append(d)
            if len(rest) != len(s.get('inner', [])):
                if rest: K.Translator.stmt(self, dict(s, inner=rest), env, out, tag, retvar, top)
                return
        if s['kind'] == 'IfStmt':
            inner = s['inner']
            pre = []
            c, tc = self.expr(inner[0], env, pre)
            c = K.fold(c)
            if c[0] == 'lit':                      # decided at translation time (e.g. `rzr != NULL`)
                out.extend(pre)
                if c[1] != 0: self.stmt(inner[1], env, out, tag, retvar, top)
                elif len(inner) > 2: self.stmt(inner[2], env, out, tag, retvar, top)
                return
            out.extend(pre)
            t_out, e_out = [], []
            self.stmt(inner[1], env, t_out, tag, retvar, top)
            if len(inner) > 2: self.stmt(inner[2], env, e_out, tag, retvar, top)
            out.append(('ite', c, t_out, e_out)); return
        return K.Translator.stmt(self, s, env, out, tag, retvar, top)

    def pointer(self, n, env):
        k = n['kind']
        if k in ('ImplicitCastExpr', 'CStyleCastExpr') and n.get('castKind') == 'NullToPointer': return ('null',)
        return K.Translator.pointer(self, n, env)

    def is_pointer_typed(self, n):
        return '*' in n.get('type', {}).get('qualType', '')

    def expr(self, n, env, out=None):
        # `p != NULL` / `p == NULL` for optional output pointers: decided at translation time (top-level pointer
        # parameters are translated as non-NULL; an inlined callee sees what its caller passes)
        m = n
        while m['kind'] == 'ParenExpr': m = m['inner'][0]
        if m['kind'] == 'BinaryOperator' and m.get('opcode') in ('==', '!=') and self.is_pointer_typed(m['inner'][0]):
            a, b = self.pointer(m['inner'][0], env), self.pointer(m['inner'][1], env)
            isnull = lambda x: x == ('null',)
            if isnull(a) or isnull(b):
                same = isnull(a) and isnull(b)
                return lit(int(same if m['opcode'] == '==' else not same)), (32, True)
        if m['kind'] == 'ImplicitCastExpr' and m.get('castKind') == 'LValueToRValue' and self.is_pointer_typed(m):
            return lit(0 if self.pointer(m, env) == ('null',) else 1), (32, True)      # `if (ptr)` in C: the pointer itself is the condition
        if m['kind'] == 'ImplicitCastExpr' and m.get('castKind') == 'PointerToBoolean':
            return lit(0 if self.pointer(m['inner'][0], env) == ('null',) else 1), (32, True)
        return K.Translator.expr(self, n, env, out) if out is not None else K.Translator.expr(self, n, env)

    def global_const(self, name):
        if name in self.globals: return self.globals[name]
        vd = self.front.global_var(name)
        base = vd['type']['qualType'].replace('const ', '').replace('volatile ', '').strip()
        if base != 'secp256k1_fe': return K.Translator.global_const(self, name)
        save = self.prologue; self.prologue = []
        K.Translator.global_const(self, name)
        stores, self.prologue = self.prologue, save
        val = 0
        for s_ in stores:
            if s_[0] != 'store' or s_[2][0] != 'lit' or s_[3][0] != 'lit': raise Unsupported('initialiser of ' + name)
            val += s_[3][1] << (52 * s_[2][1])      # native configuration: 5x52 limbs
        gname = 'g.' + name
        self.prologue.append(('fe', 'const', gname, val))
        self.globals[name] = ('struct', gname)
        return self.globals[name]

    def struct_copy(self, dst, rhs, qt, env, out):
        while rhs['kind'] in ('ParenExpr', 'ImplicitCastExpr') and (rhs['kind'] == 'ParenExpr' or rhs.get('castKind') in ('LValueToRValue', 'NoOp')):
            rhs = rhs['inner'][0]
        src = self.lvalue(rhs, env)
        if src[0] != 'struct': raise Unsupported('struct assignment from ' + str(src))
        tname = qt.replace('const ', '').replace('volatile ', '').strip()
        if tname == 'secp256k1_fe':
            out.append(('fe', 'set', dst[1], src[1])); return
        lay = self.front.layouts().get(tname)
        if lay is None: raise Unsupported('no record layout for ' + tname)
        for path, n in lay:
            if n is None: out.append(('assign', dst[1] + '.' + path, var(src[1] + '.' + path)))
            elif path.endswith('.n'): out.append(('fe', 'set', dst[1] + '.' + path[:-2], src[1] + '.' + path[:-2]))
            else: raise Unsupported('array member %s of %s' % (path, tname))

    def function(self, name, alias=()):
        fd = self.front.function(name)
        params = [c for c in fd['inner'] if c['kind'] == 'ParmVarDecl']
        body = [c for c in fd['inner'] if c['kind'] == 'CompoundStmt'][0]
        env = {}; ints = []; fes = []
        amap = dict(alias)
        for p in params:
            qt = p['type']['qualType']
            nm = amap.get(p['name'], p['name'])
            if '*' in qt:
                base = qt.replace('const ', '').replace('*', '').replace('restrict', '').strip()
                if base.startswith('secp256k1_'): env[p['id']] = ('struct', nm)
                else: raise Unsupported('pointer parameter ' + qt)
            else:
                env[p['id']] = ('var', nm); ints.append(nm)
        out = []
        self.block(body, env, out, '', top=True)
        return {'name': name, 'body': self.prologue + out}

    # the inherited early-return restriction does not apply inside a scope: markers become `.ret`


def clean(ss):
    """MiniC-style tuples -> FeIR tuples; inlined-callee return markers become ret inside their scope"""
    out = []
    for s in ss:
        k = s[0]
        if k == 'fe': out.append(s)
        elif k == 'assign': out.append(('int', s[1], s[2]))
        elif k == 'ite': out.append(('ite', s[1], clean(s[2]), clean(s[3])))
        elif k == 'scope':
            sub = clean(s[1])
            if sub: out.append(('scope', sub))          # (empty: VERIFY-only helpers)
        elif k == 'ret':
            if s[1] != lit(0) or True: out.append(('int', 'ret', s[1]))
            out.append(('ret',))
        elif k == '__return__': out.append(('ret',))
        elif k == 'store': raise Unsupported('array store in a group-level function: ' + str(s[1]))
        elif k == 'loop': raise Unsupported('loop in a group-level function')
        else: raise Unsupported('statement ' + k)
    return out


def lean_fstmts(ss, ind):
    pad = ' ' * ind; items = []
    for s in ss:
        if s[0] == 'fe':
            op, args = s[1], s[2:]
            parts = []
            for x in args:
                if isinstance(x, str): parts.append('"%s"' % x)
                elif isinstance(x, int): parts.append(str(x))
                else: parts.append(K.lean_expr(x))
            items.append('%s.%s %s' % (pad, op, ' '.join(parts)))
        elif s[0] == 'int': items.append('%s.int "%s" %s' % (pad, s[1], K.lean_expr(s[2])))
        elif s[0] == 'ite': items.append('%s.ite %s [\n%s\n%s] [\n%s\n%s]' % (pad, K.lean_expr(s[1]), lean_fstmts(s[2], ind + 2), pad, lean_fstmts(s[3], ind + 2), pad))
        elif s[0] == 'scope': items.append('%s.scope [\n%s\n%s]' % (pad, lean_fstmts(s[1], ind + 2), pad))
        elif s[0] == 'ret': items.append('%s.ret' % pad)
    return ',\n'.join(items)


# lean name, C function, parameter aliasing (C callers pass the same object for both)
TARGETS = [
    ('gej_double', 'secp256k1_gej_double', ()),
    ('gej_double_inplace', 'secp256k1_gej_double', (('a', 'r'),)),
    ('gej_double_var', 'secp256k1_gej_double_var', ()),
    ('gej_add_var', 'secp256k1_gej_add_var', ()),
    ('gej_add_ge_var', 'secp256k1_gej_add_ge_var', ()),
    ('gej_add_ge_var_inplace', 'secp256k1_gej_add_ge_var', (('a', 'r'),)),
    ('gej_add_zinv_var', 'secp256k1_gej_add_zinv_var', ()),
    ('gej_add_ge', 'secp256k1_gej_add_ge', ()),
    ('gej_add_ge_inplace', 'secp256k1_gej_add_ge', (('a', 'r'),)),
    ('gej_neg', 'secp256k1_gej_neg', ()),
    ('ge_neg', 'secp256k1_ge_neg', ()),
    ('gej_set_ge', 'secp256k1_gej_set_ge', ()),
    ('gej_rescale', 'secp256k1_gej_rescale', ()),
    ('ge_set_gej_zinv', 'secp256k1_ge_set_gej_zinv', ()),
    ('ge_set_ge_zinv', 'secp256k1_ge_set_ge_zinv', ()),
    ('gej_eq_x_var', 'secp256k1_gej_eq_x_var', ()),
    ('ge_is_valid_var', 'secp256k1_ge_is_valid_var', ()),
    # the square root (a fixed addition chain of 255 squarings and 13 multiplications, loops unrolled) and what is built on it
    ('fe_sqrt', 'secp256k1_fe_sqrt', ()),
    ('fe_equal', 'secp256k1_fe_equal', ()),
    ('ge_set_xquad', 'secp256k1_ge_set_xquad', ()),
    ('ge_set_xo_var', 'secp256k1_ge_set_xo_var', ()),
]


def patch_returns(tr):
    """inside scopes an early return is fine: disable the inherited check by translating callee bodies ourselves"""
    orig = K.Translator.call
    def call(self, n, env, out, want_value=False):
        name = self.callee_name(n)
        fd = self.front.function(name)
        params = [c for c in fd['inner'] if c['kind'] == 'ParmVarDecl']
        body = [c for c in fd['inner'] if c['kind'] == 'CompoundStmt'][0]
        args = n['inner'][1:]
        cenv = {}; tag = self.fresh(name.replace('secp256k1_', ''))
        for p, a in zip(params, args):
            qt = p['type']['qualType']
            if '*' in qt: cenv[p['id']] = self.pointer(a, env)
            else:
                e, t = self.expr(a, env, out); pt = K.width_of(qt); loc = '%s.%s' % (tag, p['name'])
                ce = K.fold(self.convert(e, t, pt))
                if ce[0] == 'lit' and not self.assigned_in(body, p['id']): cenv[p['id']] = ('const', ce[1])
                else: out.append(('assign', loc, ce)); cenv[p['id']] = ('var', loc)
        retvar = '%s.ret' % tag
        rt = fd['type']['qualType'].split('(')[0].strip()
        self.block(body, cenv, out, tag, retvar=retvar, top=False)
        if rt == 'void': return lit(0), (32, True)
        return var(retvar), K.width_of(rt)
    return call
K.Translator.call_inline_scoped = patch_returns(None)


SETS = {'group': None, 'generator': [
    ('svdw', 'shallue_van_de_woestijne', ()),
], 'ellswift': [
    ('ge_x_on_curve_var', 'secp256k1_ge_x_on_curve_var', ()),
    ('ge_x_frac_on_curve_var', 'secp256k1_ge_x_frac_on_curve_var', ()),
    ('xswiftec_frac_var', 'secp256k1_ellswift_xswiftec_frac_var', ()),
    ('xswiftec_var', 'secp256k1_ellswift_xswiftec_var', ()),
    ('swiftec_var', 'secp256k1_ellswift_swiftec_var', ()),
    ('xswiftec_inv_var', 'secp256k1_ellswift_xswiftec_inv_var', ()),
    ('ge_set_gej', 'secp256k1_ge_set_gej', ()),
    ('ge_set_gej_var', 'secp256k1_ge_set_gej_var', ()),
]}


def regenerate(_arg, repo, lean_dir):
    from c2lean import write_if_changed
    front = K.Front(repo, 'native')
    errors, names, targets = [], [], []
    body = ['import SecpZkp.Model.FeIR',
            '/- GENERATED by tools/c2lean_f.py (mode F) from clang-14\'s typed AST of src/group_impl.h in the current working tree:',
            '   group-level functions as programs over field values. DO NOT EDIT. -/',
            'namespace SecpZkp', 'namespace Gen', 'namespace group', 'open MiniC FeIR', '']
    setname = _arg or 'group'
    tlist = TARGETS if setname == 'group' else SETS[setname]
    body = [b.replace('namespace group', 'namespace ' + setname) for b in body]
    for defname, cfn, alias in tlist:
        try:
            tr = FTranslator(front, unroll=True)
            fn = tr.function(cfn, alias)
            ss = clean(fn['body'])
            body.append('/-- `%s`%s -/\ndef %s : FeIR.Fn := {\n  name := "%s"\n  body := [\n%s\n  ]\n}\n' %
                        (cfn, (' with ' + ', '.join('%s aliased to %s' % a for a in alias)) if alias else '', defname, cfn, lean_fstmts(ss, 4)))
            names.append(defname)
            targets.append({'mode': 'F', 'name': defname, 'c_function': cfn, 'statements': K.count_stmts([('x',)] * 0) + sum(1 for _ in str(ss).split("('fe'")) - 1})
        except Unsupported as e:
            errors.append('F:%s (%s): %s' % (defname, cfn, e))
    body.append('def all : List (String × FeIR.Fn) := [%s]' % ', '.join('("%s", %s)' % (n, n) for n in names))
    body += ['', 'end ' + setname, 'end Gen', 'end SecpZkp', '']
    write_if_changed(os.path.join(lean_dir, 'SecpZkp', 'Gen', 'F_%s.lean' % setname), '\n'.join(body))
    return {'errors': errors, 'targets': targets, 'obligations': len(names)}


if __name__ == '__main__':
    root = os.path.dirname(os.path.dirname(os.path.abspath(__file__)))
    for a in (sys.argv[1:] or ['group', 'ellswift', 'generator']):
        r = regenerate(a, os.environ.get('VERIF_REPO', '/repo'), os.environ.get('C2LEAN_OUT', os.path.join(root, 'lean')))
        print(json.dumps({'errors': r['errors'], 'ok': [t['name'] for t in r['targets']]}))
