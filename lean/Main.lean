import SecpZkp.Driver.Basic
import SecpZkp.Driver.Generator
import Std.Data.HashMap
/-
  secpmodel: reads one operation per line on stdin, prints the model's result line.
-/
open SecpZkp SecpZkp.Driver

def allHandlers : List (String × Handler) :=
  basicHandlers ++ generatorHandlers

def table : Std.HashMap String Handler := Std.HashMap.ofList allHandlers

def runLine (line : String) : String :=
  match (line.trimAscii.toString.splitOn " ").filter (· ≠ "") with
  | [] => ""
  | op :: args =>
    if op.startsWith "#" then line.trimAscii.toString else
    match table.get? op with
    | none => "ERR unknown-op " ++ op
    | some h =>
      match h args with
      | some out => out
      | none => "ERR bad-args " ++ op

partial def loop (h : IO.FS.Stream) (out : IO.FS.Stream) : IO Unit := do
  let line ← h.getLine
  if line.isEmpty then return ()
  out.putStrLn (runLine line)
  loop h out

def main : IO Unit := do
  let stdin ← IO.getStdin
  let stdout ← IO.getStdout
  loop stdin stdout
  stdout.flush
