import SecpZkp.Driver.Basic
import SecpZkp.Driver.Generator
import SecpZkp.Driver.Ellswift
import SecpZkp.Driver.Adaptor
import SecpZkp.Driver.S2c
import SecpZkp.Driver.Whitelist
import SecpZkp.Driver.Halfagg
import SecpZkp.Driver.Bppp
import SecpZkp.Driver.Rangeproof
import SecpZkp.Driver.Musig
import SecpZkp.Driver.Surjection
import SecpZkp.Driver.Context
import SecpZkp.Driver.MiniC
import Std.Data.HashMap
/-
  secpmodel: reads one operation per line on stdin, prints the model's result line.
-/
open SecpZkp SecpZkp.Driver

def allHandlers : List (String × Handler) :=
  basicHandlers ++ generatorHandlers ++ ellswiftHandlers ++ adaptorHandlers ++ s2cHandlers ++ whitelistHandlers ++ halfaggHandlers ++ bpppHandlers ++ rangeproofHandlers ++ contextHandlers ++ minicHandlers ++ musigHandlers ++ surjectionHandlers

def table : Std.HashMap String Handler := Std.HashMap.ofList allHandlers

def runLine (line : String) : String :=
  match (line.trimAscii.toString.splitOn " ").filter (· ≠ "") with
  | [] => ""
  | op :: args =>
    if op.startsWith "#" then line.trimAscii.toString else
    match table.get? op with
    | none => "ERR unknown-op " ++ op
    | some h =>
      match h args with
      | some out => out
      | none => "ERR bad-args " ++ op

partial def loop (h : IO.FS.Stream) (out : IO.FS.Stream) : IO Unit := do
  let line ← h.getLine
  if line.isEmpty then return ()
  out.putStrLn (runLine line)
  loop h out

def main : IO Unit := do
  let stdin ← IO.getStdin
  let stdout ← IO.getStdout
  loop stdin stdout
  stdout.flush
