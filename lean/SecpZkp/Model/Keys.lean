import SecpZkp.Model.Ecdsa
import SecpZkp.Model.Heapsort
/-
  Secret/public key operations of `secp256k1.c` and the extrakeys module.
  A secret key is its 32-byte string; a keypair object is (32 secret bytes, public point), the
  all-zero keypair being (zeros, inf).
-/
namespace SecpZkp
namespace Keys

def seckeyVerify (sk : Bytes) : Nat := if (Sc.setB32Seckey sk).2 then 1 else 0

/-- `secp256k1_ec_pubkey_create` -/
def pubkeyCreate (sk : Bytes) : Nat × Pt :=
  let (d, ok) := Sc.setB32Seckey sk
  if ok then (1, Pt.mulG d) else (0, .inf)

/-- `secp256k1_ec_seckey_negate`: (ret, new key bytes) -/
def seckeyNegate (sk : Bytes) : Nat × Bytes :=
  let (d, ok) := Sc.setB32Seckey sk
  if ok then (1, Bytes.be32 (Sc.neg d)) else (0, Bytes.zeros 32)

/-- `secp256k1_ec_pubkey_negate` -/
def pubkeyNegate (pk : Pt) : Ret Pt :=
  match pk with
  | .inf => ⟨0, .inf, 1⟩
  | q => ⟨1, Pt.neg q, 0⟩

/-- `secp256k1_ec_seckey_tweak_add` -/
def seckeyTweakAdd (sk tweak : Bytes) : Nat × Bytes :=
  let (d, ok) := Sc.setB32Seckey sk
  match Ecdsa.seckeyTweakAddHelper d tweak with
  | some r => if ok then (1, Bytes.be32 r) else (0, Bytes.zeros 32)
  | none => (0, Bytes.zeros 32)

/-- `secp256k1_ec_pubkey_tweak_add` -/
def pubkeyTweakAdd (pk : Pt) (tweak : Bytes) : Ret Pt :=
  match pk with
  | .inf => ⟨0, .inf, 1⟩
  | q => match Ecdsa.pubkeyTweakAddHelper q tweak with
    | some r => ⟨1, r, 0⟩
    | none => ⟨0, .inf, 0⟩

/-- `secp256k1_ec_seckey_tweak_mul` -/
def seckeyTweakMul (sk tweak : Bytes) : Nat × Bytes :=
  let (f, ov) := Sc.setB32 tweak
  let (d, ok) := Sc.setB32Seckey sk
  if ok ∧ ¬ ov ∧ f ≠ 0 then (1, Bytes.be32 (Sc.mul d f)) else (0, Bytes.zeros 32)

/-- `secp256k1_ec_pubkey_tweak_mul` -/
def pubkeyTweakMul (pk : Pt) (tweak : Bytes) : Ret Pt :=
  let (f, ov) := Sc.setB32 tweak
  if ov then ⟨0, .inf, 0⟩          -- short circuit: pubkey not loaded, object still zeroed
  else match pk with
    | .inf => ⟨0, .inf, 1⟩
    | q => if f = 0 then ⟨0, .inf, 0⟩ else ⟨1, Pt.mul f q, 0⟩

/-- `secp256k1_ec_pubkey_combine` (n ≥ 1; invalid entries raise the callback and are added as
    whatever `pubkey_load` left, which the API forbids: the harness only passes valid keys). -/
def pubkeyCombine (pks : List Pt) : Ret Pt :=
  if pks.isEmpty then ⟨0, .inf, 1⟩ else
  match Pt.sum pks with
  | .inf => ⟨0, .inf, 0⟩
  | q => ⟨1, q, 0⟩

/-- Serialization used by comparison: invalid key ↦ 33 zero bytes (and one callback). -/
def cmpKey (pk : Pt) : Bytes := Codec.serialize33 pk

/-- `secp256k1_ec_pubkey_cmp`: sign of memcmp, and callbacks raised. -/
def pubkeyCmp (a b : Pt) : Ret Unit :=
  let c := Bytes.cmp (cmpKey a) (cmpKey b)
  ⟨if c < 0 then 2 else if c > 0 then 1 else 0, (), (if a.isInf then 1 else 0) + (if b.isInf then 1 else 0)⟩

/-! ### extrakeys -/

def xonlySerialize (pk : Pt) : Ret Bytes :=
  match pk with
  | .inf => ⟨0, Bytes.zeros 32, 1⟩
  | .aff x _ => ⟨1, Bytes.be32 x, 0⟩

def xonlyCmp (a b : Pt) : Ret Unit :=
  let c := Bytes.cmp (xonlySerialize a).out (xonlySerialize b).out
  ⟨if c < 0 then 2 else if c > 0 then 1 else 0, (), (if a.isInf then 1 else 0) + (if b.isInf then 1 else 0)⟩

/-- negate to even y; returns (point, parity) -/
def evenY : Pt → Pt × Nat
  | .inf => (.inf, 0)
  | .aff x y => if Fe.isOdd y then (.aff x (Fe.neg y), 1) else (.aff x y, 0)

/-- `secp256k1_xonly_pubkey_from_pubkey`: (ret, xonly, parity) -/
def xonlyFromPubkey (pk : Pt) : Ret (Pt × Nat) :=
  match pk with
  | .inf => ⟨0, (.inf, 0), 1⟩
  | q => ⟨1, evenY q, 0⟩

/-- `secp256k1_xonly_pubkey_tweak_add` -/
def xonlyTweakAdd (xpk : Pt) (tweak : Bytes) : Ret Pt := pubkeyTweakAdd xpk tweak

/-- `secp256k1_xonly_pubkey_tweak_add_check` -/
def xonlyTweakAddCheck (tweaked32 : Bytes) (parity : Nat) (xpk : Pt) (tweak : Bytes) : Ret Unit :=
  match xpk with
  | .inf => ⟨0, (), 1⟩
  | q => match Ecdsa.pubkeyTweakAddHelper q tweak with
    | none => ⟨0, (), 0⟩
    | some r =>
      let ok := Bytes.be32 r.xOf == tweaked32 && ((if Fe.isOdd r.yOf then 1 else 0) == parity)
      ⟨if ok then 1 else 0, (), 0⟩

structure Keypair where
  sk : Bytes
  pk : Pt
deriving Repr

def Keypair.zero : Keypair := ⟨Bytes.zeros 32, .inf⟩

/-- `secp256k1_keypair_create` -/
def keypairCreate (sk : Bytes) : Nat × Keypair :=
  let (d, ok) := Sc.setB32Seckey sk
  if ok then (1, ⟨Bytes.be32 d, Pt.mulG d⟩) else (0, Keypair.zero)

/-- `secp256k1_keypair_load`: (ok, sk, pk, callbacks); dummy values (1, G) on failure. -/
def keypairLoad (kp : Keypair) (wantSk : Bool) : Bool × Nat × Pt × Nat :=
  match kp.pk with
  | .inf => (false, 1, Pt.G, 1)
  | q =>
    if wantSk then
      let (d, ok) := Sc.setB32Seckey kp.sk
      if ok then (true, d, q, 0) else (false, 1, Pt.G, 1)
    else (true, 1, q, 0)

/-- `secp256k1_keypair_xonly_pub` -/
def keypairXonlyPub (kp : Keypair) : Ret (Pt × Nat) :=
  let (ok, _, pk, ill) := keypairLoad kp false
  if ok then ⟨1, evenY pk, 0⟩ else ⟨0, (.inf, 0), ill⟩

/-- `secp256k1_keypair_xonly_tweak_add` -/
def keypairXonlyTweakAdd (kp : Keypair) (tweak : Bytes) : Ret Keypair :=
  let (ok, sk, pk, ill) := keypairLoad kp true
  let (pk', par) := evenY pk
  let sk' := if par = 1 then Sc.neg sk else sk
  match Ecdsa.seckeyTweakAddHelper sk' tweak, Ecdsa.pubkeyTweakAddHelper pk' tweak with
  | some s, some p => if ok then ⟨1, ⟨Bytes.be32 s, p⟩, ill⟩ else ⟨0, Keypair.zero, ill⟩
  | _, _ => ⟨0, Keypair.zero, ill⟩

/-- `secp256k1_ec_pubkey_sort`: heap sort of the pointer array by `secp256k1_ec_pubkey_cmp`. -/
def pubkeySort (pks : List Pt) : List Pt :=
  (Heapsort.hsort (fun a b => Bytes.cmp (cmpKey a) (cmpKey b)) pks.toArray).toList

/-! ### chains of mixed operations, applied to a secret key and to its public key -/

inductive ChainOp where
  | add (t : Bytes)      -- seckey_tweak_add / pubkey_tweak_add
  | mul (t : Bytes)      -- seckey_tweak_mul / pubkey_tweak_mul
  | neg                  -- seckey_negate / pubkey_negate
  | xadd (t : Bytes)     -- keypair_xonly_tweak_add / xonly_from_pubkey + xonly_tweak_add

/-- one step on the secret side -/
def chainSec (sk : Bytes) : ChainOp → Option Bytes
  | .add t => let (r, o) := seckeyTweakAdd sk t; if r = 1 then some o else none
  | .mul t => let (r, o) := seckeyTweakMul sk t; if r = 1 then some o else none
  | .neg => let (r, o) := seckeyNegate sk; if r = 1 then some o else none
  | .xadd t =>
    let (r, kp) := keypairCreate sk
    if r = 0 then none else
    let r2 := keypairXonlyTweakAdd kp t
    if r2.ret = 1 then some r2.out.sk else none

/-- one step on the public side -/
def chainPub (pk : Pt) : ChainOp → Option Pt
  | .add t => let r := pubkeyTweakAdd pk t; if r.ret = 1 then some r.out else none
  | .mul t => let r := pubkeyTweakMul pk t; if r.ret = 1 then some r.out else none
  | .neg => let r := pubkeyNegate pk; if r.ret = 1 then some r.out else none
  | .xadd t =>
    let r := xonlyFromPubkey pk
    if r.ret = 0 then none else
    let r2 := xonlyTweakAdd r.out.1 t
    if r2.ret = 1 then some r2.out else none

def chainSecAll (sk : Bytes) (ops : List ChainOp) : Option Bytes := ops.foldlM chainSec sk
def chainPubAll (pk : Pt) (ops : List ChainOp) : Option Pt := ops.foldlM chainPub pk

end Keys
end SecpZkp
