import SecpZkp.Model.Keys
/-
  ECDSA adaptor signatures (modules/ecdsa_adaptor/main_impl.h) and the DLEQ proof they carry
  (modules/ecdsa_adaptor/dleq_impl.h).

  A 162-byte adaptor signature is  ser33(R) ‖ ser33(R') ‖ s' ‖ e ‖ s  with R = k·Y, R' = k·G,
  s' = k⁻¹(m + R.x·d) and (e, s) a DLEQ proof that log_G R' = log_Y R.
  Tagged hashes are computed from their tag strings; the C code's midstates must agree (checked by the
  correspondence).
-/
namespace SecpZkp
namespace Adaptor

/-- `secp256k1_nonce_function_hardened_ecdsa_adaptor`: msg32, key32, pk33, algo, data ↦ nonce32 or failure. -/
abbrev NonceFnA := Bytes → Bytes → Bytes → Bytes → Option Bytes → Option Bytes

def adaptorAlgo : Bytes := "ECDSAadaptor/non".toUTF8.toList
def dleqAlgo : Bytes := "DLEQ".toUTF8.toList

/-- `secp256k1_nonce_function_ecdsa_adaptor_sha256_tagged` -/
def tagNonce : Sha256.State := Sha256.initTagged adaptorAlgo
/-- `secp256k1_nonce_function_ecdsa_adaptor_sha256_tagged_aux` -/
def tagAux : Sha256.State := Sha256.initTagged "ECDSAadaptor/aux".toUTF8.toList
/-- `secp256k1_nonce_function_dleq_sha256_tagged` -/
def tagDleq : Sha256.State := Sha256.initTagged dleqAlgo

/-- `nonce_function_ecdsa_adaptor_impl` (algo is never NULL when called from the library). -/
def nonceDefault : NonceFnA := fun msg32 key32 pk33 algo data =>
  let key := match data with
    | some d => Bytes.xor (Sha256.finalize (Sha256.write tagAux d)) key32
    | none => key32
  let sha :=
    if algo = adaptorAlgo then tagNonce
    else if algo = dleqAlgo then tagDleq
    else Sha256.initTagged algo
  some (Sha256.finalize (Sha256.writeAll sha [key, pk33, msg32]))

/-! ### DLEQ -/

/-- `secp256k1_dleq_nonce` (`noncefp` already defaulted by the caller) -/
def dleqNonce (sk32 gen2_33 p1_33 p2_33 : Bytes) (noncefp : NonceFnA) (ndata : Option Bytes) : Option Nat :=
  let buf := Sha256.sha256 (p1_33 ++ p2_33)
  match noncefp buf sk32 gen2_33 dleqAlgo ndata with
  | none => none
  | some nonce =>
    let k := Bytes.toNat nonce % N
    if k = 0 then none else some k

/-- `secp256k1_dleq_challenge`: tagged hash of p1, gen2, p2, r1, r2 (33-byte encodings), reduced mod n. -/
def dleqChallenge (gen2 r1 r2 p1 p2 : Pt) : Nat :=
  Bytes.toNat (Sha256.finalize (Sha256.writeAll tagDleq
    [Codec.serialize33 p1, Codec.serialize33 gen2, Codec.serialize33 p2,
     Codec.serialize33 r1, Codec.serialize33 r2])) % N

/-- `secp256k1_dleq_pair`: (x·G, x·gen2) -/
def dleqPair (sk : Nat) (gen2 : Pt) : Pt × Pt := (Pt.mulG sk, Pt.mul sk gen2)

/-- `secp256k1_dleq_prove`: `some (s, e)` or failure. -/
def dleqProve (sk : Nat) (p1 gen2 p2 : Pt) (noncefp : Option NonceFnA) (ndata : Option Bytes) : Option (Nat × Nat) :=
  let f := noncefp.getD nonceDefault
  match dleqNonce (Bytes.be32 sk) (Codec.serialize33 gen2) (Codec.serialize33 p1) (Codec.serialize33 p2) f ndata with
  | none => none
  | some k =>
    let (r1, r2) := dleqPair k gen2
    let e := dleqChallenge gen2 r1 r2 p1 p2
    let s := Sc.add (Sc.mul e sk) k
    some (s, e)

/-- `secp256k1_dleq_verify` -/
def dleqVerify (s e : Nat) (p1 gen2 p2 : Pt) : Bool :=
  let eNeg := Sc.neg e
  let r1 := Pt.add (Pt.mul eNeg p1) (Pt.mulG s)
  let r2 := Pt.add (Pt.mul s gen2) (Pt.mul eNeg p2)
  if r1.isInf || r2.isInf then false
  else
    let eExpected := dleqChallenge gen2 r1 r2 p1 p2
    Sc.add eExpected eNeg = 0

/-! ### 162-byte codec -/

/-- `secp256k1_ecdsa_adaptor_sig_serialize` -/
def sigSerialize (r rp : Pt) (sp e s : Nat) : Bytes :=
  Codec.serialize33 r ++ Codec.serialize33 rp ++ Bytes.be32 sp ++ Bytes.be32 e ++ Bytes.be32 s

structure Parts where
  r : Pt := .inf
  sigr : Nat := 0
  rp : Pt := .inf
  sp : Nat := 0
  e : Nat := 0
  s : Nat := 0
deriving Repr

/-- `secp256k1_ecdsa_adaptor_sig_deserialize`.  The C function takes a NULL pointer for every part
    the caller does not want; the library uses exactly two shapes: all parts (`full = true`, verify)
    and only `sigr` and `sp` (`full = false`, decrypt and recover).  Checks are made in the order
    R, sigr, R', s', (e unchecked), s. -/
def sigDeserialize (full : Bool) (a : Bytes) : Option Parts :=
  let rParse : Option Pt := if full then Codec.pubkeyParse (a.take 33) else some .inf
  match rParse with
  | none => none
  | some r =>
    let sigr := Bytes.toNat ((a.drop 1).take 32) % N
    if sigr = 0 then none else
    let rpParse : Option Pt := if full then Codec.pubkeyParse ((a.drop 33).take 33) else some .inf
    match rpParse with
    | none => none
    | some rp =>
      let (sp, spOk) := Sc.setB32Seckey ((a.drop 66).take 32)
      if !spOk then none else
      if full then
        let e := Bytes.toNat ((a.drop 98).take 32) % N
        let (s, ov) := Sc.setB32 ((a.drop 130).take 32)
        if ov then none else some ⟨r, sigr, rp, sp, e, s⟩
      else some ⟨r, sigr, rp, sp, 0, 0⟩

/-! ### API -/

/-- `secp256k1_ecdsa_adaptor_encrypt`.  Output `none`: the 162-byte buffer was not written. -/
def encrypt (seckey32 : Bytes) (enckey : Pt) (msg32 : Bytes) (noncefp : Option NonceFnA)
    (ndata : Option Bytes) : Ret (Option Bytes) :=
  let f := noncefp.getD nonceDefault
  match enckey with
  | .inf => ⟨0, none, 1⟩                       -- pubkey_load: illegal callback, nothing written
  | y =>
    let buf33 := Codec.serialize33 y
    let (nonce32, nok) := match f msg32 seckey32 buf33 adaptorAlgo ndata with
      | some n => (n, true)
      | none => (Bytes.zeros 32, false)
    let k0 := Bytes.toNat nonce32 % N
    let ret1 := nok && k0 != 0
    let k := if ret1 then k0 else 1
    let r := Pt.mul k y            -- R  = k·Y
    let rp := Pt.mulG k            -- R' = k·G
    match dleqProve k rp y r (some f) ndata with
    | none => ⟨0, some (Bytes.zeros 162), 0⟩
    | some (ds, de) =>
      let (sk0, skOk) := Sc.setB32Seckey seckey32
      let ret2 := ret1 && skOk
      let sk := if ret2 then sk0 else 1
      let msg := Bytes.toNat msg32 % N
      let sigr := r.xOf % N
      let ret3 := ret2 && sigr != 0
      let n := Sc.add (Sc.mul sigr sk) msg
      let sp := Sc.mul (Sc.inv k) n
      let ret := ret3 && sp != 0
      if ret then ⟨1, some (sigSerialize r rp sp de ds), 0⟩
      else ⟨0, some (Bytes.zeros 162), 0⟩

/-- `secp256k1_ecdsa_adaptor_verify` -/
def verify (adaptorSig : Bytes) (pubkey : Pt) (msg32 : Bytes) (enckey : Pt) : Ret Unit :=
  match sigDeserialize true adaptorSig with
  | none => ⟨0, (), 0⟩
  | some p =>
    match enckey with
    | .inf => ⟨0, (), 1⟩
    | y =>
      if !dleqVerify p.s p.e p.rp y p.r then ⟨0, (), 0⟩ else
      let msg := Bytes.toNat msg32 % N
      match pubkey with
      | .inf => ⟨0, (), 1⟩
      | x =>
        let sn := Sc.inv p.sp
        let u1 := Sc.mul sn msg
        let u2 := Sc.mul sn p.sigr
        let derived := Pt.add (Pt.mul u2 x) (Pt.mulG u1)
        if derived.isInf then ⟨0, (), 0⟩
        else ⟨if (Pt.add (Pt.neg derived) p.rp).isInf then 1 else 0, (), 0⟩

/-- `secp256k1_ecdsa_adaptor_decrypt`: (ret, signature object), object zeroed on failure. -/
def decrypt (deckey32 adaptorSig : Bytes) : Nat × (Nat × Nat) :=
  let (deckey, ov) := Sc.setB32 deckey32
  -- no early exit: every check is accumulated into `ret`, the object is wiped at the end
  let (p, desOk) : Parts × Bool := match sigDeserialize false adaptorSig with
    | some p => (p, true)
    | none => ({}, false)
  let ret := !ov && desOk && deckey != 0
  let s0 := Sc.mul (Sc.inv deckey) p.sp
  let s := if Sc.isHigh s0 then Sc.neg s0 else s0
  if ret then (1, (p.sigr, s)) else (0, (0, 0))

/-- `secp256k1_ecdsa_adaptor_recover`.  Output `none`: `deckey32` was not written.  Note that the
    buffer IS written on the path "r does not match / s = 0 but the implied key matches". -/
def recover (sig : Nat × Nat) (adaptorSig : Bytes) (enckey : Pt) : Ret (Option Bytes) :=
  match sigDeserialize false adaptorSig with
  | none => ⟨0, none, 0⟩
  | some p =>
    let (r, s) := sig
    let ret := (p.sigr == r) && (s != 0)
    let deckey := Sc.mul (Sc.inv s) p.sp
    -- ge_set_gej of infinity gives x = y = 0, serialized as 02‖0…0
    let expected33 : Bytes := match Pt.mulG deckey with
      | .inf => (0x02 : UInt8) :: Bytes.zeros 32
      | q => Codec.serialize33 q
    match enckey with
    | .inf => ⟨0, none, 1⟩
    | y =>
      let enckey33 := Codec.serialize33 y
      if expected33.drop 1 ≠ enckey33.drop 1 then ⟨0, none, 0⟩ else
      let deckey' := if expected33.take 1 ≠ enckey33.take 1 then Sc.neg deckey else deckey
      ⟨if ret then 1 else 0, some (Bytes.be32 deckey'), 0⟩

end Adaptor
end SecpZkp
