import SecpZkp.Model.Der
import SecpZkp.Model.Sha256
/-
  ECDSA: `secp256k1_ecdsa_sig_verify/sign/recover`, the API wrappers of `secp256k1.c`, the
  RFC 6979 nonce function, `secp256k1_ecdsa_sign_inner` (with the sign-to-contract hook) and the
  recovery module.  A signature object is a pair (r, s) of scalars < n.
-/
namespace SecpZkp
namespace Ecdsa

/-- `secp256k1_ecdsa_sig_verify` -/
def sigVerify (r s : Nat) (q : Pt) (m : Nat) : Bool :=
  if r = 0 ∨ s = 0 then false else
  let sn := Sc.inv s
  let u1 := Sc.mul sn m
  let u2 := Sc.mul sn r
  match Pt.add (Pt.mul u2 q) (Pt.mulG u1) with
  | .inf => false
  | .aff x _ =>
    if x = r then true
    else if r ≥ P - N then false
    else x = r + N

/-- `secp256k1_ecdsa_verify` -/
def verify (sig : Nat × Nat) (msg32 : Bytes) (pk : Pt) : Ret Unit :=
  let m := Bytes.toNat msg32 % N
  if Sc.isHigh sig.2 then ⟨0, (), 0⟩
  else if pk.isInf then ⟨0, (), 1⟩
  else ⟨if sigVerify sig.1 sig.2 pk m then 1 else 0, (), 0⟩

/-- `secp256k1_ecdsa_signature_normalize` : (ret = was high, normalized signature) -/
def normalize (sig : Nat × Nat) : Nat × (Nat × Nat) :=
  if Sc.isHigh sig.2 then (1, (sig.1, Sc.neg sig.2)) else (0, sig)

/-- `secp256k1_ecdsa_signature_parse_compact` -/
def parseCompact (in64 : Bytes) : Nat × (Nat × Nat) :=
  let (r, o1) := Sc.setB32 (in64.take 32)
  let (s, o2) := Sc.setB32 (in64.drop 32)
  if o1 || o2 then (0, (0, 0)) else (1, (r, s))

def serializeCompact (sig : Nat × Nat) : Bytes := Bytes.be32 sig.1 ++ Bytes.be32 sig.2

/-- `secp256k1_ecdsa_signature_parse_der`: on failure the object is zeroed. -/
def parseDer (input : Bytes) : Nat × (Nat × Nat) :=
  match Der.sigParse input with
  | some rs => (1, rs)
  | none => (0, (0, 0))

/-- `secp256k1_ecdsa_sig_sign`: returns (ok, r, s, recid). -/
def sigSign (sec m nonce : Nat) : Bool × Nat × Nat × Nat :=
  match Pt.mulG nonce with
  | .inf => (false, 0, 0, 0)      -- not reachable for 1 ≤ nonce < n
  | .aff x y =>
    let r := x % N
    let overflow := if x ≥ N then 1 else 0
    let recid0 := overflow * 2 + (if Fe.isOdd y then 1 else 0)
    let n := Sc.add (Sc.mul r sec) m
    let s0 := Sc.mul (Sc.inv nonce) n
    let high := Sc.isHigh s0
    let s := if high then Sc.neg s0 else s0
    let recid := if high then recid0 ^^^ 1 else recid0
    (r ≠ 0 ∧ s ≠ 0, r, s, recid)

/-! ### Nonce functions -/

/-- A nonce function: msg32, key32, algo16?, data?, counter ↦ nonce32 or failure. -/
abbrev NonceFn := Bytes → Bytes → Option Bytes → Option Bytes → Nat → Option Bytes

/-- `nonce_function_rfc6979_impl` -/
def rfc6979Nonce : NonceFn := fun msg32 key32 algo16 data counter =>
  let msgmod := Bytes.be32 (Bytes.toNat msg32 % N)
  let keydata := key32 ++ msgmod ++ (data.getD []) ++ (algo16.getD [])
  let rng := Sha256.rfc6979Init keydata
  let rec gen : Nat → Sha256.Rfc6979 → Bytes → Bytes
    | 0, _, out => out
    | k + 1, rng, _ => let (o, rng') := Sha256.rfc6979Generate rng 32; gen k rng' o
  some (gen (counter + 1) rng [])

/-- The sign-to-contract hook of `sign_inner`: initial hash object and the 32 data bytes. -/
structure S2cHook where
  sha : Sha256.State
  data : Bytes

/-- `secp256k1_ec_commit_tweak`: hash(ser33(P) ‖ data) continuing `sha`. -/
def ecCommitTweak (sha : Sha256.State) (p : Pt) (data : Bytes) : Option Bytes :=
  match p with
  | .inf => none
  | q => some (Sha256.finalize (Sha256.write (Sha256.write sha (Codec.serialize33 q)) data))

/-- `secp256k1_ec_seckey_tweak_add_helper` -/
def seckeyTweakAddHelper (sec : Nat) (tweak32 : Bytes) : Option Nat :=
  let (t, ov) := Sc.setB32 tweak32
  let r := Sc.add sec t
  if ov ∨ r = 0 then none else some r

/-- `secp256k1_ec_pubkey_tweak_add_helper` -/
def pubkeyTweakAddHelper (p : Pt) (tweak32 : Bytes) : Option Pt :=
  let (t, ov) := Sc.setB32 tweak32
  if ov then none else
  match Pt.add p (Pt.mulG t) with
  | .inf => none
  | q => some q

/-- `secp256k1_ec_commit` -/
def ecCommit (sha : Sha256.State) (p : Pt) (data : Bytes) : Option Pt :=
  match ecCommitTweak sha p data with
  | none => none
  | some tw => pubkeyTweakAddHelper p tw

structure SignOut where
  ret : Nat
  r : Nat
  s : Nat
  recid : Nat
  opening : Option Pt      -- value written to `s2c_opening`, if it was written

/-- `secp256k1_ecdsa_sign_inner`. `fuel` bounds the retry loop. -/
def signInner (fuel : Nat) (s2c : Option S2cHook) (msg32 seckey : Bytes) (noncefp : Option NonceFn)
    (ndata : Option Bytes) : SignOut :=
  let (sec0, isSecValid) := Sc.setB32Seckey seckey
  let sec := if isSecValid then sec0 else 1
  let m := Bytes.toNat msg32 % N
  let rec loop : Nat → Nat → Option Pt → SignOut
    | 0, _, op => ⟨0, 0, 0, 0, op⟩
    | fuel + 1, count, op =>
      let nonce? := match noncefp with
        | none => rfc6979Nonce msg32 seckey none ndata count
        | some f => f msg32 seckey none ndata count
      match nonce? with
      | none => ⟨0, 0, 0, 0, op⟩
      | some nonce32 =>
        let (non, isNonceValid) := Sc.setB32Seckey nonce32
        if isNonceValid then
          -- optional sign-to-contract tweak
          let tweaked : Option (Nat × Option Pt) :=
            match s2c with
            | none => some (non, op)
            | some hook =>
              let np := Pt.mulG non
              match ecCommitTweak hook.sha np hook.data with
              | none => none
              | some tw =>
                match seckeyTweakAddHelper non tw with
                | none => none
                | some non' => some (non', some np)
          match tweaked with
          | none =>
            -- commit failed: ret = 0, loop exits (opening was already saved)
            ⟨0, 0, 0, 0, match s2c with | some _ => some (Pt.mulG non) | none => op⟩
          | some (non', op') =>
            let (ok, r, s, recid) := sigSign sec m non'
            if ok then
              if isSecValid then ⟨1, r, s, recid, op'⟩ else ⟨0, 0, 0, 0, op'⟩
            else loop fuel (count + 1) op'
        else loop fuel (count + 1) op
  loop fuel 0 none

/-- `secp256k1_ecdsa_sign` -/
def sign (msg32 seckey : Bytes) (noncefp : Option NonceFn) (ndata : Option Bytes) : Nat × (Nat × Nat) :=
  let o := signInner 64 none msg32 seckey noncefp ndata
  (o.ret, (o.r, o.s))

/-! ### Recovery module -/

/-- `secp256k1_ecdsa_sig_recover` -/
def sigRecover (r s m recid : Nat) : Option Pt :=
  if r = 0 ∨ s = 0 then none else
  let fx? : Option Nat :=
    if recid &&& 2 ≠ 0 then (if r ≥ P - N then none else some (r + N)) else some r
  match fx? with
  | none => none
  | some fx =>
    match Pt.liftX fx (recid &&& 1 = 1) with
    | none => none
    | some x =>
      let rn := Sc.inv r
      let u1 := Sc.neg (Sc.mul rn m)
      let u2 := Sc.mul rn s
      match Pt.add (Pt.mul u2 x) (Pt.mulG u1) with
      | .inf => none
      | q => some q

/-- `secp256k1_ecdsa_sign_recoverable` : (ret, r, s, recid) -/
def signRecoverable (msg32 seckey : Bytes) (noncefp : Option NonceFn) (ndata : Option Bytes) : SignOut :=
  signInner 64 none msg32 seckey noncefp ndata

/-- `secp256k1_ecdsa_recover` (object zeroed on failure) -/
def recover (sig : Nat × Nat) (recid : Nat) (msg32 : Bytes) : Nat × Pt :=
  match sigRecover sig.1 sig.2 (Bytes.toNat msg32 % N) recid with
  | some q => (1, q)
  | none => (0, .inf)

end Ecdsa
end SecpZkp
