import SecpZkp.Model.Field
import SecpZkp.Model.Curve
import SecpZkp.Model.Bytes
import SecpZkp.Model.MiniC
import SecpZkp.Model.Schnorr
/-
  AlgIR: the protocol cores of the C library (src/ecdsa_impl.h `secp256k1_ecdsa_sig_verify`, `_sig_sign`,
  modules/recovery `secp256k1_ecdsa_sig_recover`, …) as programs over ALGEBRAIC values: scalars mod n, field elements
  mod p, curve points, 32-byte strings and integer flags.  `tools/c2lean_p.py` (translator mode P) regenerates
  `Gen/P_ecdsa.lean` from clang's AST of the current sources: one statement per call of a scalar / field / group /
  conversion primitive.  The primitives' own correctness is the subject of the lower levels (scalar and field kernels:
  Props/C05_scalar*, C05_field*; group functions and lift_x: Props/C05_group, C05_sqrt); `ecmult` / `ecmult_gen` and the
  modular inverse are specification-level here (tied by correspondence).
-/
namespace SecpZkp
namespace AlgIR
open MiniC

inductive Stmt where
  -- scalars
  | scSet (d s : String)
  | scMul (d a b : String)
  | scAdd (d a b : String)
  | scNeg (d a : String)
  | scInv (d a : String)                          -- secp256k1_scalar_inverse / _inverse_var
  | scClear (d : String)
  | scConst (d : String) (n : Nat)                -- a file-scope scalar constant (secp256k1_scalar_one, …)
  | scOfBytesSeckey (x d b : String)              -- x := secp256k1_scalar_set_b32_seckey(d, b)
  | scCmov (d s : String) (flag : Expr)           -- secp256k1_scalar_cmov
  | scIsZero (x s : String)
  | scIsHigh (x s : String)
  | scCondNeg (d : String) (flag : Expr)          -- secp256k1_scalar_cond_negate(d, flag)
  | scOfBytes (d b : String) (ov : Option String) -- secp256k1_scalar_set_b32(d, b, &ov)
  | bytesOfSc (b s : String)                      -- secp256k1_scalar_get_b32
  -- field elements
  | feConst (d : String) (n : Nat)                -- a file-scope SECP256K1_FE_CONST object
  | feOfBytesMod (d b : String)                   -- secp256k1_fe_set_b32_mod
  | feOfBytesLimit (x d b : String)               -- x := secp256k1_fe_set_b32_limit(d, b)
  | bytesOfFe (b f : String)                      -- secp256k1_fe_get_b32 (f normalized)
  | feAdd (d a : String)
  | feNorm (d : String)                           -- normalize / normalize_var / normalize_weak: value unchanged
  | feCmp (x a b : String)                        -- x := secp256k1_fe_cmp_var(a, b): 1, 0 or -1 (as a 32-bit int)
  | feIsOdd (x f : String)
  -- points
  | ptSet (d s : String)                          -- gej_set_ge / ge_set_gej(_var) / struct copy: the same point
  | ptClear (d : String)
  | ptAdd (d a b : String)                        -- gej_add_var / gej_add_ge_var / gej_add_ge: d := a + b
  | ptNeg (d a : String)                          -- gej_neg / ge_neg
  | ecmult (d a na ng : String)                   -- secp256k1_ecmult: d := na·a + ng·G
  | ecmultGen (d n : String)                      -- secp256k1_ecmult_gen: d := n·G
  | ptIsInf (x p : String)
  | eqX (x f p : String)                          -- x := secp256k1_gej_eq_x_var(f, p)   (p not infinity)
  | liftX (x d f : String) (odd : Expr)           -- x := secp256k1_ge_set_xo_var(d, f, odd)
  | ptLoad (x d src : String)                     -- x := secp256k1_(xonly_)pubkey_load(ctx, d, src): fails (illegal callback) on the all-zero object
  | feEqual (x a b : String)                      -- x := secp256k1_fe_equal(a, b)
  | challenge (e r32 msg pk32 : String)           -- secp256k1_schnorrsig_challenge: BIP-340 tagged hash of r ‖ pk ‖ msg, reduced mod n
  -- control
  | int (x : String) (e : Expr)
  | ite (c : Expr) (t e : List Stmt)
  | scope (body : List Stmt)                      -- an inlined callee: a `ret` inside ends the callee only
  | ret
deriving Repr

structure State where
  sc : List (String × Nat) := []
  fe : List (String × Nat) := []
  pt : List (String × Pt) := []
  bs : List (String × Bytes) := []
  ints : Env := []
  returned : Bool := false

def lookup {α : Type} (dflt : α) (l : List (String × α)) (x : String) : α :=
  match l.find? (·.1 == x) with
  | some p => p.2
  | none => dflt

def update {α : Type} (l : List (String × α)) (x : String) (v : α) : List (String × α) :=
  (x, v) :: l.filter (·.1 != x)

def State.scGet (st : State) (x : String) : Nat := lookup 0 st.sc x
def State.ptGet (st : State) (x : String) : Pt := lookup Pt.inf st.pt x
def State.byGet (st : State) (x : String) : Bytes := lookup (Bytes.zeros 32) st.bs x

/-- a field variable; `p.x` / `p.y` read the coordinates of the point variable `p` (a `secp256k1_ge` after
    `secp256k1_ge_set_gej`) unless they were assigned as field variables themselves -/
def State.feGet (st : State) (x : String) : Nat :=
  match st.fe.find? (·.1 == x) with
  | some p => p.2
  | none =>
    if x.endsWith ".x" then Pt.xOf (st.ptGet (String.ofList (x.toList.dropLast.dropLast)))
    else if x.endsWith ".y" then Pt.yOf (st.ptGet (String.ofList (x.toList.dropLast.dropLast)))
    else 0

def i32 (b : Bool) : Nat := if b then 1 else 0

mutual
def execS (st : State) : Stmt → State
  | .scSet d s => { st with sc := update st.sc d (st.scGet s) }
  | .scMul d a b => { st with sc := update st.sc d (Sc.mul (st.scGet a) (st.scGet b)) }
  | .scAdd d a b => { st with sc := update st.sc d (Sc.add (st.scGet a) (st.scGet b)) }
  | .scNeg d a => { st with sc := update st.sc d (Sc.neg (st.scGet a)) }
  | .scInv d a => { st with sc := update st.sc d (Sc.inv (st.scGet a)) }
  | .scClear d => { st with sc := update st.sc d 0 }
  | .scConst d n => { st with sc := update st.sc d (n % N) }
  | .scOfBytesSeckey x d b =>
    let v := Bytes.toNat (st.byGet b)
    { st with sc := update st.sc d (v % N), ints := st.ints.set x 0 (i32 (v < N ∧ v ≠ 0)) }
  | .scCmov d s flag =>
    if evalEI st.ints flag ≠ 0 then { st with sc := update st.sc d (st.scGet s) } else st
  | .scIsZero x s => { st with ints := st.ints.set x 0 (i32 (st.scGet s % N = 0)) }
  | .scIsHigh x s => { st with ints := st.ints.set x 0 (i32 (Sc.isHigh (st.scGet s))) }
  | .scCondNeg d flag =>
    if evalEI st.ints flag ≠ 0 then { st with sc := update st.sc d (Sc.neg (st.scGet d)) } else st
  | .scOfBytes d b ov =>
    let v := Bytes.toNat (st.byGet b)
    let st1 := { st with sc := update st.sc d (v % N) }
    match ov with
    | some o => { st1 with ints := st1.ints.set o 0 (i32 (v ≥ N)) }
    | none => st1
  | .bytesOfSc b s => { st with bs := update st.bs b (Bytes.be32 (st.scGet s % N)) }
  | .feConst d n => { st with fe := update st.fe d (n % P) }
  | .feOfBytesMod d b => { st with fe := update st.fe d (Bytes.toNat (st.byGet b) % P) }
  | .feOfBytesLimit x d b =>
    let v := Bytes.toNat (st.byGet b)
    { st with fe := update st.fe d (v % P), ints := st.ints.set x 0 (i32 (v < P)) }
  | .bytesOfFe b f => { st with bs := update st.bs b (Bytes.be32 (st.feGet f % P)) }
  | .feAdd d a => { st with fe := update st.fe d (Fe.add (st.feGet d) (st.feGet a)) }
  | .feNorm d => { st with fe := update st.fe d (st.feGet d % P) }
  | .feCmp x a b =>
    let u := st.feGet a % P; let v := st.feGet b % P
    { st with ints := st.ints.set x 0 (if u > v then 1 else if u = v then 0 else 2 ^ 32 - 1) }
  | .feIsOdd x f => { st with ints := st.ints.set x 0 (st.feGet f % P % 2) }
  | .ptSet d s => { st with pt := update st.pt d (st.ptGet s) }
  | .ptClear d => { st with pt := update st.pt d Pt.inf }
  | .ptAdd d a b => { st with pt := update st.pt d (Pt.add (st.ptGet a) (st.ptGet b)) }
  | .ptNeg d a => { st with pt := update st.pt d (Pt.neg (st.ptGet a)) }
  | .ecmult d a na ng =>
    { st with pt := update st.pt d (Pt.add (Pt.mul (st.scGet na % N) (st.ptGet a)) (Pt.mulG (st.scGet ng % N))) }
  | .ecmultGen d n => { st with pt := update st.pt d (Pt.mulG (st.scGet n % N)) }
  | .ptIsInf x p => { st with ints := st.ints.set x 0 (i32 (st.ptGet p).isInf) }
  | .eqX x f p => { st with ints := st.ints.set x 0 (i32 (Pt.xOf (st.ptGet p) = st.feGet f % P)) }
  | .liftX x d f odd =>
    match Pt.liftX (st.feGet f % P) (evalEI st.ints odd ≠ 0) with
    | some q => { st with pt := update st.pt d q, ints := st.ints.set x 0 1 }
    | none => { st with ints := st.ints.set x 0 0 }
  | .ptLoad x d src =>
    match st.ptGet src with
    | .inf => { st with ints := (st.ints.set x 0 0).set "illegal" 0 (st.ints.get "illegal" 0 + 1) }
    | q => { st with pt := update st.pt d q, ints := st.ints.set x 0 1 }
  | .feEqual x a b => { st with ints := st.ints.set x 0 (i32 (st.feGet a % P = st.feGet b % P)) }
  | .challenge e r32 msg pk32 =>
    { st with sc := update st.sc e (Schnorr.challenge (st.byGet r32) (lookup [] st.bs msg) (st.byGet pk32)) }
  | .int x e => { st with ints := st.ints.set x 0 (evalEI st.ints e) }
  | .ite c t e => if evalEI st.ints c ≠ 0 then execL st t else execL st e
  | .scope body => { execL st body with returned := st.returned }
  | .ret => { st with returned := true }

def execL (st : State) : List Stmt → State
  | [] => st
  | s :: rest => if st.returned then st else execL (execS st s) rest
end

structure Fn where
  name : String
  body : List Stmt
deriving Repr

end AlgIR
end SecpZkp
