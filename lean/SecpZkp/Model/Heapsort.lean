/-
  `secp256k1_hsort` (src/hsort_impl.h) on arrays: a line-by-line model of `heap_down` and the two
  loops of `hsort`.  `cmp a b` is the C comparison callback (negative / zero / positive).
-/
namespace SecpZkp
namespace Heapsort

variable {α : Type}

def swap (arr : Array α) (i j : Nat) : Array α :=
  if h : i < arr.size ∧ j < arr.size then arr.swap i j h.1 h.2 else arr

/-- `secp256k1_heap_down`; `fuel` bounds the while loop (each iteration at least doubles `i`+1). -/
def heapDown [Inhabited α] (cmp : α → α → Int) : Nat → Array α → Nat → Nat → Array α
  | 0, arr, _, _ => arr
  | fuel + 1, arr, i, heapSize =>
    if i < heapSize / 2 then
      let c1 := 2 * i + 1
      let c2 := 2 * i + 2
      if c2 < heapSize ∧ 0 ≤ cmp arr[c2]! arr[c1]! then
        if 0 < cmp arr[c2]! arr[i]! then heapDown cmp fuel (swap arr i c2) c2 heapSize
        else arr
      else if 0 < cmp arr[c1]! arr[i]! then heapDown cmp fuel (swap arr i c1) c1 heapSize
      else arr
    else arr

/-- first loop of `secp256k1_hsort`: for (i = count/2; 0 < i; --i) heap_down(i-1, count) -/
def heapify [Inhabited α] (cmp : α → α → Int) (count : Nat) : Nat → Array α → Array α
  | 0, arr => arr
  | i + 1, arr => heapify cmp count i (heapDown cmp count arr i count)

/-- second loop: for (i = count; 1 < i; --i) { swap(0, i-1); heap_down(0, i-1) } -/
def extract [Inhabited α] (cmp : α → α → Int) : Nat → Array α → Array α
  | 0, arr => arr
  | 1, arr => arr
  | i + 2, arr => extract cmp (i + 1) (heapDown cmp (i + 1) (swap arr 0 (i + 1)) 0 (i + 1))

def hsort [Inhabited α] (cmp : α → α → Int) (arr : Array α) : Array α :=
  extract cmp arr.size (heapify cmp arr.size (arr.size / 2) arr)

end Heapsort
end SecpZkp
