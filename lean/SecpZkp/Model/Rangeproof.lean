import SecpZkp.Model.Borromean
/-
  Range proofs (modules/rangeproof/rangeproof_impl.h, modules/rangeproof/main_impl.h).

  Transcription conventions
  * `uint64_t` values are `Nat` kept below 2^64 (`u64` wraps explicitly where the C arithmetic may wrap),
    `int` values are `Int`; `size_t` values are `Nat`.
  * C arrays `pubs[128]`, `s[128]`, `sec[32]`, ... are flat lists in ring order (ring i starts at
    index 4*i, which equals the running count because every ring but the last has size 4).
  * Output parameters that a C function may leave untouched are threaded through as the caller's
    initial values (`Header`, `ProveParams.v`), so that "written" and "left alone" are observable.
  * `secp256k1_rangeproof_sign_impl` is split into the parameter/header/randomness part (`signImpl`) and the
    proof assembly part (`signCore`, C lines 290-336); `signWith` runs the assembly on explicitly chosen
    free values (adversarial prover) instead of the output of `genrand`.
-/
namespace SecpZkp
namespace Rangeproof

def U64 : Nat := 2 ^ 64
def u64Max : Nat := 2 ^ 64 - 1
def i64Max : Nat := 2 ^ 63 - 1
@[inline] def u64 (x : Nat) : Nat := x % 2 ^ 64

/-- `secp256k1_clz64_var` -/
def clz64 (x : Nat) : Nat := if x = 0 then 64 else 63 - Nat.log2 x

/-- `secp256k1_rangeproof_serialize_point`: `!is_square(y) ‖ x` -/
def serializePoint (p : Pt) : Bytes :=
  (if Fe.isSquare p.yOf then (0 : UInt8) else 1) :: Bytes.be32 p.xOf

/-- `secp256k1_pedersen_ecmult`: sec*G + value*genp -/
def pedersenEcmult (sec value : Nat) (genp : Pt) : Pt :=
  Pt.add (Pt.mulG sec) (Pt.mul value genp)

/-- ring layout used by the verifier (and by `signWith`) for a header mantissa: (rings, rsizes, npub);
    mantissa 0 is the exact-value proof with a single ring of size 1. -/
def layout (mantissa : Nat) : Nat × List Nat × Nat :=
  if mantissa = 0 then (1, [1], 1) else
  let full := mantissa / 2
  if mantissa % 2 = 1 then (full + 1, List.replicate full 4 ++ [2], full * 4 + 2)
  else (full, List.replicate full 4, full * 4)

/-! ### `secp256k1_rangeproof_pub_expand` -/

/-- base ↦ 10·base by the C doubling/addition chain -/
def times10 (base : Pt) : Pt :=
  let tmp := Pt.dbl base
  let b1 := Pt.dbl tmp
  let b2 := Pt.dbl b1
  Pt.add b2 tmp

def times10Pow : Nat → Pt → Pt
  | 0, b => b
  | e + 1, b => times10Pow e (times10 b)

/-- the `j = 1 .. rsize-1` loop: successive additions of `base` -/
def expandRing : Nat → Pt → Pt → List Pt
  | 0, _, _ => []
  | n + 1, prev, base => let nxt := Pt.add prev base; nxt :: expandRing n nxt base

/-- `firsts[i]` is `pubs[4*i]` as set by the caller; the result is the complete flat `pubs` array. -/
def pubExpandGo : List Pt → List Nat → Pt → List Pt
  | [], _, _ => []
  | _, [], _ => []
  | f :: fs, rs :: rss, base =>
    (f :: expandRing (rs - 1) f base) ++ pubExpandGo fs rss (if fs.isEmpty then base else Pt.dbl (Pt.dbl base))

def pubExpand (firsts : List Pt) (exp : Int) (rsizes : List Nat) (genp : Pt) : List Pt :=
  let e := if exp < 0 then 0 else exp.toNat
  pubExpandGo firsts rsizes (times10Pow e (Pt.neg genp))

/-! ### `secp256k1_rangeproof_genrand` -/

/-- the `do { generate; set_b32 } while (overflow || zero)` loop; fuel exhaustion (probability
    2^-128 per round) yields 0, which every caller treats as a failure further on. -/
def genSec : Nat → Sha256.Rfc6979 → Nat × Sha256.Rfc6979
  | 0, r => (0, r)
  | fuel + 1, r =>
    let (tmp, r') := Sha256.rfc6979Generate r 32
    let (v, ov) := Sc.setB32 tmp
    if ov ∨ v = 0 then genSec fuel r' else (v, r')

def getBlock (m : Bytes) (idx : Nat) : Bytes := (m.drop (idx * 32)).take 32
def setBlock (m : Bytes) (idx : Nat) (blk : Bytes) : Bytes := m.take (idx * 32) ++ blk ++ m.drop (idx * 32 + 32)

structure GenRand where
  ret : Bool
  sec : List Nat
  s : List Nat
  message : Option Bytes

/-- inner `j` loop of genrand for ring `i`: (rng, ret, s (appended), message) -/
def genrandRing (i : Nat) : Nat → Nat → Sha256.Rfc6979 → Bool → List Nat → Option Bytes →
    Sha256.Rfc6979 × Bool × List Nat × Option Bytes
  | 0, _, rng, ret, s, msg => (rng, ret, s, msg)
  | n + 1, j, rng, ret, s, msg =>
    let (tmp0, rng') := Sha256.rfc6979Generate rng 32
    let (tmp, msg') := match msg with
      | none => (tmp0, none)
      | some m => let t := Bytes.xor tmp0 (getBlock m (i * 4 + j)); (t, some (setBlock m (i * 4 + j) t))
    let (sv, ov) := Sc.setB32 tmp
    genrandRing i n (j + 1) rng' (ret && !(ov || sv == 0)) (s ++ [sv]) msg'

def genrandGo (rings : Nat) : List Nat → Nat → Sha256.Rfc6979 → Nat → Bool → List Nat → List Nat → Option Bytes → GenRand
  | [], _, _, _, ret, sec, s, msg => ⟨ret, sec, s, msg⟩
  | rs :: rss, i, rng, acc, ret, sec, s, msg =>
    let (seci, rng1, acc1) :=
      if i + 1 < rings then
        let (_, r0) := Sha256.rfc6979Generate rng 32
        let (v, r1) := genSec 64 r0
        (v, r1, Sc.add acc v)
      else (Sc.neg acc, rng, Sc.neg acc)
    let (rng2, ret2, s2, msg2) := genrandRing i rs 0 rng1 ret s msg
    genrandGo rings rss (i + 1) rng2 acc1 ret2 (sec ++ [seci]) s2 msg2

/-- `proof` is the header (`len ≤ 10` bytes). `message = none` is the NULL pointer. -/
def genrand (message : Option Bytes) (rsizes : List Nat) (nonce : Bytes) (commit : Pt) (proof : Bytes) (genp : Pt) : GenRand :=
  let rngseed := nonce ++ serializePoint commit ++ serializePoint genp ++ proof
  genrandGo rsizes.length rsizes 0 (Sha256.rfc6979Init rngseed) 0 true [] [] message

/-! ### `secp256k1_range_proveparams` -/

structure ProveParams where
  ret : Bool
  v : Nat
  rings : Nat
  rsizes : List Nat
  npub : Nat
  secidx : List Nat
  minValue : Nat
  mantissa : Nat
  scale : Nat
  exp : Int
  minBits : Int
deriving Repr

/-- `for (i = 0; i < exp && v2 <= UINT64_MAX/10; i++) { v /= 10; v2 *= 10; }` : (i, v) -/
def reduceExp : Nat → Nat → Nat → Nat → Nat → Nat × Nat
  | 0, i, _, v, _ => (i, v)
  | fuel + 1, i, exp, v, v2 =>
    if i < exp ∧ v2 ≤ u64Max / 10 then reduceExp fuel (i + 1) exp (v / 10) (v2 * 10) else (i, v)

/-- `for (i = 0; i < exp; i++) { v2 *= 10; scale *= 10; }` -/
def scaleUp : Nat → Nat → Nat → Nat × Nat
  | 0, v2, scale => (v2, scale)
  | e + 1, v2, scale => scaleUp e (u64 (v2 * 10)) (u64 (scale * 10))

/-- ring sizes and secret digits, `for (i = 0; i < rings; i++)` -/
def ringsOf (rings mantissa v : Nat) : Nat → Nat → List Nat × List Nat × Nat
  | 0, _ => ([], [], 0)
  | n + 1, i =>
    let rs := if i + 1 < rings ∨ mantissa % 2 = 0 then 4 else 2
    let (a, b, c) := ringsOf rings mantissa v n (i + 1)
    (rs :: a, ((v >>> (i * 2)) &&& 3) :: b, rs + c)

/-- `v0` is the caller's (uninitialised) `v`, returned untouched on the early failure. -/
def proveParams (v0 : Nat) (minValue0 : Nat) (exp0 : Int) (minBits0 : Int) (value : Nat) : ProveParams :=
  let exp1 : Int := if minValue0 = u64Max then -1 else exp0
  if exp1 ≥ 0 then
    if (minValue0 ≠ 0 ∧ value > i64Max) ∨ (value ≠ 0 ∧ minValue0 ≥ i64Max) then
      ⟨false, v0, 1, [1], 0, [0], minValue0, 0, 1, exp1, minBits0⟩
    else
      let maxBits : Int := if minValue0 ≠ 0 then clz64 minValue0 else 64
      let minBits : Int := if minBits0 > maxBits then maxBits else minBits0
      let exp2 : Int := if minBits > 61 ∨ value > i64Max then 0 else exp1
      let v1 := u64 (value + U64 - minValue0)
      let mb := minBits.toNat
      let v2 := if minBits ≠ 0 then u64Max >>> (64 - mb) else 0
      let (i, v) := reduceExp 20 0 exp2.toNat v1 v2
      let (v2', scale) := scaleUp i v 1
      let minValue := u64 (value + U64 - v2')
      let mant0 := if v ≠ 0 then 64 - clz64 v else 1
      let mantissa := if minBits > (mant0 : Int) then mb else mant0
      let rings := (mantissa + 1) >>> 1
      let (rsizes, secidx, npub) := ringsOf rings mantissa v rings 0
      ⟨true, v, rings, rsizes, npub, secidx, minValue, mantissa, scale, (i : Int), minBits⟩
  else
    ⟨true, 0, 1, [1], 2, [0], value, 0, 1, 0, minBits0⟩

/-! ### proof assembly (sign_impl lines 290-336) -/

/-- `((uint64_t)secidx[i] * scale) << (i*2)` -/
def digitValue (idx scale i : Nat) : Nat := u64 (u64 (idx * scale) <<< (i * 2))

/-- set bit `i` of the sign bytes -/
def setSignBit (signs : Bytes) (i : Nat) (q : UInt8) : Bytes :=
  signs.set (i / 8) (signs.getD (i / 8) 0 ||| (q <<< (UInt8.ofNat (i % 8))))

/-- the digit-commitment loop: returns (first pub of each ring, hash state, sign bytes, x bytes) -/
def digitLoop (rings scale : Nat) (genp : Pt) : List Nat → List Nat → Nat → Sha256.State → Bytes → Bytes → List Pt →
    Option (List Pt × Sha256.State × Bytes × Bytes)
  | [], _, _, h, signs, xs, pubs => some (pubs, h, signs, xs)
  | _ :: _, [], _, _, _, _, _ => none
  | seci :: secs, idx :: idxs, i, h, signs, xs, pubs =>
    match pedersenEcmult seci (digitValue idx scale i) genp with
    | .inf => none
    | p =>
      if i + 1 < rings then
        let tmpc := serializePoint p
        digitLoop rings scale genp secs idxs (i + 1) (Sha256.write h tmpc)
          (setSignBit signs i (tmpc.headD 0)) (xs ++ tmpc.drop 1) (pubs ++ [p])
      else
        digitLoop rings scale genp secs idxs (i + 1) h signs xs (pubs ++ [p])

/-- `hdr`: the already written header bytes `proof[0..len)`; `sha`: the message hash after commit, generator
    and header have been absorbed; `s`: forged scalars (entries at the secret positions are ignored);
    `sec` already contains the commitment's blinding factor in its last entry. -/
def signCore (hdr : Bytes) (sha : Sha256.State) (exp : Int) (scale : Nat) (rsizes secidx sec k s : List Nat)
    (genp : Pt) (extra : Option Bytes) : Option Bytes :=
  let rings := rsizes.length
  let signs0 := Bytes.zeros ((rings + 6) >>> 3)
  match digitLoop rings scale genp sec secidx 0 sha signs0 [] [] with
  | none => none
  | some (firsts, sha1, signs, xs) =>
    let pubs := pubExpand firsts exp rsizes genp
    let sha2 := match extra with
      | some e => Sha256.write sha1 e
      | none => sha1
    let m := Sha256.finalize sha2
    match Borromean.sign s pubs k sec rsizes secidx m with
    | none => none
    | some (e0, sOut) => some (hdr ++ signs ++ xs ++ e0 ++ sOut.flatMap Bytes.be32)

/-- hash state after `commit`, `genp` and the header -/
def shaPrefix (commit genp : Pt) (hdr : Bytes) : Sha256.State :=
  Sha256.write (Sha256.write (Sha256.write Sha256.init (serializePoint commit)) (serializePoint genp)) hdr

/-- header bytes as written by sign_impl -/
def headerBytes (rsize0 : Nat) (exp : Int) (mantissa : Nat) (minValue : Nat) : Bytes :=
  let b0 := (if rsize0 > 1 then 64 ||| exp.toNat else 0) ||| (if minValue ≠ 0 then 32 else 0)
  [UInt8.ofNat b0] ++ (if rsize0 > 1 then [UInt8.ofNat (mantissa - 1)] else []) ++
    (if minValue ≠ 0 then Bytes.be8 minValue else [])

/-- `k[i] = s[i*4+secidx[i]]; s[i*4+secidx[i]] = 0` -/
def takeNonces : List Nat → Nat → List Nat → List Nat × List Nat
  | [], _, s => ([], s)
  | idx :: rest, i, s =>
    let pos := i * 4 + idx
    let (ks, s') := takeNonces rest (i + 1) (s.set pos 0)
    (s.getD pos 0 :: ks, s')

/-- `secp256k1_rangeproof_sign_impl`; `plen` is the buffer size, result = the proof (its length is the new `*plen`). -/
def signImpl (plen : Nat) (minValue : Nat) (commit : Pt) (blind nonce : Bytes) (exp minBits : Int) (value : Nat)
    (message : Option Bytes) (msgLen : Nat) (extra : Option Bytes) (genp : Pt) : Option Bytes :=
  if plen < 65 ∨ minValue > value ∨ minBits > 64 ∨ minBits < 0 ∨ exp < -1 ∨ exp > 18 then none else
  let pp := proveParams 0 minValue exp minBits value
  if !pp.ret then none else
  let rsize0 := pp.rsizes.headD 1
  let hdr := headerBytes rsize0 pp.exp pp.mantissa pp.minValue
  let len := hdr.length
  if msgLen > 0 ∧ msgLen > 128 * (pp.rings - 1) then none else
  if plen - len < 32 * (pp.npub + pp.rings - 1) + 32 + ((pp.rings + 6) >>> 3) then none else
  let sha := shaPrefix commit genp hdr
  let prep0 : Bytes := match message with
    | some m => m.take msgLen ++ Bytes.zeros (4096 - msgLen)
    | none => Bytes.zeros 4096
  let rsLast := pp.rsizes.getLastD 1
  let prep : Bytes :=
    if rsLast > 1 then
      let idx0 := rsLast - 1
      let idx1 := idx0 - (if pp.secidx.getLastD 0 = idx0 then 1 else 0)
      let blk := (pp.rings - 1) * 4 + idx1
      let v8 := Bytes.be8 pp.v
      setBlock prep0 blk ((128 : UInt8) :: Bytes.zeros 7 ++ v8 ++ v8 ++ v8)
    else prep0
  let gr := genrand (some prep) pp.rsizes nonce commit hdr genp
  if !gr.ret then none else
  let (k, s) := takeNonces pp.secidx 0 gr.s
  let (stmp, overflow) := Sc.setB32 blind
  let secLast := Sc.add (gr.sec.getLastD 0) stmp
  if overflow ∨ secLast = 0 then none else
  let sec := gr.sec.dropLast ++ [secLast]
  signCore hdr sha pp.exp pp.scale pp.rsizes pp.secidx sec k s genp extra

/-- Reference prover with every free value chosen by the caller (adversarial prover).
    `hdrOr` is OR-ed into the first header byte (reserved bit), `exp`/`mantissa`/`minValue` are written to the
    header as given (mantissa 0 = exact value proof, no exponent/mantissa bytes), `scale = 10^exp` without
    reduction, digits `secidx`, blinding factors `sec` (their sum is the commitment's), ring nonces `k`,
    forged scalars `s` (flat, npub entries).  Returns the commitment point proved and the proof. -/
def signWith (hdrOr : Nat) (exp mantissa minValue : Nat) (secidx sec k s : List Nat) (genp : Pt) (extra : Option Bytes) :
    Option (Pt × Bytes) :=
  let (_, rsizes, _) := layout mantissa
  let scale := u64 (10 ^ exp)
  let hdr0 := headerBytes (rsizes.headD 1) exp mantissa minValue
  let hdr := match hdr0 with
    | b :: rest => (b ||| UInt8.ofNat hdrOr) :: rest
    | [] => []
  let digitPts := (List.zip sec secidx).zipIdx.map (fun ((x, d), i) => pedersenEcmult x (digitValue d scale i) genp)
  let commit := Pt.add (Pt.sum digitPts) (Pt.mul minValue genp)
  match signCore hdr (shaPrefix commit genp hdr) exp scale rsizes secidx sec k s genp extra with
  | none => none
  | some proof => some (commit, proof)

/-! ### header -/

/-- Outputs of `secp256k1_rangeproof_getheader_impl`; a caller passes its initial values in the same record. -/
structure Header where
  ret : Bool
  offset : Nat
  exp : Int
  mantissa : Int
  scale : Nat
  minValue : Nat
  maxValue : Nat
deriving Repr

/-- `for (i = 0; i < exp; i++) { if (max > UINT64_MAX/10) return 0; max *= 10; scale *= 10; }` : (ok, max, scale) -/
def headerScale : Nat → Nat → Nat → Bool × Nat × Nat
  | 0, mx, scale => (true, mx, scale)
  | e + 1, mx, scale => if mx > u64Max / 10 then (false, mx, scale) else headerScale e (mx * 10) (u64 (scale * 10))

/-- `secp256k1_rangeproof_getheader_impl` with `*offset = 0` on entry. -/
def getHeader (init : Header) (proof : Bytes) : Header :=
  let plen := proof.length
  let b0 := (proof.headD 0).toNat
  if plen < 65 ∨ b0 &&& 128 ≠ 0 then { init with ret := false } else
  let hasNz := b0 &&& 64
  let hasMin := b0 &&& 32
  let h1 : Header := { init with exp := -1, mantissa := 0 }
  -- (continue?, header so far)
  let (ok, h2) : Bool × Header :=
    if hasNz ≠ 0 then
      let e := b0 &&& 31
      let h := { h1 with exp := (e : Int), offset := 1 }
      if e > 18 then (false, h) else
      let m := (proof.getD 1 0).toNat + 1
      let h := { h with mantissa := (m : Int) }
      if m > 64 then (false, h) else
      (true, { h with maxValue := u64Max >>> (64 - m) })
    else (true, { h1 with maxValue := 0 })
  if !ok then { h2 with ret := false } else
  let h3 := { h2 with offset := h2.offset + 1, scale := 1 }
  let (ok, mx, sc) := headerScale h3.exp.toNat h3.maxValue 1
  let h4 := { h3 with maxValue := mx, scale := sc }
  if !ok then { h4 with ret := false } else
  let h5 := { h4 with minValue := 0 }
  let (ok, h6) : Bool × Header :=
    if hasMin ≠ 0 then
      if plen - h5.offset < 8 then (false, h5)
      else (true, { h5 with minValue := Bytes.toNat ((proof.drop h5.offset).take 8), offset := h5.offset + 8 })
    else (true, h5)
  if !ok then { h6 with ret := false } else
  if h6.maxValue > u64Max - h6.minValue then { h6 with ret := false } else
  { h6 with maxValue := h6.maxValue + h6.minValue, ret := true }

/-! ### rewind -/

/-- `secp256k1_rangeproof_recover_x` -/
def recoverX (k e s : Nat) : Nat := Sc.mul (Sc.add (Sc.neg s) k) (Sc.inv e)
/-- `secp256k1_rangeproof_recover_k` -/
def recoverK (x e s : Nat) : Nat := Sc.add s (Sc.mul x e)

structure RewindInner where
  ret : Bool
  blind : Nat
  v : Nat
  /-- `none`: `m`/`*mlen` untouched; `some bs`: `bs` written to `m`, `*mlen = bs.length` -/
  msg : Option Bytes

/-- the value-encoding search `for (j = 0; j < 2; j++)` : (j, decoded block) of the first match -/
def findValue (s : List Nat) (prep : Bytes) (base rsLast : Nat) : List Nat → Option (Nat × Bytes)
  | [] => none
  | j :: js =>
    let idx := base + rsLast - 1 - j
    let tmp := Bytes.xor (Bytes.be32 (s.getD idx 0)) (getBlock prep idx)
    if (tmp.headD 0 &&& 128 ≠ 0) ∧ (tmp.drop 16).take 8 = (tmp.drop 24).take 8 ∧ (tmp.drop 8).take 8 = (tmp.drop 16).take 8
    then some (j, tmp) else findValue s prep base rsLast js

/-- message extraction loops; `npub` is the running flat index. -/
def extractRing (sec_i idx skip1 skip2 : Nat) (ev s : List Nat) (prep : Bytes) : Nat → Nat → Nat → Bytes → Bytes
  | 0, _, _, acc => acc
  | n + 1, j, npub, acc =>
    if npub = skip1 ∨ npub = skip2 then extractRing sec_i idx skip1 skip2 ev s prep n (j + 1) (npub + 1) acc else
    let stmp := if idx = j then recoverK sec_i (ev.getD npub 0) (s.getD npub 0) else s.getD npub 0
    extractRing sec_i idx skip1 skip2 ev s prep n (j + 1) (npub + 1) (acc ++ Bytes.xor (Bytes.be32 stmp) (getBlock prep npub))

def extractMsg (value skip1 skip2 : Nat) (ev s : List Nat) (prep : Bytes) : List Nat → List Nat → Nat → Nat → Bytes → Bytes
  | [], _, _, _, acc => acc
  | _ :: _, [], _, _, acc => acc
  | rs :: rss, seci :: secs, i, npub, acc =>
    let idx := (value >>> (i * 2)) &&& 3
    extractMsg value skip1 skip2 ev s prep rss secs (i + 1) (npub + rs)
      (extractRing seci idx skip1 skip2 ev s prep rs 0 npub acc)

/-- `secp256k1_rangeproof_rewind_inner`. `mlen`: `none` when `m` or `mlen` is NULL, else `*mlen` on entry.
    Array reads outside the initialised part (possible for a decoded digit ≥ ring size) read 0. -/
def rewindInner (mlen : Option Nat) (ev s : List Nat) (rsizes : List Nat) (nonce : Bytes) (commit : Pt) (hdr : Bytes) (genp : Pt) :
    RewindInner :=
  let rings := rsizes.length
  let rsLast := rsizes.getLastD 1
  let gr := genrand (some (Bytes.zeros 4096)) rsizes nonce commit hdr genp
  let prep := gr.message.getD []
  let sOrig := gr.s
  let zeroLen : Option Bytes := mlen.map (fun _ => [])
  if rings = 1 ∧ rsizes.headD 0 = 1 then
    ⟨true, recoverX (sOrig.getD 0 0) (ev.getD 0 0) (s.getD 0 0), 0, zeroLen⟩
  else
  let base := (rings - 1) <<< 2
  match findValue s prep base rsLast [0, 1] with
  | none => ⟨false, 0, u64Max, zeroLen⟩
  | some (j, tmp) =>
    let value := Bytes.toNat (tmp.drop 24)
    let prep := setBlock prep (base + rsLast - 1 - j) tmp
    let skip1 := rsLast - 1 - j
    let skip2 := (value >>> ((rings - 1) <<< 1)) &&& 3
    -- finding F3 (fixed in /repo): a last digit ≥ the size of the last ring used to index scalars that
    -- were never written (an uninitialised read in C); it is rejected like a misplaced value
    if skip1 = skip2 ∨ skip2 ≥ rsLast then ⟨false, 0, value, zeroLen⟩ else
    let skip1 := skip1 + base
    let skip2 := skip2 + base
    let stmp := recoverX (sOrig.getD skip2 0) (ev.getD skip2 0) (s.getD skip2 0)
    let secLastNeg := Sc.neg (gr.sec.getLastD 0)
    let sec := gr.sec.dropLast ++ [secLastNeg]
    let blind := Sc.add stmp secLastNeg
    match mlen with
    | none => ⟨true, blind, value, none⟩
    | some 0 => ⟨true, blind, value, some []⟩
    | some ml =>
      let full := extractMsg value skip1 skip2 ev s prep rsizes sec 0 0 []
      ⟨true, blind, value, some (full.take ml)⟩

/-! ### verification -/

structure VerifyResult where
  ret : Bool
  minValue : Nat
  maxValue : Nat
  /-- written `blindout` / `value_out` (only on a successful rewind) -/
  blind : Option Bytes := none
  value : Option Nat := none
  /-- `some bs`: message buffer received `bs` and `*outlen = bs.length`; `none`: both untouched -/
  msg : Option Bytes := none

/-- digit commitments: (ok, first pubs, accumulated point, hash state) -/
def readDigits : Nat → Nat → Bytes → Bytes → Sha256.State → Pt → List Pt → Option (List Pt × Pt × Sha256.State)
  | 0, _, _, _, h, acc, pubs => some (pubs, acc, h)
  | n + 1, i, signBytes, xs, h, acc, pubs =>
    let xb := xs.take 32
    match Codec.feLimit xb with
    | none => none
    | some fe =>
      match Pt.liftXQuad fe with
      | none => none
      | some c0 =>
        let sign : UInt8 := if (signBytes.getD (i / 8) 0) &&& ((1 : UInt8) <<< UInt8.ofNat (i % 8)) ≠ 0 then 1 else 0
        let c := if sign = 1 then Pt.neg c0 else c0
        readDigits n (i + 1) signBytes (xs.drop 32) (Sha256.write (Sha256.write h [sign]) xb) (Pt.add acc c) (pubs ++ [c])

/-- scalars: `none` on overflow -/
def readScalars : Nat → Bytes → Option (List Nat)
  | 0, _ => some []
  | n + 1, bs =>
    let (v, ov) := Sc.setB32 (bs.take 32)
    if ov then none else (readScalars n (bs.drop 32)).map (v :: ·)

/-- `secp256k1_rangeproof_verify_impl`. `nonce = none`: plain verification. `mlen` as in `rewindInner`.
    `min0`/`max0` are the caller's initial `*min_value`/`*max_value`. -/
def verifyImpl (nonce : Option Bytes) (mlen : Option Nat) (min0 max0 : Nat) (commit : Pt) (proof : Bytes)
    (extra : Option Bytes) (genp : Pt) : VerifyResult :=
  let plen := proof.length
  let h := getHeader ⟨false, 0, 0, 0, 0, min0, max0⟩ proof
  let fail : VerifyResult := ⟨false, h.minValue, h.maxValue, none, none, none⟩
  if !h.ret then fail else
  let hdrLen := h.offset
  let (rings, rsizes, npub) := layout h.mantissa.toNat
  if plen - hdrLen < 32 * (npub + rings - 1) + 32 + ((rings + 6) >>> 3) then fail else
  let hdr := proof.take hdrLen
  let sha := shaPrefix commit genp hdr
  let nsign := (rings + 6) >>> 3
  let signBytes := (proof.drop hdrLen).take nsign
  let offset := hdrLen + nsign
  if (rings - 1) &&& 7 ≠ 0 ∧ (proof.getD (offset - 1) 0).toNat >>> ((rings - 1) &&& 7) ≠ 0 then fail else
  let acc0 := if h.minValue ≠ 0 then Pt.mul h.minValue genp else Pt.inf
  match readDigits (rings - 1) 0 signBytes (proof.drop offset) sha acc0 [] with
  | none => fail
  | some (firsts0, acc, sha1) =>
    let last := Pt.add (Pt.neg acc) commit
    if last.isInf then fail else
    let pubs := pubExpand (firsts0 ++ [last]) h.exp rsizes genp
    let offset := offset + 32 * (rings - 1)
    let e0 := (proof.drop offset).take 32
    let offset := offset + 32
    match readScalars npub (proof.drop offset) with
    | none => fail
    | some s =>
      let offset := offset + 32 * npub
      if offset ≠ plen then fail else
      let sha2 := match extra with
        | some e => Sha256.write sha1 e
        | none => sha1
      let m := Sha256.finalize sha2
      let (ok, ev) := Borromean.verify e0 s pubs rsizes m
      if !ok then fail else
      match nonce with
      | none => { fail with ret := true }
      | some nc =>
        let rw := rewindInner mlen ev s rsizes nc commit hdr genp
        let failR : VerifyResult := { fail with msg := rw.msg }
        if !rw.ret then failR else
        let vv := u64 (u64 (rw.v * h.scale) + h.minValue)
        match pedersenEcmult rw.blind vv genp with
        | .inf => failR
        | accj =>
          if !(Pt.add (Pt.neg accj) commit).isInf then failR else
          { failR with ret := true, blind := some (Bytes.be32 rw.blind), value := some vv }

/-! ### public API (main_impl.h); arguments are non-NULL unless stated, so no ARG_CHECK can fire except
    `message_out != NULL || outlen == NULL` in rewind, handled by the driver. -/

/-- `secp256k1_rangeproof_info` -/
def info (init : Header) (proof : Bytes) : Header := getHeader { init with offset := 0 } proof

/-- `secp256k1_rangeproof_verify` -/
def verify (min0 max0 : Nat) (commit : Bytes) (proof : Bytes) (extra : Option Bytes) (gen : Pt) : VerifyResult :=
  verifyImpl none none min0 max0 (Generator.commitLoad commit) proof extra gen

/-- `secp256k1_rangeproof_rewind` (`mlen = none` : `message_out == NULL && outlen == NULL`) -/
def rewind (mlen : Option Nat) (nonce : Bytes) (min0 max0 : Nat) (commit : Bytes) (proof : Bytes) (extra : Option Bytes) (gen : Pt) :
    VerifyResult :=
  verifyImpl (some nonce) mlen min0 max0 (Generator.commitLoad commit) proof extra gen

/-- `secp256k1_rangeproof_sign` -/
def sign (plen : Nat) (minValue : Nat) (commit : Bytes) (blind nonce : Bytes) (exp minBits : Int) (value : Nat)
    (message : Option Bytes) (extra : Option Bytes) (gen : Pt) : Option Bytes :=
  signImpl plen minValue (Generator.commitLoad commit) blind nonce exp minBits value message
    (message.map List.length |>.getD 0) extra gen

/-- `secp256k1_rangeproof_max_size` (size_t arithmetic is wrap-free for `min_bits ≤ 2^20`) -/
def maxSize (maxValue : Nat) (minBits : Int) : Nat :=
  let valMantissa : Int := if maxValue > 0 then 64 - clz64 maxValue else 1
  let mantissa := (if minBits > valMantissa then minBits else valMantissa).toNat
  let rings := (mantissa + 1) / 2
  let npubs := rings * 4 - 2 * (mantissa % 2)
  10 + 32 * (npubs + rings - 1) + 32 + ((rings - 1 + 7) / 8)

end Rangeproof
end SecpZkp
