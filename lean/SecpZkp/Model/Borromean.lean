import SecpZkp.Model.Generator
/-
  Borromean ring signatures (modules/rangeproof/borromean_impl.h).
  Rings are given flattened: `pubs`, `s` have Σ rsizes entries.
-/
namespace SecpZkp
namespace Borromean

/-- `secp256k1_borromean_hash`: H(e ‖ m ‖ be32 ridx ‖ be32 eidx) -/
def hash (m e : Bytes) (ridx eidx : Nat) : Bytes :=
  Sha256.sha256 (e ++ m ++ Bytes.be4 ridx ++ Bytes.be4 eidx)

/-- One ring of verification starting from challenge bytes `tmp`: returns the serialized last R,
    together with the list of challenges used (for rewind), or none on a rejected step. -/
def verifyRing (m : Bytes) (i : Nat) : (j : Nat) → List Pt → List Nat → Bytes → List Nat → Option (Bytes × List Nat)
  | _, [], _, last, ev => some (last, ev)
  | _, _ :: _, [], _, _ => none
  | j, p :: ps, s :: ss, tmp, ev =>
    let (ens, ov) := Sc.setB32 tmp
    if ov ∨ s = 0 ∨ ens = 0 ∨ p.isInf then none else
    match Pt.add (Pt.mul ens p) (Pt.mulG s) with
    | .inf => none
    | r =>
      let ser := Codec.serialize33 r
      if ps.isEmpty then some (ser, ev ++ [ens])
      else verifyRing m i (j + 1) ps ss (hash m ser i (j + 1)) (ev ++ [ens])

/-- `secp256k1_borromean_verify`: (ok, evalues). A ring of size 0 contributes nothing. -/
def verify (e0 : Bytes) (s : List Nat) (pubs : List Pt) (rsizes : List Nat) (m : Bytes) : Bool × List Nat :=
  let rec go : List Nat → Nat → List Nat → List Pt → Bytes → List Nat → Option (Bytes × List Nat)
    | [], _, _, _, acc, ev => some (acc, ev)
    | rs :: rest, i, s, pubs, acc, ev =>
      if rs = 0 then go rest (i + 1) s pubs acc ev else
      match verifyRing m i 0 (pubs.take rs) (s.take rs) (hash m e0 i 0) [] with
      | none => none
      | some (last, ev') => go rest (i + 1) (s.drop rs) (pubs.drop rs) (acc ++ last) (ev ++ ev')
  match go rsizes 0 s pubs [] [] with
  | none => (false, [])
  | some (acc, ev) => (Sha256.sha256 (acc ++ m) == e0, ev)

/-- forward walk of one ring from index `from` (exclusive of the secret position) -/
def walk (m : Bytes) (i : Nat) : (j : Nat) → List Pt → List Nat → Bytes → Option Bytes
  | _, [], _, tmp => some tmp
  | _, _ :: _, [], _ => none
  | j, p :: ps, s :: ss, tmp =>
    let h := hash m tmp i j
    let (ens, ov) := Sc.setB32 h
    if ov ∨ ens = 0 then none else
    match Pt.add (Pt.mul ens p) (Pt.mulG s) with
    | .inf => none
    | r => walk m i (j + 1) ps ss (Codec.serialize33 r)

/-- `secp256k1_borromean_sign`: returns (e0, s) on success. `s` holds the forged scalars on input
    (entries at the secret positions are ignored and overwritten). -/
def sign (s : List Nat) (pubs : List Pt) (k sec : List Nat) (rsizes secidx : List Nat) (m : Bytes) : Option (Bytes × List Nat) :=
  -- phase 1: per ring, from k_i G walk positions secidx+1 .. rsize-1
  let rec phase1 : List (Nat × Nat × Nat) → Nat → Nat → Bytes → Option Bytes
    | [], _, _, acc => some acc
    | (rs, si, ki) :: rest, i, count, acc =>
      match Pt.mulG ki with
      | .inf => none
      | r0 =>
        match walk m i (si + 1) ((pubs.drop (count + si + 1)).take (rs - si - 1)) ((s.drop (count + si + 1)).take (rs - si - 1)) (Codec.serialize33 r0) with
        | none => none
        | some last => phase1 rest (i + 1) (count + rs) (acc ++ last)
  let rings := List.zip rsizes (List.zip secidx k)
  match phase1 rings 0 0 [] with
  | none => none
  | some acc =>
    let e0 := Sha256.sha256 (acc ++ m)
    -- phase 2: per ring, from e0 walk positions 0 .. secidx-1 then close the ring
    let rec walk2 (i : Nat) : (j : Nat) → List Pt → List Nat → Nat → Option Nat
      | _, [], _, ens => some ens
      | _, _ :: _, [], _ => none
      | j, p :: ps, sj :: ss, ens =>
        match Pt.add (Pt.mul ens p) (Pt.mulG sj) with
        | .inf => none
        | r =>
          let (ens', ov) := Sc.setB32 (hash m (Codec.serialize33 r) i (j + 1))
          if ov ∨ ens' = 0 then none else walk2 i (j + 1) ps ss ens'
    let rec phase2 : List (Nat × Nat × Nat × Nat) → Nat → Nat → List Nat → Option (List Nat)
      | [], _, _, sOut => some sOut
      | (rs, si, ki, seci) :: rest, i, count, sOut =>
        let (ens0, ov) := Sc.setB32 (hash m e0 i 0)
        if ov ∨ ens0 = 0 then none else
        match walk2 i 0 ((pubs.drop count).take si) ((sOut.drop count).take si) ens0 with
        | none => none
        | some ens =>
          let sv := Sc.add (Sc.neg (Sc.mul ens seci)) ki
          if sv = 0 then none else
          phase2 rest (i + 1) (count + rs) (sOut.set (count + si) sv)
    match phase2 (List.zip rsizes (List.zip secidx (List.zip k sec))) 0 0 s with
    | none => none
    | some sOut => some (e0, sOut)

end Borromean
end SecpZkp
