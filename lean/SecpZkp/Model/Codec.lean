import SecpZkp.Model.Curve
/-
  Public-key codecs (`eckey_impl.h`, `secp256k1.c`) and 32-byte field/scalar readers.
  A public-key *object* is modelled as a `Pt`; `Pt.inf` stands for the all-zero (invalid) object,
  which no successful API call ever produces.
-/
namespace SecpZkp

/-- Result of an API call: return value plus number of illegal-argument callbacks raised. -/
structure Ret (α : Type) where
  ret : Nat
  out : α
  illegal : Nat := 0
deriving Repr

namespace Codec

/-- `secp256k1_fe_set_b32_limit`: accepted iff value < p. -/
def feLimit (b : Bytes) : Option Nat :=
  let v := Bytes.toNat b
  if v < P then some v else none

/-- `secp256k1_eckey_pubkey_parse` -/
def pubkeyParse (pub : Bytes) : Option Pt :=
  match pub with
  | [] => none
  | tag :: rest =>
    if pub.length = 33 ∧ (tag = 0x02 ∨ tag = 0x03) then
      match feLimit rest with
      | none => none
      | some x => Pt.liftX x (tag = 0x03)
    else if pub.length = 65 ∧ (tag = 0x04 ∨ tag = 0x06 ∨ tag = 0x07) then
      match feLimit (rest.take 32), feLimit (rest.drop 32) with
      | some x, some y =>
          if (tag = 0x06 ∨ tag = 0x07) ∧ (Fe.isOdd y ≠ (tag = 0x07 : Bool)) then none
          else if Pt.onCurveXY x y then some (Pt.aff x y) else none
      | _, _ => none
    else none

def serialize33 : Pt → Bytes
  | .inf => Bytes.zeros 33
  | .aff x y => (if Fe.isOdd y then (0x03 : UInt8) else 0x02) :: Bytes.be32 x

def serialize65 : Pt → Bytes
  | .inf => Bytes.zeros 65
  | .aff x y => (0x04 : UInt8) :: (Bytes.be32 x ++ Bytes.be32 y)

/-- `secp256k1_ec_pubkey_parse`: object is zeroed first, filled on success. -/
def ecPubkeyParse (input : Bytes) : Ret Pt :=
  match pubkeyParse input with
  | some q => ⟨1, q, 0⟩
  | none => ⟨0, .inf, 0⟩

/-- `secp256k1_ec_pubkey_serialize` with the `*outputlen` contract.
    Output: (bytes written into the buffer of size `outlen`, new `*outputlen`). -/
def ecPubkeySerialize (pk : Pt) (outlen : Nat) (compressed : Bool) : Ret (Bytes × Nat) :=
  let need := if compressed then 33 else 65
  if outlen < need then ⟨0, ([], outlen), 1⟩     -- ARG_CHECK before anything is touched
  else match pk with
    | .inf => ⟨0, (Bytes.zeros outlen, 0), 1⟩      -- buffer zeroed, pubkey_load raises the callback
    | q =>
      let ser := if compressed then serialize33 q else serialize65 q
      ⟨1, (ser ++ Bytes.zeros (outlen - need), need), 0⟩

/-- `secp256k1_xonly_pubkey_parse` -/
def xonlyParse (input32 : Bytes) : Ret Pt :=
  match feLimit input32 with
  | none => ⟨0, .inf, 0⟩
  | some x =>
    match Pt.liftX x false with
    | none => ⟨0, .inf, 0⟩
    | some q => ⟨1, q, 0⟩

end Codec
end SecpZkp
