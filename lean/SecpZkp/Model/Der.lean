import SecpZkp.Model.Codec
/-
  Strict DER for ECDSA signatures: `secp256k1_der_read_len`, `secp256k1_der_parse_integer`,
  `secp256k1_ecdsa_sig_parse`, `secp256k1_ecdsa_sig_serialize` (src/ecdsa_impl.h).
  The cursor `*sigp .. sigend` is the remaining list.
-/
namespace SecpZkp
namespace Der

/-- Returns the decoded length and the rest of the input after the length octets. -/
def readLen : Bytes → Option (Nat × Bytes)
  | [] => none
  | b1 :: rest =>
    if b1 = 0xFF then none
    else if b1 &&& 0x80 = 0 then some (b1.toNat, rest)
    else if b1 = 0x80 then none
    else
      let lenleft := (b1 &&& 0x7F).toNat
      if lenleft > rest.length then none
      else if rest.head? = some 0 then none
      else if lenleft > 8 then none
      else
        let len := Bytes.toNat (rest.take lenleft)
        let rest' := rest.drop lenleft
        if len > rest'.length then none
        else if len < 128 then none
        else some (len, rest')

/-- Returns the scalar (0 when negative or out of range) and the rest. -/
def parseInteger : Bytes → Option (Nat × Bytes)
  | [] => none
  | tag :: rest =>
    if tag ≠ 0x02 then none else
    match readLen rest with
    | none => none
    | some (rlen, body) =>
      if rlen = 0 ∨ rlen > body.length then none else
      let b0 := body.headD 0
      let b1 := (body.drop 1).headD 0
      if b0 = 0x00 ∧ rlen > 1 ∧ b1 &&& 0x80 = 0x00 then none
      else if b0 = 0xFF ∧ rlen > 1 ∧ b1 &&& 0x80 = 0x80 then none
      else
        let negative := b0 &&& 0x80 = 0x80
        let (rlen', body') := if b0 = 0 then (rlen - 1, body.drop 1) else (rlen, body)
        let digits := body'.take rlen'
        let v := Bytes.toNat digits
        let overflow := negative || decide (rlen' > 32) || decide (v ≥ N)
        some (if overflow then 0 else v, body'.drop rlen')

/-- `secp256k1_ecdsa_sig_parse` -/
def sigParse : Bytes → Option (Nat × Nat)
  | [] => none
  | tag :: rest =>
    if tag ≠ 0x30 then none else
    match readLen rest with
    | none => none
    | some (rlen, body) =>
      if rlen ≠ body.length then none else
      match parseInteger body with
      | none => none
      | some (r, rest1) =>
        match parseInteger rest1 with
        | none => none
        | some (s, rest2) => if rest2 = [] then some (r, s) else none

/-- Minimal two's-complement content octets of a non-negative integer < 2^256. -/
def intBody (x : Nat) : Bytes :=
  let b := (0 : UInt8) :: Bytes.be32 x
  -- strip while more than one byte, leading 0 and next < 0x80
  let rec strip : Nat → Bytes → Bytes
    | 0, l => l
    | fuel + 1, l =>
      match l with
      | a :: c :: t => if a = 0 ∧ c < 0x80 then strip fuel (c :: t) else l
      | _ => l
  strip 33 b

/-- `secp256k1_ecdsa_sig_serialize`: (ret, bytes written, new size). -/
def sigSerialize (r s : Nat) (size : Nat) : Nat × Bytes × Nat :=
  let rb := intBody r
  let sb := intBody s
  let need := 6 + rb.length + sb.length
  if size < need then (0, [], need)
  else
    (1, [0x30, UInt8.ofNat (4 + rb.length + sb.length), 0x02, UInt8.ofNat rb.length] ++ rb ++
        [0x02, UInt8.ofNat sb.length] ++ sb, need)

end Der
end SecpZkp
