import SecpZkp.Model.Codec
import SecpZkp.Model.Sha256
/-
  ECDH module (`src/modules/ecdh/main_impl.h`).

  `secp256k1_ecmult_const` is modelled at specification level by `Pt.mul` (the group law).
  A hash callback is a function of the two 32-byte coordinates returning the C return value and,
  if it wrote the output buffer, the bytes it wrote (`none` = buffer left untouched).
-/
namespace SecpZkp
namespace Ecdh

/-- `secp256k1_ecdh_hash_function`: (x32, y32) ↦ (return value, bytes written to `output`). -/
abbrev HashFn := Bytes → Bytes → Nat × Option Bytes

/-- `ecdh_hash_function_sha256_impl`: SHA256(version ‖ x32) with version = (y32[31] & 1) | 2. -/
def hashSha256 : HashFn := fun x32 y32 =>
  let version : UInt8 := ((y32.getD 31 0) &&& 0x01) ||| 0x02
  let sha := Sha256.init
  let sha := Sha256.write sha [version]
  let sha := Sha256.write sha x32
  (1, some (Sha256.finalize sha))

/-- The output buffer after a callback wrote `written` at its start (`none` = untouched). -/
def writeOut (prev : Bytes) : Option Bytes → Bytes
  | none => prev
  | some w => w ++ prev.drop w.length

/-- `secp256k1_ecdh`.  `prev` is the previous content of the output buffer (left in place when the
    callback does not write).  `hashfp = none` is the NULL pointer (built-in default).
    An invalid (all-zero) public-key object raises the illegal callback inside `pubkey_load`, whose
    return value the C function ignores; the computation then continues on whatever was loaded
    (the API forbids this; modelled as the point at infinity with coordinates 0,0). -/
def ecdh (prev : Bytes) (point : Pt) (scalar : Bytes) (hashfp : Option HashFn) : Ret Bytes :=
  let ill := if point.isInf then 1 else 0
  let (s0, ov) := Sc.setB32 scalar
  let overflow := ov || s0 == 0
  let s := if overflow then 1 else s0          -- scalar_cmov(&s, &one, overflow)
  let res := Pt.mul s point                    -- ecmult_const + ge_set_gej
  let x := Bytes.be32 (Pt.xOf res)
  let y := Bytes.be32 (Pt.yOf res)
  let (ret, written) :=
    match hashfp with
    | none => hashSha256 x y
    | some f => f x y
  ⟨if ret ≠ 0 ∧ !overflow then 1 else 0, writeOut prev written, ill⟩

end Ecdh
end SecpZkp
