import SecpZkp.Model.Schnorr
/-
  Half-aggregation of BIP-340 signatures (modules/schnorrsig_halfagg/main_impl.h).

  Conventions: the arrays `pubkeys` / `msgs32` / `sigs64` are lists (of x-only key objects, 32-byte
  messages, 64-byte signatures); an EMPTY list stands for a NULL pointer (with `n = 0` the C code
  behaves identically for NULL and non-NULL).  `size_t` is 64 bits wide.
  The aggregate buffer is a byte list whose length is the value of `*aggsig_len` on entry.
-/
namespace SecpZkp
namespace Halfagg

/-- `secp256k1_schnorrsig_sha256_tagged_aggregation`: the C code hard-codes the midstate. -/
def tagAgg : Sha256.State := Sha256.initTagged "HalfAgg/randomizer".toUTF8.toList

def sizeMax : Nat := 2 ^ 64

/-- 32 bytes at offset `32*i` -/
def chunk32 (b : Bytes) (i : Nat) : Bytes := (b.drop (32 * i)).take 32

/-- first loop of `inc_aggregate`: absorb `r_i ‖ pk_i ‖ m_i` for the `n_before` old entries.
    `none` = `xonly_pubkey_serialize` failed (one illegal callback). -/
def absorbOld (aggsig : Bytes) : (i : Nat) → List (Pt × Bytes) → Sha256.State → Option Sha256.State
  | _, [], h => some h
  | i, (pk, m) :: rest, h =>
    let r := Keys.xonlySerialize pk
    if r.ret = 0 then none else
    absorbOld aggsig (i + 1) rest (Sha256.writeAll h [chunk32 aggsig i, r.out, m])

/-- second loop: for every new signature absorb `r_i ‖ pk_i ‖ m_i`, derive `z_i` from a copy of the
    running hash and accumulate `s += z_i * s_i` (`z_0 = 1`). -/
def absorbNew : (i : Nat) → List (Pt × Bytes × Bytes) → Sha256.State → Nat → Option Nat
  | _, [], _, s => some s
  | i, (pk, m, sig64) :: rest, h, s =>
    let r := Keys.xonlySerialize pk
    if r.ret = 0 then none else
    let h' := Sha256.writeAll h [sig64.take 32, r.out, m]
    let zi := Bytes.toNat (Sha256.finalize h') % N
    let si0 := Bytes.toNat (sig64.drop 32) % N          -- set_b32 without overflow check
    let si := if i ≠ 0 then Sc.mul si0 zi else si0
    absorbNew (i + 1) rest h' (Sc.add s si)

/-- `secp256k1_schnorrsig_inc_aggregate`: out = (buffer contents, `*aggsig_len`), both unchanged on
    failure. -/
def incAggregate (aggsig : Bytes) (allPubkeys : List Pt) (allMsgs : List Bytes) (newSigs : List Bytes)
    (nBefore : Nat) : Ret (Bytes × Nat) :=
  let aggsigLen := aggsig.length
  let fail (ill : Nat) : Ret (Bytes × Nat) := ⟨0, (aggsig, aggsigLen), ill⟩
  let nNew := newSigs.length
  -- ARG_CHECK(new_sigs64 != NULL || n_new == 0): holds by the list convention
  let n := (nBefore + nNew) % sizeMax
  if ¬ n ≥ nBefore then fail 1 else                        -- ARG_CHECK(n >= n_before)
  if allPubkeys.isEmpty ∧ n ≠ 0 then fail 1 else          -- ARG_CHECK(all_pubkeys != NULL || n == 0)
  if allMsgs.isEmpty ∧ n ≠ 0 then fail 1 else             -- ARG_CHECK(all_msgs32 != NULL || n == 0)
  if aggsigLen / 32 ≤ 0 ∨ aggsigLen / 32 - 1 < n then fail 0 else
  let pairs := List.zip allPubkeys allMsgs
  match absorbOld aggsig 0 (pairs.take nBefore) tagAgg with
  | none => fail 1
  | some h =>
    let s0 := if nBefore > 0 then Bytes.toNat (chunk32 aggsig nBefore) % N else 0
    let news := List.zipWith (fun (pm : Pt × Bytes) sg => (pm.1, pm.2, sg)) (pairs.drop nBefore) newSigs
    match absorbNew nBefore news h s0 with
    | none => fail 1
    | some s =>
      let out := aggsig.take (32 * nBefore) ++ (newSigs.map (·.take 32)).flatten ++ Bytes.be32 s
                 ++ aggsig.drop (32 * (n + 1))
      ⟨1, (out, 32 * (1 + n)), 0⟩

/-- `secp256k1_schnorrsig_aggregate` -/
def aggregate (aggsig : Bytes) (pubkeys : List Pt) (msgs : List Bytes) (sigs : List Bytes) : Ret (Bytes × Nat) :=
  incAggregate aggsig pubkeys msgs sigs 0

/-- outcome of the verification loop -/
inductive LoopOut where
  | illegal            -- xonly_pubkey_load failed
  | reject             -- r_i ≥ p or not an abscissa
  | ok (rhs : Pt)

/-- loop of `aggverify`: `rhs = Σ z_i (R_i + e_i P_i)` with `z_0 = 1`. -/
def verifyLoop (aggsig : Bytes) : (i : Nat) → List (Pt × Bytes) → Sha256.State → Pt → LoopOut
  | _, [], _, rhs => .ok rhs
  | i, (pk, m) :: rest, h, rhs =>
    match pk with
    | .inf => .illegal
    | .aff px _ =>
      let pkSer := Bytes.be32 px
      let ri := chunk32 aggsig i
      let h' := Sha256.writeAll h [ri, pkSer, m]
      let zi := Bytes.toNat (Sha256.finalize h') % N
      match Codec.feLimit ri with
      | none => .reject
      | some rx =>
        match Pt.liftX rx false with
        | none => .reject
        | some rp =>
          let ei := Schnorr.challenge ri m pkSer
          let ti0 := Pt.add (Pt.mul ei pk) rp
          let ti := if i ≠ 0 then Pt.mul zi ti0 else ti0
          verifyLoop aggsig (i + 1) rest h' (Pt.add rhs ti)

/-- `secp256k1_schnorrsig_aggverify`; `aggsig = none` is the NULL pointer. -/
def aggverify (pubkeys : List Pt) (msgs : List Bytes) (aggsig : Option Bytes) : Ret Unit :=
  match aggsig with
  | none => ⟨0, (), 1⟩                                   -- ARG_CHECK(aggsig != NULL)
  | some agg =>
    let n := pubkeys.length
    let len := agg.length
    if len / 32 ≤ 0 ∨ len / 32 - 1 ≠ n ∨ len % 32 ≠ 0 then ⟨0, (), 0⟩ else
    match verifyLoop agg 0 (List.zip pubkeys msgs) tagAgg .inf with
    | .illegal => ⟨0, (), 1⟩
    | .reject => ⟨0, (), 0⟩
    | .ok rhs =>
      let (s, ov) := Sc.setB32 (chunk32 agg n)
      if ov then ⟨0, (), 0⟩ else
      ⟨if (Pt.add (Pt.neg (Pt.mulG s)) rhs).isInf then 1 else 0, (), 0⟩

end Halfagg
end SecpZkp
