import SecpZkp.Model.Codec
import SecpZkp.Model.Sha256
import SecpZkp.Model.Ecdh
/-
  ElligatorSwift module (`src/modules/ellswift/main_impl.h`, BIP-324), transcribed function by
  function.  Field elements are `Nat` reduced mod `P`; every function first reduces its inputs so that
  it is total on `Nat`.  `secp256k1_ecmult_const_xonly` is modelled at specification level.
-/
namespace SecpZkp
namespace Ellswift

/-- c1 = (sqrt(-3)-1)/2 -/
def c1 : Nat := 0x851695d49a83f8ef919bb86153cbcb16630fb68aed0a766a3ec693d68e6afa40
/-- c2 = (-sqrt(-3)-1)/2 = -(c1+1) -/
def c2 : Nat := 0x7ae96a2b657c07106e64479eac3434e99cf0497512f58995c1396c28719501ee
/-- c3 = (-sqrt(-3)+1)/2 = -c1 = c2+1 -/
def c3 : Nat := 0x7ae96a2b657c07106e64479eac3434e99cf0497512f58995c1396c28719501ef
/-- c4 = (sqrt(-3)+1)/2 = -c2 = c1+1 -/
def c4 : Nat := 0x851695d49a83f8ef919bb86153cbcb16630fb68aed0a766a3ec693d68e6afa41

/-- `secp256k1_ge_x_on_curve_var`: x^3 + 7 is a square. -/
def geXOnCurveVar (x : Nat) : Bool :=
  let c := Fe.sqr x
  let c := Fe.mul c x
  let c := Fe.add c 7
  Fe.isSquare c

/-- `secp256k1_ge_x_frac_on_curve_var`: xd*xn^3 + 7*xd^4 is a square (xd ≠ 0 required by the caller). -/
def geXFracOnCurveVar (xn xd : Nat) : Bool :=
  let r := Fe.mul xd xn
  let t := Fe.sqr xn
  let r := Fe.mul r t
  let t := Fe.sqr xd
  let t := Fe.sqr t
  let t := Fe.mul t 7
  let r := Fe.add r t
  Fe.isSquare r

/-- `secp256k1_ge_set_xo_var` (via `secp256k1_ge_set_xquad`): r.x = x, r.y = (x^3+7)^((p+1)/4) with
    the requested parity; the second component is the return value (whether r.y is a square root). -/
def geSetXoVar (x : Nat) (odd : Bool) : Pt × Bool :=
  let x := x % P
  let c := Fe.add (Fe.mul (Fe.sqr x) x) 7
  let y := Fe.sqrtCand c
  let ret := Fe.sqr y == c
  let y := if Fe.isOdd y != odd then Fe.neg y else y
  (.aff x y, ret)

/-- `secp256k1_ellswift_xswiftec_frac_var`: (u, t) ↦ (xn, xd). -/
def xswiftecFracVar (u t : Nat) : Nat × Nat :=
  let u := u % P
  let t := t % P
  let u1 := if u = 0 then 1 else u                       -- if u = 0, set u = 1
  let s := Fe.sqr t
  let s := if t = 0 then 1 else s                        -- if t = 0, set s = 1
  let l := Fe.sqr u1                                     -- l = u^2
  let g := Fe.mul l u1                                   -- g = u^3
  let g := Fe.add g 7                                    -- g = u^3 + 7
  let p := Fe.add g s                                    -- p = g+s
  let (s, p) :=
    if p = 0 then                                        -- if g+s = 0, set s = 4*s
      let s4 := Fe.mul s 4
      (s4, Fe.add g s4)
    else (s, p)
  let d := Fe.mul s l                                    -- d = s*u^2
  let d := Fe.mul d 3                                    -- d = 3*s*u^2
  let l := Fe.sqr p                                      -- l = (g+s)^2
  let l := Fe.neg l                                      -- l = -(g+s)^2
  let n := Fe.mul d u1                                   -- n = 3*s*u^3
  let n := Fe.add n l                                    -- n = 3*s*u^3-(g+s)^2
  if geXFracOnCurveVar n d then
    (n, d)                                               -- x3 = n/d
  else
    let l := Fe.mul c1 s                                 -- l = c1*s
    let n := Fe.mul c2 g                                 -- n = c2*g
    let n := Fe.add n l                                  -- n = c1*s+c2*g
    let n := Fe.mul n u1                                 -- n = u*(c1*s+c2*g)
    if geXFracOnCurveVar n p then
      (n, p)                                             -- x2 = n/p
    else
      let l := Fe.mul p u1                               -- l = u*(g+s)
      let n := Fe.add n l                                -- n = u*(c1*s+c2*g)+u*(g+s)
      (Fe.neg n, p)                                      -- x1 = -(x2+u)

/-- `secp256k1_ellswift_xswiftec_var` -/
def xswiftecVar (u t : Nat) : Nat :=
  let (xn, xd) := xswiftecFracVar u t
  let xd := Fe.inv xd
  Fe.mul xn xd

/-- `secp256k1_ellswift_swiftec_var` (`t` normalized by the caller; the return value of
    `ge_set_xo_var` is ignored as in C). -/
def swiftecVar (u t : Nat) : Pt :=
  let x := xswiftecVar u t
  (geSetXoVar x (Fe.isOdd (t % P))).1

/-- `secp256k1_ellswift_xswiftec_inv_var`: `none` = return 0, `some t` = return 1. -/
def xswiftecInvVar (x u : Nat) (c : Nat) : Option Nat :=
  let x := x % P
  let u := u % P
  -- first part: compute (s, v) or fail
  let sv : Option (Nat × Nat) :=
    if c &&& 2 = 0 then
      -- c in {0, 1, 4, 5}: inverse under the x1 / x2 formula
      let m := Fe.add x u                                -- m = u+x
      let m := Fe.neg m                                  -- m = -u-x
      if geXOnCurveVar m then none else                  -- would round-trip through x3 instead
      let s := Fe.sqr m                                  -- s = (u+x)^2
      let s := Fe.neg s                                  -- s = -(u+x)^2
      let m := Fe.mul u x                                -- m = u*x
      let s := Fe.add s m                                -- s = -(u^2 + u*x + x^2)
      let g := Fe.sqr u                                  -- g = u^2
      let g := Fe.mul g u                                -- g = u^3
      let g := Fe.add g 7                                -- g = u^3+7
      let m := Fe.mul s g                                -- m = -(u^3 + 7)*(u^2 + u*x + x^2)
      if !Fe.isSquare m then none else
      let s := Fe.inv s                                  -- s = -1/(u^2 + u*x + x^2)
      let s := Fe.mul s g                                -- s = -(u^3 + 7)/(u^2 + u*x + x^2)
      some (s, x)                                        -- v = x
    else
      -- c in {2, 3, 6, 7}: inverse under the x3 formula
      let m := Fe.neg u                                  -- m = -u
      let s := Fe.add m x                                -- s = x-u
      if !Fe.isSquare s then none else
      let g := Fe.sqr u                                  -- g = u^2
      let q := Fe.mul s g                                -- q = s*u^2
      let q := Fe.mul q 3                                -- q = 3*s*u^2
      let g := Fe.mul g u                                -- g = u^3
      let g := Fe.mul g 4                                -- g = 4*u^3
      let g := Fe.add g 28                               -- g = 4*(u^3+7)
      let q := Fe.add q g                                -- q = 4*(u^3+7)+3*s*u^2
      let q := Fe.mul q s                                -- q = s*(4*(u^3+7)+3*u^2*s)
      let q := Fe.neg q                                  -- q = -s*(4*(u^3+7)+3*u^2*s)
      if !Fe.isSquare q then none else
      let r := Fe.sqrtCand q                             -- r = sqrt(q)
      if c &&& 1 = 1 ∧ r = 0 then none else              -- if (c & 1) = 1 and r = 0, fail
      if s = 0 then none else                            -- if s = 0, fail
      let v := Fe.inv s                                  -- v = 1/s
      let v := Fe.mul v r                                -- v = r/s
      let v := Fe.add v m                                -- v = r/s-u
      let v := Fe.half v                                 -- v = (r/s-u)/2
      some (s, v)
  match sv with
  | none => none
  | some (s, v) =>
    let w := Fe.sqrtCand s                               -- w = sqrt(s)
    let m := if c &&& 5 = 0 ∨ c &&& 5 = 5 then Fe.neg w else w
    let u := Fe.mul u (if c &&& 1 = 1 then c4 else c3)
    let u := Fe.add u v
    some (Fe.mul m u)

/-- `secp256k1_ellswift_prng`: SHA256(hasher ‖ cnt as 4 little-endian bytes). -/
def prng (hasher : Sha256.State) (cnt : Nat) : Bytes :=
  let buf4 := (Bytes.ofNat 4 cnt).reverse
  Sha256.finalize (Sha256.write hasher buf4)

/-- The `while (1)` loop of `secp256k1_ellswift_xelligatorswift_var`, with fuel.
    State: pool of branch values, number of values left, counter. Result (u32, t). -/
def xelligatorswiftLoop : Nat → Nat → Sha256.State → Bytes → Nat → Nat → Option (Bytes × Nat)
  | 0, _, _, _, _, _ => none
  | fuel + 1, x, hasher, branchHash, branchesLeft, cnt =>
      -- if the pool of branch values is empty, populate it
      let (branchHash, branchesLeft, cnt) :=
        if branchesLeft = 0 then (prng hasher cnt, 64, (cnt + 1) % 2 ^ 32) else (branchHash, branchesLeft, cnt)
      let branchesLeft := branchesLeft - 1
      let branch := ((branchHash.getD (branchesLeft >>> 1) 0).toNat >>> ((branchesLeft &&& 1) <<< 2)) &&& 7
      let u32 := prng hasher cnt
      let cnt := (cnt + 1) % 2 ^ 32
      let u := Bytes.toNat u32 % P                       -- fe_set_b32_mod
      match xswiftecInvVar x u branch with
      | some t => some (u32, t)
      | none => xelligatorswiftLoop fuel x hasher branchHash branchesLeft cnt

/-- Default fuel for the encoding search (each iteration succeeds with probability ≈ 1/4). -/
def defaultFuel : Nat := 2048

/-- `secp256k1_ellswift_xelligatorswift_var`; `none` = the loop did not finish within `fuel` iterations. -/
def xelligatorswiftVar (fuel : Nat) (x : Nat) (hasher : Sha256.State) : Option (Bytes × Nat) :=
  xelligatorswiftLoop fuel x hasher [] 0 0

/-- `secp256k1_ellswift_elligatorswift_var`: as above, then fix the parity of t to that of p.y. -/
def elligatorswiftVar (fuel : Nat) (px py : Nat) (hasher : Sha256.State) : Option (Bytes × Nat) :=
  match xelligatorswiftVar fuel px hasher with
  | none => none
  | some (u32, t) =>
    let t := t % P                                       -- normalize
    let t := if Fe.isOdd t != Fe.isOdd py then Fe.neg t else t
    some (u32, t)

/-- tagged-hash midstates (`secp256k1_ellswift_sha256_init_*`) -/
def tagEncode : Sha256.State := Sha256.initTagged "secp256k1_ellswift_encode".toUTF8.toList
def tagCreate : Sha256.State := Sha256.initTagged "secp256k1_ellswift_create".toUTF8.toList
def tagBip324 : Sha256.State := Sha256.initTagged "bip324_ellswift_xonly_ecdh".toUTF8.toList

/-- `secp256k1_ellswift_encode`; outer `none` only if the search loop ran out of fuel. -/
def encode (fuel : Nat) (pubkey : Pt) (rnd32 : Bytes) : Option (Ret Bytes) :=
  match pubkey with
  | .inf => some ⟨0, Bytes.zeros 64, 1⟩                 -- pubkey_load fails (callback), memset(ell64, 0, 64)
  | .aff px py =>
    let p64 := Codec.serialize33 (.aff px py) ++ Bytes.zeros 31
    let hash := tagEncode
    let hash := Sha256.write hash p64
    let hash := Sha256.write hash rnd32
    match elligatorswiftVar fuel px py hash with
    | none => none
    | some (u32, t) => some ⟨1, u32 ++ Bytes.be32 t, 0⟩

/-- `secp256k1_ellswift_create`; outer `none` only if the search loop ran out of fuel. -/
def create (fuel : Nat) (seckey32 : Bytes) (auxrnd32 : Option Bytes) : Option (Ret Bytes) :=
  -- ec_pubkey_create_helper: invalid key replaced by 1
  let (d, ok) := Sc.setB32Seckey seckey32
  let d := if ok then d else 1
  let p := Pt.mulG d
  let hash := tagCreate
  let hash := Sha256.write hash seckey32
  let hash := Sha256.write hash (Bytes.zeros 32)
  let hash := match auxrnd32 with
    | some a => Sha256.write hash a
    | none => hash
  match elligatorswiftVar fuel (Pt.xOf p) (Pt.yOf p) hash with
  | none => none
  | some (u32, t) =>
    let ell64 := u32 ++ Bytes.be32 t
    -- memczero(ell64, 64, !ret)
    some ⟨if ok then 1 else 0, if ok then ell64 else Bytes.zeros 64, 0⟩

/-- `secp256k1_ellswift_decode` -/
def decode (ell64 : Bytes) : Ret Pt :=
  let u := Bytes.toNat (ell64.take 32) % P
  let t := Bytes.toNat ((ell64.drop 32).take 32) % P
  ⟨1, swiftecVar u t, 0⟩

/-- `secp256k1_ecmult_const_xonly` at specification level: the x-coordinate of q·(x, y) where
    x = n/d (d = `none` means denominator 1) and y is the square root `(x^3+7)^((p+1)/4)`;
    `none` = return 0 (only possible when `knownOnCurve` is false).
    Preconditions of the C function (VERIFY_CHECKs): d ≠ 0, q ≠ 0; and if `knownOnCurve` then x is
    on the curve. -/
def ecmultConstXonly (n : Nat) (d : Option Nat) (q : Nat) (knownOnCurve : Bool) : Option Nat :=
  let g := Fe.mul (Fe.sqr n) n
  -- c: the value whose squareness decides whether n/d is on the curve
  let c := match d with
    | some d =>
      let b := Fe.mul (Fe.mul (Fe.sqr d) 7) d
      let g := Fe.add g b                                -- g = n^3 + 7*d^3
      Fe.mul g d                                         -- is_square((n/d)^3+7) <=> is_square(g*d)
    | none => Fe.add g 7                                 -- g = x^3 + 7
  if !knownOnCurve && !Fe.isSquare c then none else
  let x := match d with
    | some d => Fe.mul n (Fe.inv d)
    | none => n % P
  let p := (geSetXoVar x false).1
  some (Pt.xOf (Pt.mul q p))

/-- `secp256k1_ellswift_xdh_hash_function`: (x32, ell_a64, ell_b64) ↦ (return value, bytes written);
    the `data` pointer is part of the closure. -/
abbrev XdhHashFn := Bytes → Bytes → Bytes → Nat × Option Bytes

/-- `ellswift_xdh_hash_function_prefix_impl`: SHA256(data[0..64] ‖ ell_a64 ‖ ell_b64 ‖ x32) -/
def hashPrefix (data64 : Bytes) : XdhHashFn := fun x32 a b =>
  let sha := Sha256.init
  let sha := Sha256.write sha (data64.take 64)
  let sha := Sha256.write sha a
  let sha := Sha256.write sha b
  let sha := Sha256.write sha x32
  (1, some (Sha256.finalize sha))

/-- `ellswift_xdh_hash_function_bip324_impl` -/
def hashBip324 : XdhHashFn := fun x32 a b =>
  let sha := tagBip324
  let sha := Sha256.write sha a
  let sha := Sha256.write sha b
  let sha := Sha256.write sha x32
  (1, some (Sha256.finalize sha))

/-- `secp256k1_ellswift_xdh`; `hashfp = none` is the NULL pointer (ARG_CHECK). -/
def xdh (prev : Bytes) (ellA64 ellB64 seckey32 : Bytes) (party : Nat) (hashfp : Option XdhHashFn) : Ret Bytes :=
  match hashfp with
  | none => ⟨0, prev, 1⟩
  | some f =>
    -- load remote public key (as fraction)
    let theirs64 := if party ≠ 0 then ellA64 else ellB64
    let u := Bytes.toNat (theirs64.take 32) % P
    let t := Bytes.toNat ((theirs64.drop 32).take 32) % P
    let (xn, xd) := xswiftecFracVar u t
    -- load private key (using one if invalid)
    let (s0, ov) := Sc.setB32 seckey32
    let overflow := ov || s0 == 0
    let s := if overflow then 1 else s0
    -- shared X coordinate (known_on_curve = 1: always returns 1)
    let px := (ecmultConstXonly xn (some xd) s true).getD 0
    let sx := Bytes.be32 px
    let (ret, written) := f sx ellA64 ellB64
    ⟨if ret ≠ 0 ∧ !overflow then 1 else 0, Ecdh.writeOut prev written, 0⟩

end Ellswift
end SecpZkp
