import SecpZkp.Model.Bytes
/-
  Arithmetic modulo the field prime p and the group order n, on `Nat`.
  `powMod` is binary exponentiation by structural recursion on fuel (kernel friendly).
-/
namespace SecpZkp

def P : Nat := 0xFFFFFFFFFFFFFFFFFFFFFFFFFFFFFFFFFFFFFFFFFFFFFFFFFFFFFFFEFFFFFC2F
def N : Nat := 0xFFFFFFFFFFFFFFFFFFFFFFFFFFFFFFFEBAAEDCE6AF48A03BBFD25E8CD0364141

/-- `acc * a^e mod m` by square-and-multiply, least significant bit first. -/
def powModAux : Nat → Nat → Nat → Nat → Nat → Nat
  | 0, _, _, _, acc => acc
  | fuel + 1, a, e, m, acc =>
      if e = 0 then acc
      else powModAux fuel (a * a % m) (e / 2) m (if e % 2 = 1 then acc * a % m else acc)

def powMod (a e m : Nat) : Nat := powModAux 520 (a % m) e m (1 % m)

namespace Fe

@[inline] def add (a b : Nat) : Nat := (a + b) % P
@[inline] def sub (a b : Nat) : Nat := (a + (P - b % P)) % P
@[inline] def neg (a : Nat) : Nat := (P - a % P) % P
@[inline] def mul (a b : Nat) : Nat := (a * b) % P
@[inline] def sqr (a : Nat) : Nat := (a * a) % P
def inv (a : Nat) : Nat := powMod a (P - 2) P
/-- candidate square root `a^((p+1)/4)` -/
def sqrtCand (a : Nat) : Nat := powMod a ((P + 1) / 4) P
/-- `some r` with `r*r = a` iff `a` is a square (as `secp256k1_fe_sqrt`) -/
def sqrt (a : Nat) : Option Nat :=
  let r := sqrtCand a
  if sqr r = a % P then some r else none
def isSquare (a : Nat) : Bool := sqr (sqrtCand a) = a % P
@[inline] def isOdd (a : Nat) : Bool := a % 2 = 1
def half (a : Nat) : Nat := if a % 2 = 0 then a / 2 else (a + P) / 2

end Fe

namespace Sc

@[inline] def add (a b : Nat) : Nat := (a + b) % N
@[inline] def sub (a b : Nat) : Nat := (a + (N - b % N)) % N
@[inline] def neg (a : Nat) : Nat := (N - a % N) % N
@[inline] def mul (a b : Nat) : Nat := (a * b) % N
def inv (a : Nat) : Nat := powMod a (N - 2) N
/-- `secp256k1_scalar_is_high`: a > (n-1)/2 -/
@[inline] def isHigh (a : Nat) : Bool := a > (N - 1) / 2
def half (a : Nat) : Nat := if a % 2 = 0 then a / 2 else (a + N) / 2

/-- `secp256k1_scalar_set_b32`: value reduced mod n, and the overflow flag. -/
def setB32 (b : Bytes) : Nat × Bool :=
  let v := Bytes.toNat b
  (v % N, v ≥ N)

/-- `secp256k1_scalar_set_b32_seckey`: valid iff no overflow and non-zero. -/
def setB32Seckey (b : Bytes) : Nat × Bool :=
  let (v, ov) := setB32 b
  (v, !ov && v != 0)

end Sc
end SecpZkp
