import SecpZkp.Model.Borromean
/-
  Surjection proofs (modules/surjection/main_impl.h, surjection_impl.h).

  A proof object mirrors `secp256k1_surjectionproof`: `nInputs`, the 32-byte bitmap `used`
  (`used_inputs[256/8]`) and the 8224-byte `data` (`e0 ‖ s_0 ‖ s_1 ‖ ...`, 32 * (1 + 256) bytes).
  Functions that only overwrite a prefix of those arrays (parse, generate) keep the remaining bytes
  of the object they were given, exactly as the C code does.
  Fixed asset tags are 32-byte strings, ephemeral tags (generator objects) are finite points.
-/
namespace SecpZkp
namespace Surjection

def MAX_N_INPUTS : Nat := 256
def MAX_USED_INPUTS : Nat := 256
def USED_BYTES : Nat := 32           -- sizeof used_inputs
def DATA_BYTES : Nat := 32 * 257     -- sizeof data

structure Proof where
  nInputs : Nat
  used : Bytes
  data : Bytes
deriving Repr, DecidableEq

/-- the all-zero object -/
def Proof.zero : Proof := ⟨0, Bytes.zeros USED_BYTES, Bytes.zeros DATA_BYTES⟩

/-- number of set bits of one byte (both branches of `secp256k1_count_bits_set` agree on this) -/
def popcount8 (b : UInt8) : Nat :=
  let n := b.toNat
  n % 2 + n / 2 % 2 + n / 4 % 2 + n / 8 % 2 + n / 16 % 2 + n / 32 % 2 + n / 64 % 2 + n / 128 % 2

/-- `secp256k1_count_bits_set(data, count)` -/
def countBitsSet (data : Bytes) (count : Nat) : Nat :=
  (data.take count).foldl (fun acc b => acc + popcount8 b) 0

/-- `(n_inputs + 7) / 8` -/
def bitmapLen (n : Nat) : Nat := (n + 7) / 8

/-- `used[i / 8] & (1 << (i % 8))` -/
def testBit (used : Bytes) (i : Nat) : Bool :=
  (used.getD (i / 8) 0).toNat / 2 ^ (i % 8) % 2 = 1

/-- `used[i / 8] |= (1 << (i % 8))` -/
def setBit (used : Bytes) (i : Nat) : Bytes :=
  used.set (i / 8) (used.getD (i / 8) 0 ||| UInt8.ofNat (2 ^ (i % 8)))

/-- `secp256k1_surjectionproof_parse`: (ret, object). On failure the object is left untouched. -/
def parse (input : Bytes) (prior : Proof := Proof.zero) : Nat × Proof :=
  if input.length < 2 then (0, prior) else
  let nInputs := (input.getD 1 0).toNat * 256 + (input.getD 0 0).toNat
  if nInputs > MAX_N_INPUTS then (0, prior) else
  let bl := bitmapLen nInputs
  if input.length < 2 + bl then (0, prior) else
  -- final bitmap byte must have no padding bits set
  let padBad : Bool :=
    if nInputs % 8 ≠ 0 then
      let paddingMask : UInt8 := UInt8.ofNat (0xFFFFFFFF * 2 ^ (nInputs % 8) % 256)
      (input.getD (2 + bl - 1) 0 &&& paddingMask) ≠ 0
    else false
  if padBad then (0, prior) else
  let signatureLen := 32 * (1 + countBitsSet (input.drop 2) bl)
  if input.length ≠ 2 + bl + signatureLen then (0, prior) else
  (1, { nInputs := nInputs
        used := (input.drop 2).take bl ++ prior.used.drop bl
        data := (input.drop (2 + bl)).take signatureLen ++ prior.data.drop signatureLen })

/-- `secp256k1_surjectionproof_n_total_inputs` -/
def nTotalInputs (p : Proof) : Nat := p.nInputs

/-- `secp256k1_surjectionproof_n_used_inputs` -/
def nUsedInputs (p : Proof) : Nat := countBitsSet p.used (bitmapLen p.nInputs)

/-- `secp256k1_surjectionproof_serialized_size` -/
def serializedSize (p : Proof) : Nat := 2 + bitmapLen p.nInputs + 32 * (1 + nUsedInputs p)

/-- `secp256k1_surjectionproof_serialize` with the `*outputlen` contract:
    (ret, bytes written to the start of the buffer, new `*outputlen`). -/
def serialize (p : Proof) (outlen : Nat) : Nat × Bytes × Nat :=
  let bl := bitmapLen p.nInputs
  let signatureLen := 32 * (1 + countBitsSet p.used bl)
  let serializedLen := 2 + bl + signatureLen
  if outlen < serializedLen then (0, [], outlen) else
  (1, [UInt8.ofNat (p.nInputs % 0x100), UInt8.ofNat (p.nInputs / 0x100)] ++ p.used.take bl ++ p.data.take signatureLen,
   serializedLen)

/-- serialization into a buffer that is large enough -/
def serializeFull (p : Proof) : Bytes := (serialize p (serializedSize p)).2.1

/-! ### CSPRNG and subset selection -/

/-- `secp256k1_surjectionproof_csprng` -/
structure Csprng where
  state : Bytes
  stateI : Nat
deriving Repr

/-- `secp256k1_surjectionproof_csprng_init` -/
def csprngInit (seed32 : Bytes) : Csprng := ⟨seed32, 0⟩

/-- `secp256k1_surjectionproof_csprng_next`: rejection sampling; `none` = fuel exhausted
    (each round is accepted with probability > 1/2 when `0 < randMax ≤ 65535`). -/
def csprngNext : (fuel : Nat) → Csprng → (randMax : Nat) → Option (Nat × Csprng)
  | 0, _, _ => none
  | fuel + 1, c, randMax =>
    let increment := if randMax > 256 then 2 else 1
    let selectionRange := if randMax > 256 then 0xffff else 0xff
    let limit := ((selectionRange + 1) / randMax) * randMax
    let c1 : Csprng := if c.stateI + increment ≥ 32 then ⟨Sha256.sha256 c.state, 0⟩ else c
    let v0 := (c1.state.getD c1.stateI 0).toNat
    let val := if increment > 1 then v0 * 256 + (c1.state.getD (c1.stateI + 1) 0).toNat else v0
    let c2 : Csprng := ⟨c1.state, c1.stateI + increment⟩
    if val < limit then some (val % randMax, c2) else csprngNext fuel c2 randMax

def SAMPLE_FUEL : Nat := 4096
def DRAW_FUEL : Nat := 1000000

/-- working state of `secp256k1_surjectionproof_initialize` -/
structure InitState where
  csprng : Csprng
  used : Bytes
  inputIndex : Nat
  hasOutputTag : Bool

/-- inner `while (1)`: draw indices until one that is not yet in the bitmap is found. Every drawn
    index that matches the output tag is recorded (also when it was already selected). -/
def drawUnused (inputTags : List Bytes) (outputTag : Bytes) : (fuel : Nat) → InitState → Option InitState
  | 0, _ => none
  | fuel + 1, st =>
    match csprngNext SAMPLE_FUEL st.csprng inputTags.length with
    | none => none
    | some (next, c) =>
      let st1 : InitState :=
        if inputTags.getD next [] = outputTag then { st with csprng := c, inputIndex := next, hasOutputTag := true }
        else { st with csprng := c }
      if !testBit st1.used next then some { st1 with used := setBit st1.used next }
      else drawUnused inputTags outputTag fuel st1

/-- `for (i = 0; i < n_input_tags_to_use; i++)` -/
def selectSubset (inputTags : List Bytes) (outputTag : Bytes) : (k : Nat) → InitState → Option InitState
  | 0, st => some st
  | k + 1, st =>
    match drawUnused inputTags outputTag DRAW_FUEL st with
    | none => none
    | some st1 => selectSubset inputTags outputTag k st1

/-- outer `while (1)`: returns (ret, bitmap, input_index) -/
def initLoop (inputTags : List Bytes) (nToUse : Nat) (outputTag : Bytes) (nMaxIterations : Nat) :
    (fuel : Nat) → Csprng → (inputIndex nIterations : Nat) → Option (Nat × Bytes × Nat)
  | 0, _, _, _ => none
  | fuel + 1, c, inputIndex, nIterations =>
    match selectSubset inputTags outputTag nToUse ⟨c, Bytes.zeros USED_BYTES, inputIndex, false⟩ with
    | none => none
    | some st =>
      let nIterations := nIterations + 1
      if st.hasOutputTag then some (nIterations, st.used, st.inputIndex)
      else if nIterations ≥ nMaxIterations then some (0, st.used, st.inputIndex)
      else initLoop inputTags nToUse outputTag nMaxIterations fuel st.csprng st.inputIndex nIterations

/-- `secp256k1_surjectionproof_initialize`: out = (proof object, `*input_index`).
    `none` only if a sampling loop ran out of fuel. -/
def initializeProof (prior : Proof) (priorIndex : Nat) (inputTags : List Bytes) (nToUse : Nat) (outputTag : Bytes)
    (nMaxIterations : Nat) (seed32 : Bytes) : Option (Ret (Proof × Nat)) :=
  if ¬ inputTags.length ≤ MAX_N_INPUTS then some ⟨0, (prior, priorIndex), 1⟩
  else if ¬ nToUse ≤ MAX_USED_INPUTS then some ⟨0, (prior, priorIndex), 1⟩
  else if ¬ nToUse ≤ inputTags.length then some ⟨0, (prior, priorIndex), 1⟩
  else
    match initLoop inputTags nToUse outputTag nMaxIterations (nMaxIterations + 1) (csprngInit seed32) priorIndex 0 with
    | none => none
    | some (ret, used, idx) => some ⟨ret, (⟨inputTags.length, used, Bytes.zeros DATA_BYTES⟩, idx), 0⟩

/-! ### message, forged scalars, ring keys -/

/-- `secp256k1_surjection_genmessage`: SHA256 of the compressed encodings of all inputs, then the output -/
def genMessage (inputs : List Pt) (output : Pt) : Bytes :=
  Sha256.finalize ((inputs ++ [output]).foldl (fun h p => Sha256.write h (Codec.serialize33 p)) Sha256.init)

/-- little-endian 4 bytes of the loop counter -/
def le4 (i : Nat) : Bytes := (Bytes.ofNat 4 i).reverse

/-- `secp256k1_surjection_genrand`. The 36-byte buffer `sec_input` is reused between rounds: the hash
    output overwrites bytes 0..31, the counter overwrites bytes 0..3, so from the second round on the
    input is `le4 i ‖ previous_hash[4..32] ‖ key[28..32]`. -/
def genRand (blindingKey : Nat) : (ns : Nat) → (i : Nat) → (secInput : Bytes) → Option (List Nat)
  | 0, _, _ => some []
  | ns + 1, i, secInput =>
    let buf := le4 i ++ secInput.drop 4
    let h := Sha256.sha256 buf
    let (s, overflow) := Sc.setB32 h
    if overflow then none else
    match genRand blindingKey ns (i + 1) (h ++ buf.drop 32) with
    | none => none
    | some rest => some (s :: rest)

def genRandAll (ns : Nat) (blindingKey : Nat) : Option (List Nat) :=
  genRand blindingKey ns 0 (Bytes.zeros 4 ++ Bytes.be32 blindingKey)

/-- `secp256k1_surjection_compute_public_keys`: ring keys `output - input_i` for the selected `i`, and the
    ring position of `inputIndex` (0 if it is not selected). -/
def computePublicKeys (inputs : List Pt) (used : Bytes) (output : Pt) (inputIndex : Nat) : List Pt × Nat :=
  let rec go : List Pt → (i j ring : Nat) → List Pt × Nat
    | [], _, _, ring => ([], ring)
    | t :: ts, i, j, ring =>
      if testBit used i then
        let pk := Pt.add (Pt.neg t) output
        let (rest, r) := go ts (i + 1) (j + 1) (if inputIndex = i then j else ring)
        (pk :: rest, r)
      else go ts (i + 1) j ring
  go inputs 0 0 0

/-- write `e0` and the scalars at the start of `data` -/
def writeSig (p : Proof) (e0 : Bytes) (s : List Nat) : Proof :=
  let sig := e0 ++ (s.map Bytes.be32).flatten
  { p with data := sig ++ p.data.drop sig.length }

/-- `secp256k1_surjectionproof_generate`.
    (If `secp256k1_borromean_sign` fails after its first phase, the C code has already written `e0` into the
    object; that needs a SHA256 output that is 0 or ≥ n, or a zero signature scalar, and is not modelled:
    the object is returned unchanged on every failure.) -/
def generate (proof : Proof) (inputs : List Pt) (output : Pt) (inputIndex : Nat)
    (inputBlindingKey outputBlindingKey : Bytes) : Ret Proof :=
  let nUsed := nUsedInputs proof
  if ¬ nUsed > 0 then ⟨0, proof, 1⟩ else
  let (tmps, ov1) := Sc.setB32 inputBlindingKey
  if ov1 then ⟨0, proof, 0⟩ else
  let (bk, ov2) := Sc.setB32 outputBlindingKey
  if ov2 then ⟨0, proof, 0⟩ else
  if inputs.any (fun t => t = output) then ⟨0, proof, 0⟩ else
  let blindingKey := Sc.add bk (Sc.neg tmps)
  let nTotal := nTotalInputs proof
  if nUsed > nTotal ∨ nTotal ≠ inputs.length then ⟨0, proof, 0⟩ else
  let (ringPubkeys, ringInputIndex) := computePublicKeys inputs proof.used output inputIndex
  let msg32 := genMessage inputs output
  match genRandAll nUsed blindingKey with
  | none => ⟨0, proof, 0⟩
  | some borromeanS =>
    let nonce := borromeanS.getD ringInputIndex 0
    let sIn := borromeanS.set ringInputIndex 0
    match Borromean.sign sIn ringPubkeys [nonce] [blindingKey] [nUsed] [ringInputIndex] msg32 with
    | none => ⟨0, proof, 0⟩
    | some (e0, sOut) => ⟨1, writeSig proof e0 sOut, 0⟩

/-- the scalars `s_0 .. s_{n-1}` stored in the proof; `none` if one overflows -/
def loadScalars (data : Bytes) : (n : Nat) → (i : Nat) → Option (List Nat)
  | 0, _ => some []
  | n + 1, i =>
    let (s, overflow) := Sc.setB32 ((data.drop (32 + 32 * i)).take 32)
    if overflow then none else
    match loadScalars data n (i + 1) with
    | none => none
    | some rest => some (s :: rest)

/-- `secp256k1_surjectionproof_verify` -/
def verify (proof : Proof) (inputs : List Pt) (output : Pt) : Bool :=
  let nTotal := nTotalInputs proof
  let nUsed := nUsedInputs proof
  if nUsed = 0 ∨ nUsed > nTotal ∨ nTotal ≠ inputs.length then false else
  if nUsed > MAX_USED_INPUTS then false else
  let (ringPubkeys, _) := computePublicKeys inputs proof.used output 0
  match loadScalars proof.data nUsed 0 with
  | none => false
  | some borromeanS =>
    let msg32 := genMessage inputs output
    (Borromean.verify (proof.data.take 32) borromeanS ringPubkeys [nUsed] msg32).1

/-- Adversarial prover (not in the C code): a proof over the subset `used` whose forged scalars `s` and nonce
    are chosen by the caller; the signer sits at ring position `ringIndex` with secret `sec`. -/
def mkAdv (inputs : List Pt) (used : Bytes) (output : Pt) (ringIndex sec nonce : Nat) (s : List Nat) : Option Proof :=
  let (ringPubkeys, _) := computePublicKeys inputs used output 0
  let nUsed := ringPubkeys.length
  if s.length ≠ nUsed then none else
  match Borromean.sign s ringPubkeys [nonce] [sec] [nUsed] [ringIndex] (genMessage inputs output) with
  | none => none
  | some (e0, sOut) =>
    some (writeSig ⟨inputs.length, (used ++ Bytes.zeros USED_BYTES).take USED_BYTES, Bytes.zeros DATA_BYTES⟩ e0 sOut)

end Surjection
end SecpZkp
