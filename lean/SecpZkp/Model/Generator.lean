import SecpZkp.Model.Schnorr
/-
  Generator module: asset generators (Shallue–van de Woestijne derivation), Pedersen commitments,
  tally and blind-sum helpers (modules/generator/main_impl.h, pedersen_impl.h).
  A generator object is a finite `Pt`; a commitment object is its 33-byte encoding
  (prefix 8 | (y is not a square), x).
-/
namespace SecpZkp
namespace Generator

/-- The standard value generator `secp256k1_generator_h`. -/
def H : Pt := .aff 0x50929b74c1a04954b78b4b6035e97a5e078a5a0f28ec96d547bfee9ace803ac0
                   0x31d3c6863973926e049e637cb1b5f40a36dac28af1766968c30c2313f3a38904

/-- `secp256k1_generator_parse` -/
def parse (input : Bytes) : Option Pt :=
  match input with
  | [] => none
  | b0 :: rest =>
    if b0 &&& 0xFE ≠ 10 then none else
    match Codec.feLimit rest with
    | none => none
    | some x =>
      match Pt.liftXQuad x with
      | none => none
      | some p => some (if b0 &&& 1 = 1 then Pt.neg p else p)

/-- `secp256k1_generator_serialize` -/
def serialize (g : Pt) : Bytes :=
  (if Fe.isSquare g.yOf then (10 : UInt8) else 11) :: Bytes.be32 g.xOf

def negc : Nat := 0xf5d2d456caf80e20dcc88f3d586869d339e092ea25eb132b8272d850e32a03dd
def dconst : Nat := 0x851695d49a83f8ef919bb86153cbcb16630fb68aed0a766a3ec693d68e6afa40

/-- `shallue_van_de_woestijne` -/
def svdw (t : Nat) : Pt :=
  let t2 := Fe.sqr t
  let wd := Fe.add t2 8
  let x3d := Fe.neg (Fe.mul 3 t2)
  let jinv := Fe.inv (Fe.mul wd x3d)
  let x1 := Fe.add (Fe.mul (Fe.mul (Fe.mul negc t2) x3d) jinv) dconst
  let x2 := Fe.neg (Fe.add x1 1)
  let x3 := Fe.add (Fe.mul (Fe.mul (Fe.sqr wd) wd) jinv) 1
  let f := fun x => Fe.add (Fe.mul (Fe.sqr x) x) 7
  let a := f x1; let b := f x2; let c := f x3
  let aq := Fe.isSquare a; let bq := Fe.isSquare b
  let (x, y) := if aq then (x1, Fe.sqrtCand a) else if bq then (x2, Fe.sqrtCand b) else (x3, Fe.sqrtCand c)
  .aff x (if Fe.isOdd t then Fe.neg y else y)

/-- `secp256k1_generator_generate_internal`: (ret, generator) -/
def generateInternal (key32 : Bytes) (blind32 : Option Bytes) : Nat × Pt :=
  let (acc0, ok0) := match blind32 with
    | none => (Pt.inf, true)
    | some b => let (bl, ov) := Sc.setB32 b; (Pt.mulG bl, !ov)
  let h1 := Sha256.sha256 ("1st generation: ".toUTF8.toList ++ key32)
  let h2 := Sha256.sha256 ("2nd generation: ".toUTF8.toList ++ key32)
  let t1v := Bytes.toNat h1; let t2v := Bytes.toNat h2
  -- on overflow `fe_set_b32_limit` leaves garbage in t; the call then reports failure
  let ok := ok0 && decide (t1v < P) && decide (t2v < P)
  let acc := Pt.add (Pt.add acc0 (svdw (t1v % P))) (svdw (t2v % P))
  (if ok then 1 else 0, acc)

/-! ### Pedersen commitments -/

def commitSave (p : Pt) : Bytes :=
  (if Fe.isSquare p.yOf then (8 : UInt8) else 9) :: Bytes.be32 p.xOf

/-- `secp256k1_pedersen_commitment_load` (object assumed well-formed) -/
def commitLoad (c : Bytes) : Pt :=
  match c with
  | [] => .inf
  | b0 :: rest =>
    match Pt.liftXQuad (Bytes.toNat rest % P) with
    | none => .inf
    | some p => if b0 &&& 1 = 1 then Pt.neg p else p

/-- `secp256k1_pedersen_commitment_parse` -/
def commitParse (input : Bytes) : Option Bytes :=
  match input with
  | [] => none
  | b0 :: rest =>
    if b0 &&& 0xFE ≠ 8 then none else
    match Codec.feLimit rest with
    | none => none
    | some x => if Fe.isSquare (Fe.add (Fe.mul (Fe.sqr x) x) 7) then some input else none

/-- `secp256k1_pedersen_commit`: none = failure (object untouched) -/
def commit (blind : Bytes) (value : Nat) (gen : Pt) : Option Bytes :=
  let (sec, ov) := Sc.setB32 blind
  if ov then none else
  match Pt.add (Pt.mulG sec) (Pt.mul value gen) with
  | .inf => none
  | p => some (commitSave p)

/-- `secp256k1_pedersen_blind_sum` -/
def blindSum (blinds : List Bytes) (npositive : Nat) : Option Bytes :=
  let rec go : List Bytes → Nat → Nat → Option Nat
    | [], _, acc => some acc
    | b :: bs, i, acc =>
      let (x, ov) := Sc.setB32 b
      if ov then none else go bs (i + 1) (Sc.add acc (if i ≥ npositive then Sc.neg x else x))
  (go blinds 0 0).map Bytes.be32

/-- `secp256k1_pedersen_verify_tally` -/
def verifyTally (pos neg : List Bytes) : Bool :=
  let accN := neg.foldl (fun a c => Pt.add a (commitLoad c)) Pt.inf
  let acc := pos.foldl (fun a c => Pt.add a (commitLoad c)) (Pt.neg accN)
  acc.isInf

/-- `secp256k1_pedersen_blind_generator_blind_sum`: returns the new last blinding factor. -/
def blindGeneratorBlindSum (values : List Nat) (genBlinds blinds : List Bytes) (nInputs : Nat) : Option Bytes :=
  let rec go : List (Nat × Bytes × Bytes) → Nat → Nat → Nat → Option (Nat × Nat)
    | [], _, sum, tmp => some (sum, tmp)
    | (v, gb, bf) :: rest, i, sum, _ =>
      let (g, o1) := Sc.setB32 gb
      if o1 then none else
      let (b, o2) := Sc.setB32 bf
      if o2 then none else
      let addend := Sc.add (Sc.mul (v % N) g) b
      let addend := if i < nInputs then Sc.neg addend else addend
      go rest (i + 1) (Sc.add sum addend) b
  match go (List.zip values (List.zip genBlinds blinds)) 0 0 0 with
  | none => none
  | some (sum, tmp) => some (Bytes.be32 (Sc.add tmp (Sc.neg sum)))

end Generator
end SecpZkp
