import SecpZkp.Model.Bytes
/-
  SHA-256 (FIPS 180-4) on Nat words, the streaming object of `hash_impl.h`
  (`secp256k1_sha256_{initialize,write,finalize}`), tagged hashes, HMAC and the RFC 6979 generator.
-/
namespace SecpZkp
namespace Sha256

@[inline] def M32 : Nat := 4294967296
@[inline] def w32 (x : Nat) : Nat := x % 4294967296
@[inline] def rotr (x n : Nat) : Nat := ((x >>> n) ||| (x <<< (32 - n))) % 4294967296
@[inline] def ch (x y z : Nat) : Nat := z ^^^ (x &&& (y ^^^ z))
@[inline] def maj (x y z : Nat) : Nat := (x &&& y) ||| (z &&& (x ||| y))
@[inline] def bigS0 (x : Nat) : Nat := rotr x 2 ^^^ rotr x 13 ^^^ rotr x 22
@[inline] def bigS1 (x : Nat) : Nat := rotr x 6 ^^^ rotr x 11 ^^^ rotr x 25
@[inline] def smallS0 (x : Nat) : Nat := rotr x 7 ^^^ rotr x 18 ^^^ (x >>> 3)
@[inline] def smallS1 (x : Nat) : Nat := rotr x 17 ^^^ rotr x 19 ^^^ (x >>> 10)

def K : List Nat := [
  0x428a2f98, 0x71374491, 0xb5c0fbcf, 0xe9b5dba5, 0x3956c25b, 0x59f111f1, 0x923f82a4, 0xab1c5ed5,
  0xd807aa98, 0x12835b01, 0x243185be, 0x550c7dc3, 0x72be5d74, 0x80deb1fe, 0x9bdc06a7, 0xc19bf174,
  0xe49b69c1, 0xefbe4786, 0x0fc19dc6, 0x240ca1cc, 0x2de92c6f, 0x4a7484aa, 0x5cb0a9dc, 0x76f988da,
  0x983e5152, 0xa831c66d, 0xb00327c8, 0xbf597fc7, 0xc6e00bf3, 0xd5a79147, 0x06ca6351, 0x14292967,
  0x27b70a85, 0x2e1b2138, 0x4d2c6dfc, 0x53380d13, 0x650a7354, 0x766a0abb, 0x81c2c92e, 0x92722c85,
  0xa2bfe8a1, 0xa81a664b, 0xc24b8b70, 0xc76c51a3, 0xd192e819, 0xd6990624, 0xf40e3585, 0x106aa070,
  0x19a4c116, 0x1e376c08, 0x2748774c, 0x34b0bcb5, 0x391c0cb3, 0x4ed8aa4a, 0x5b9cca4f, 0x682e6ff3,
  0x748f82ee, 0x78a5636f, 0x84c87814, 0x8cc70208, 0x90befffa, 0xa4506ceb, 0xbef9a3f7, 0xc67178f2]

/-- The eight working variables / chaining value. -/
structure H8 where
  a : Nat
  b : Nat
  c : Nat
  d : Nat
  e : Nat
  f : Nat
  g : Nat
  h : Nat
deriving DecidableEq, Repr

def iv : H8 := ⟨0x6a09e667, 0xbb67ae85, 0x3c6ef372, 0xa54ff53a, 0x510e527f, 0x9b05688c, 0x1f83d9ab, 0x5be0cd19⟩

def H8.toList (s : H8) : List Nat := [s.a, s.b, s.c, s.d, s.e, s.f, s.g, s.h]
def H8.ofList : List Nat → H8
  | [a, b, c, d, e, f, g, h] => ⟨a, b, c, d, e, f, g, h⟩
  | _ => iv

/-- 16 big-endian words of a 64-byte block (short blocks are read as if zero padded). -/
def blockWords : Nat → Bytes → List Nat
  | 0, _ => []
  | n + 1, bs => Bytes.toNat (bs.take 4) :: blockWords n (bs.drop 4)

@[inline] def round (s : H8) (k w : Nat) : H8 :=
  let t1 := s.h + bigS1 s.e + ch s.e s.f s.g + k + w
  let t2 := bigS0 s.a + maj s.a s.b s.c
  ⟨w32 (t1 + t2), s.a, s.b, s.c, w32 (s.d + t1), s.e, s.f, s.g⟩

/-- Message-schedule window: 16 most recent words, oldest first. -/
def nextW (win : List Nat) : Nat :=
  w32 (smallS1 (win.getD 14 0) + win.getD 9 0 + smallS0 (win.getD 1 0) + win.getD 0 0)

/-- Rounds over the constant list; `win` holds W[t..t+15]. -/
def rounds : List Nat → List Nat → H8 → H8
  | [], _, s => s
  | k :: ks, win, s =>
      let s' := round s k (win.getD 0 0)
      rounds ks (win.drop 1 ++ [nextW win]) s'

/-- The SHA-256 compression function. -/
def compress (s : H8) (block : Bytes) : H8 :=
  let r := rounds K (blockWords 16 block) s
  ⟨w32 (s.a + r.a), w32 (s.b + r.b), w32 (s.c + r.c), w32 (s.d + r.d),
   w32 (s.e + r.e), w32 (s.f + r.f), w32 (s.g + r.g), w32 (s.h + r.h)⟩

/-- Absorb all complete 64-byte blocks of `bs` (the remainder, < 64 bytes, is ignored). -/
def compressBlocks (fuel : Nat) (s : H8) (bs : Bytes) : H8 :=
  match fuel with
  | 0 => s
  | fuel + 1 => if bs.length < 64 then s else compressBlocks fuel (compress s (bs.take 64)) (bs.drop 64)

def digestBytes (s : H8) : Bytes := s.toList.flatMap (Bytes.ofNat 4)

/-- FIPS 180-4 padding for a message of `len` bytes. -/
def padding (len : Nat) : Bytes :=
  (0x80 : UInt8) :: Bytes.zeros ((119 - len % 64) % 64) ++ Bytes.ofNat 8 (len * 8)

/-- L0 spec: one-shot SHA-256 from an arbitrary chaining value with `pre` bytes already absorbed. -/
def hashFrom (s : H8) (pre : Nat) (msg : Bytes) : Bytes :=
  let m := msg ++ padding (pre + msg.length)
  digestBytes (compressBlocks (m.length / 64 + 1) s m)

/-- L0 spec: SHA-256 of a byte string. -/
def sha256 (msg : Bytes) : Bytes := hashFrom iv 0 msg

/-! ### Streaming object, mirroring `secp256k1_sha256` -/

structure State where
  s : H8
  buf : Bytes      -- the `bytes % 64` buffered bytes
  bytes : Nat
deriving Repr

def init : State := ⟨iv, [], 0⟩

def initMidstate (bytes : Nat) (st : H8) : State := ⟨st, [], bytes⟩

/-- `secp256k1_sha256_write`, following the three steps of the C function. -/
def write (h : State) (data : Bytes) : State :=
  let bufsize := h.buf.length
  let chunkLen := 64 - bufsize
  -- step 1: complete a partially filled buffer
  let (s1, buf1, data1) :=
    if bufsize ≠ 0 ∧ data.length ≥ chunkLen then
      (compress h.s (h.buf ++ data.take chunkLen), ([] : Bytes), data.drop chunkLen)
    else (h.s, h.buf, data)
  -- step 2: whole blocks directly from the input
  let nBlocks := data1.length / 64
  let (s2, data2) :=
    if data1.length ≥ 64 then (compressBlocks nBlocks s1 (data1.take (nBlocks * 64)), data1.drop (nBlocks * 64))
    else (s1, data1)
  -- step 3: buffer the rest
  ⟨s2, buf1 ++ data2, h.bytes + data.length⟩

/-- `secp256k1_sha256_finalize` -/
def finalize (h : State) : Bytes :=
  let sizedesc := Bytes.ofNat 4 (h.bytes >>> 29) ++ Bytes.ofNat 4 (h.bytes <<< 3)
  let pad : Bytes := (0x80 : UInt8) :: Bytes.zeros ((119 - h.bytes % 64) % 64)
  let h1 := write h pad
  let h2 := write h1 sizedesc
  digestBytes h2.s

def writeAll (h : State) (chunks : List Bytes) : State := chunks.foldl write h

/-- `secp256k1_sha256_initialize_tagged` -/
def initTagged (tag : Bytes) : State :=
  let t := sha256 tag
  write (write init t) t

def tagged (tag : Bytes) (msg : Bytes) : Bytes := finalize (write (initTagged tag) msg)

/-! ### HMAC-SHA256 and RFC 6979 -/

def hmac (key : Bytes) (msg : Bytes) : Bytes :=
  let rkey : Bytes := if key.length ≤ 64 then key ++ Bytes.zeros (64 - key.length) else sha256 key ++ Bytes.zeros 32
  let okey := rkey.map (· ^^^ 0x5c)
  let ikey := rkey.map (· ^^^ 0x36)
  sha256 (okey ++ sha256 (ikey ++ msg))

structure Rfc6979 where
  v : Bytes
  k : Bytes
  retry : Bool

def rfc6979Init (key : Bytes) : Rfc6979 :=
  let v0 : Bytes := List.replicate 32 1
  let k0 : Bytes := Bytes.zeros 32
  let k1 := hmac k0 (v0 ++ [0] ++ key)
  let v1 := hmac k1 v0
  let k2 := hmac k1 (v1 ++ [1] ++ key)
  let v2 := hmac k2 v1
  ⟨v2, k2, false⟩

def rfc6979GenLoop : Nat → Bytes → Bytes → Nat → Bytes → Bytes × Bytes
  | 0, _, v, _, acc => (acc, v)
  | fuel + 1, k, v, outlen, acc =>
      if outlen = 0 then (acc, v) else
      let v' := hmac k v
      let now := if outlen > 32 then 32 else outlen
      rfc6979GenLoop fuel k v' (outlen - now) (acc ++ v'.take now)

def rfc6979Generate (r : Rfc6979) (outlen : Nat) : Bytes × Rfc6979 :=
  let (k, v) :=
    if r.retry then
      let k' := hmac r.k (r.v ++ [0])
      (k', hmac k' r.v)
    else (r.k, r.v)
  let (out, v') := rfc6979GenLoop (outlen / 32 + 1) k v outlen []
  (out, ⟨v', k, true⟩)

end Sha256
end SecpZkp
