import SecpZkp.Model.Keys
/-
  ECDSA sign-to-contract and the anti-exfil protocol (modules/ecdsa_s2c/main_impl.h).
  The nonce tweak itself lives in `Ecdsa.signInner` (the `S2cHook`), the commitment arithmetic in
  `Ecdsa.ecCommitTweak / ecCommit` (eccommit_impl.h).  An opening object is a public-key object
  (`Pt`, `Pt.inf` = all-zero object).
-/
namespace SecpZkp
namespace S2c

/-- `secp256k1_s2c_ecdsa_point_sha256_tagged` -/
def tagPoint : Sha256.State := Sha256.initTagged "s2c/ecdsa/point".toUTF8.toList
/-- `secp256k1_s2c_ecdsa_data_sha256_tagged` -/
def tagData : Sha256.State := Sha256.initTagged "s2c/ecdsa/data".toUTF8.toList

/-- `secp256k1_ecdsa_s2c_opening_parse` (input is exactly 33 bytes) -/
def openingParse (input33 : Bytes) : Ret Pt := Codec.ecPubkeyParse input33

/-- `secp256k1_ecdsa_s2c_opening_serialize`: (ret, the 33 output bytes, callbacks) -/
def openingSerialize (opening : Pt) : Ret Bytes :=
  let r := Codec.ecPubkeySerialize opening 33 true
  ⟨r.ret, r.out.1, r.illegal⟩

/-- The data hash handed to the nonce function (also `secp256k1_ecdsa_anti_exfil_host_commit`). -/
def dataHash (data32 : Bytes) : Bytes := Sha256.finalize (Sha256.write tagData data32)

structure SignResult where
  ret : Nat
  sig : Nat × Nat
  opening : Option Pt     -- what `sign_inner` stored into `s2c_opening` (if it reached that point)

/-- `secp256k1_ecdsa_s2c_sign` -/
def sign (msg32 seckey data32 : Bytes) : SignResult :=
  let ndata := dataHash data32
  let o := Ecdsa.signInner 64 (some ⟨tagPoint, data32⟩) msg32 seckey none (some ndata)
  ⟨o.ret, if o.ret = 1 then (o.r, o.s) else (0, 0), o.opening⟩

/-- `secp256k1_ecdsa_s2c_verify_commit` -/
def verifyCommit (sig : Nat × Nat) (data32 : Bytes) (opening : Pt) : Ret Unit :=
  match opening with
  | .inf => ⟨0, (), 1⟩
  | p =>
    match Ecdsa.ecCommit tagPoint p data32 with
    | none => ⟨0, (), 0⟩
    | some c => ⟨if sig.1 = c.xOf % N then 1 else 0, (), 0⟩

/-- `secp256k1_ecdsa_anti_exfil_host_commit` -/
def hostCommit (rand32 : Bytes) : Bytes := dataHash rand32

/-- `secp256k1_ecdsa_anti_exfil_signer_commit`: `none` = the retry loop ran out of fuel
    (cryptographically unreachable).  The secret key is NOT validated by this function. -/
def signerCommit (fuel : Nat) (msg32 seckey32 randCommitment32 : Bytes) : Option Pt :=
  let rec loop : Nat → Nat → Option Pt
    | 0, _ => none
    | fuel + 1, count =>
      match Ecdsa.rfc6979Nonce msg32 seckey32 none (some randCommitment32) count with
      | none => none
      | some nonce32 =>
        let (k, ok) := Sc.setB32Seckey nonce32
        if ok then some (Pt.mulG k) else loop fuel (count + 1)
  loop fuel 0

/-- `secp256k1_anti_exfil_sign` (= s2c_sign with a NULL opening pointer) -/
def antiExfilSign (msg32 seckey hostData32 : Bytes) : Nat × (Nat × Nat) :=
  let r := sign msg32 seckey hostData32
  (r.ret, r.sig)

/-- `secp256k1_anti_exfil_host_verify`: `verify_commit && ecdsa_verify` (short-circuit). -/
def hostVerify (sig : Nat × Nat) (msg32 : Bytes) (pubkey : Pt) (hostData32 : Bytes) (opening : Pt) : Ret Unit :=
  let c := verifyCommit sig hostData32 opening
  if c.ret = 0 then ⟨0, (), c.illegal⟩
  else
    let v := Ecdsa.verify sig msg32 pubkey
    ⟨v.ret, (), c.illegal + v.illegal⟩

end S2c
end SecpZkp
