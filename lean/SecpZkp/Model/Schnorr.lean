import SecpZkp.Model.Keys
/-
  BIP-340 Schnorr signatures (modules/schnorrsig/main_impl.h).
  Tagged hashes are computed from their tags (the specification); the C code's hard-coded midstates
  must agree, which the correspondence and the midstate audit check.
-/
namespace SecpZkp
namespace Schnorr

def tagChallenge : Sha256.State := Sha256.initTagged "BIP0340/challenge".toUTF8.toList
def tagNonce : Sha256.State := Sha256.initTagged "BIP0340/nonce".toUTF8.toList
def tagAux : Sha256.State := Sha256.initTagged "BIP0340/aux".toUTF8.toList
def bip340Algo : Bytes := "BIP0340/nonce".toUTF8.toList

/-- hardened nonce function type: msg, key32, xonly_pk32, algo, data ↦ nonce32 or failure -/
abbrev NonceFnH := Bytes → Bytes → Bytes → Bytes → Option Bytes → Option Bytes

/-- `nonce_function_bip340_impl` (algo given) -/
def nonceBip340 : NonceFnH := fun msg key32 pk32 algo data =>
  let mask := Sha256.finalize (Sha256.write tagAux (data.getD (Bytes.zeros 32)))
  let masked := Bytes.xor key32 mask
  let sha := if algo = bip340Algo then tagNonce else Sha256.initTagged algo
  some (Sha256.finalize (Sha256.writeAll sha [masked, pk32, msg]))

/-- `secp256k1_schnorrsig_challenge` -/
def challenge (r32 msg pk32 : Bytes) : Nat :=
  Bytes.toNat (Sha256.finalize (Sha256.writeAll tagChallenge [r32, pk32, msg])) % N

/-- `secp256k1_schnorrsig_sign_internal`: (ret, sig64, callbacks) -/
def signInternal (msg : Bytes) (kp : Keys.Keypair) (noncefp : Option NonceFnH) (ndata : Option Bytes) : Ret Bytes :=
  let (ok, sk0, pk, ill) := Keys.keypairLoad kp true
  let sk := if Fe.isOdd pk.yOf then Sc.neg sk0 else sk0
  let seckey := Bytes.be32 sk
  let pkBuf := Bytes.be32 pk.xOf
  let f : NonceFnH := noncefp.getD nonceBip340
  let (nonce32, nok) := match f msg seckey pkBuf bip340Algo ndata with
    | some n => (n, true)
    | none => (Bytes.zeros 32, false)
  let k0 := Bytes.toNat nonce32 % N
  let ret := ok && nok && k0 != 0
  let k1 := if ret then k0 else 1
  let r := Pt.mulG k1
  let k := if Fe.isOdd r.yOf then Sc.neg k1 else k1
  let r32 := Bytes.be32 r.xOf
  let e := challenge r32 msg pkBuf
  let s := Sc.add (Sc.mul e sk) k
  if ret then ⟨1, r32 ++ Bytes.be32 s, ill⟩ else ⟨0, Bytes.zeros 64, ill⟩

/-- `secp256k1_schnorrsig_verify` -/
def verify (sig64 msg : Bytes) (pk : Pt) : Ret Unit :=
  match Codec.feLimit (sig64.take 32) with
  | none => ⟨0, (), 0⟩
  | some rx =>
    let (s, ov) := Sc.setB32 (sig64.drop 32)
    if ov then ⟨0, (), 0⟩ else
    match pk with
    | .inf => ⟨0, (), 1⟩
    | .aff px _ =>
      let e := challenge (sig64.take 32) msg (Bytes.be32 px)
      match Pt.add (Pt.mul (Sc.neg e) pk) (Pt.mulG s) with
      | .inf => ⟨0, (), 0⟩
      | .aff x y => ⟨if !Fe.isOdd y && x == rx then 1 else 0, (), 0⟩

end Schnorr
end SecpZkp
