import SecpZkp.Model.Schnorr
/-
  MuSig2 (BIP-327 + adaptor extension): `modules/musig/{keyagg,session,adaptor}_impl.h`.

  The opaque objects of the API are modelled as structures carrying the same information as the C
  byte layouts (magic first).  `Pt.inf` in a 64-byte point field stands for 64 zero bytes, so the
  all-zero object is the structure whose fields are all zero (`*.zero`).  A NULL pointer argument is
  `none`; an output object that a call did not write is reported as `none`.

  Every API function mirrors the C control flow: the order of `ARG_CHECK`s (each failing check
  raises exactly one illegal-argument callback and returns 0), early returns, wiping.
  Tagged hashes are computed from their tag strings; the C code hard-codes the midstates.
-/
namespace SecpZkp
namespace Musig

def tagBytes (s : String) : Bytes := s.toUTF8.toList

def shaKeyaggList : Sha256.State := Sha256.initTagged (tagBytes "KeyAgg list")
def shaKeyaggCoef : Sha256.State := Sha256.initTagged (tagBytes "KeyAgg coefficient")
def shaAux : Sha256.State := Sha256.initTagged (tagBytes "MuSig/aux")
def shaNonce : Sha256.State := Sha256.initTagged (tagBytes "MuSig/nonce")
def shaNoncecoef : Sha256.State := Sha256.initTagged (tagBytes "MuSig/noncecoef")

def keyaggCacheMagic : Bytes := [0xf4, 0xad, 0xbb, 0xdf]
def secnonceMagic : Bytes := [0x22, 0x0e, 0xdc, 0xf1]
def pubnonceMagic : Bytes := [0xf5, 0x7a, 0x3d, 0xa0]
def aggnonceMagic : Bytes := [0xa8, 0xb7, 0xe4, 0x67]
def sessionMagic : Bytes := [0x9d, 0xed, 0xe9, 0x17]
def partialSigMagic : Bytes := [0xeb, 0xfb, 0x1a, 0x32]

/-! ### Objects -/

/-- `secp256k1_musig_keyagg_cache` (197 bytes): magic(4) pk(64) second_pk(64, zeros = none)
    pks_hash(32) parity_acc(1) tweak(32). -/
structure KeyaggCache where
  magic : Bytes
  pk : Pt
  secondPk : Pt
  pksHash : Bytes
  parityAcc : Nat
  tweak : Nat
deriving DecidableEq, Repr

/-- `secp256k1_keyagg_cache_internal` -/
structure CacheI where
  pk : Pt
  secondPk : Pt
  pksHash : Bytes
  tweak : Nat
  parityAcc : Nat
deriving Repr

/-- `secp256k1_keyagg_cache_save` -/
def cacheSave (c : CacheI) : KeyaggCache :=
  ⟨keyaggCacheMagic, c.pk, c.secondPk, c.pksHash, c.parityAcc % 256, c.tweak % N⟩

/-- `secp256k1_keyagg_cache_load`: `none` = the magic ARG_CHECK failed (one callback). -/
def cacheLoad (c : KeyaggCache) : Option CacheI :=
  if c.magic = keyaggCacheMagic then some ⟨c.pk, c.secondPk, c.pksHash, c.tweak % N, c.parityAcc % 2⟩
  else none

/-- `secp256k1_musig_secnonce` (132 bytes): magic(4) k1(32) k2(32) pk(64). -/
structure Secnonce where
  magic : Bytes
  k1 : Nat
  k2 : Nat
  pk : Pt
deriving DecidableEq, Repr

def Secnonce.zero : Secnonce := ⟨Bytes.zeros 4, 0, 0, .inf⟩
/-- "all 132 bytes are zero" -/
def Secnonce.isZero (s : Secnonce) : Bool := Bytes.isZero s.magic && s.k1 == 0 && s.k2 == 0 && s.pk.isInf

/-- `secp256k1_musig_secnonce_save` -/
def secnonceSave (k1 k2 : Nat) (pk : Pt) : Secnonce := ⟨secnonceMagic, k1 % N, k2 % N, pk⟩

/-- `secp256k1_musig_secnonce_load`: `none` = an ARG_CHECK failed (magic, or both scalars zero);
    exactly one callback in either case. -/
def secnonceLoad (s : Secnonce) : Option (Nat × Nat × Pt) :=
  if s.magic ≠ secnonceMagic then none
  else if s.k1 = 0 ∧ s.k2 = 0 then none
  else some (s.k1 % N, s.k2 % N, s.pk)

/-- `secp256k1_musig_pubnonce` (132 bytes): magic(4) R1(64) R2(64). -/
structure Pubnonce where
  magic : Bytes
  r1 : Pt
  r2 : Pt
deriving DecidableEq, Repr

def Pubnonce.zero : Pubnonce := ⟨Bytes.zeros 4, .inf, .inf⟩
def pubnonceSave (r1 r2 : Pt) : Pubnonce := ⟨pubnonceMagic, r1, r2⟩
def pubnonceLoad (p : Pubnonce) : Option (Pt × Pt) :=
  if p.magic = pubnonceMagic then some (p.r1, p.r2) else none

/-- `secp256k1_musig_aggnonce` (132 bytes): magic(4) R1(64) R2(64), a zero point field = infinity. -/
structure Aggnonce where
  magic : Bytes
  r1 : Pt
  r2 : Pt
deriving DecidableEq, Repr

def Aggnonce.zero : Aggnonce := ⟨Bytes.zeros 4, .inf, .inf⟩
def aggnonceSave (r1 r2 : Pt) : Aggnonce := ⟨aggnonceMagic, r1, r2⟩
def aggnonceLoad (p : Aggnonce) : Option (Pt × Pt) :=
  if p.magic = aggnonceMagic then some (p.r1, p.r2) else none

/-- `secp256k1_musig_session` (133 bytes): magic(4) fin_nonce_parity(1) fin_nonce(32) noncecoef(32)
    challenge(32) s_part(32). -/
structure Session where
  magic : Bytes
  finNonceParity : Nat
  finNonce : Bytes
  noncecoef : Nat
  challenge : Nat
  sPart : Nat
deriving DecidableEq, Repr

/-- `secp256k1_musig_session_internal` -/
structure SessionI where
  finNonceParity : Nat
  finNonce : Bytes
  noncecoef : Nat
  challenge : Nat
  sPart : Nat
deriving Repr

def sessionSave (s : SessionI) : Session :=
  ⟨sessionMagic, s.finNonceParity % 256, s.finNonce, s.noncecoef % N, s.challenge % N, s.sPart % N⟩
/-- `secp256k1_musig_session_load` (the parity byte is taken as is, not masked) -/
def sessionLoad (s : Session) : Option SessionI :=
  if s.magic = sessionMagic then some ⟨s.finNonceParity, s.finNonce, s.noncecoef % N, s.challenge % N, s.sPart % N⟩
  else none

/-- `secp256k1_musig_partial_sig` (36 bytes): magic(4) s(32). -/
structure PartialSig where
  magic : Bytes
  s : Nat
deriving DecidableEq, Repr

def PartialSig.zero : PartialSig := ⟨Bytes.zeros 4, 0⟩
def partialSigSave (s : Nat) : PartialSig := ⟨partialSigMagic, s % N⟩
def partialSigLoad (p : PartialSig) : Option Nat :=
  if p.magic = partialSigMagic then some (p.s % N) else none

/-! ### Parsing and serialization -/

/-- `secp256k1_musig_ge_serialize_ext` -/
def geSerializeExt (p : Pt) : Bytes := Codec.serialize33 p     -- 33 zero bytes for infinity

/-- `secp256k1_musig_ge_parse_ext` -/
def geParseExt (in33 : Bytes) : Option Pt :=
  if Bytes.isZero in33 then some .inf else Codec.pubkeyParse in33

/-- `secp256k1_musig_pubnonce_parse`: `none` = failure, object left untouched. -/
def pubnonceParse (in66 : Bytes) : Option Pubnonce :=
  match Codec.pubkeyParse (in66.take 33) with
  | none => none
  | some r1 =>
    match Codec.pubkeyParse (in66.drop 33) with
    | none => none
    | some r2 => some (pubnonceSave r1 r2)

/-- `secp256k1_musig_pubnonce_serialize`: the output buffer is zeroed first. -/
def pubnonceSerialize (p : Option Pubnonce) : Ret Bytes :=
  match p with
  | none => ⟨0, Bytes.zeros 66, 1⟩
  | some pn =>
    match pubnonceLoad pn with
    | none => ⟨0, Bytes.zeros 66, 1⟩
    | some (r1, r2) => ⟨1, Codec.serialize33 r1 ++ Codec.serialize33 r2, 0⟩

/-- `secp256k1_musig_aggnonce_parse` -/
def aggnonceParse (in66 : Bytes) : Option Aggnonce :=
  match geParseExt (in66.take 33) with
  | none => none
  | some r1 =>
    match geParseExt (in66.drop 33) with
    | none => none
    | some r2 => some (aggnonceSave r1 r2)

/-- `secp256k1_musig_aggnonce_serialize` -/
def aggnonceSerialize (p : Option Aggnonce) : Ret Bytes :=
  match p with
  | none => ⟨0, Bytes.zeros 66, 1⟩
  | some an =>
    match aggnonceLoad an with
    | none => ⟨0, Bytes.zeros 66, 1⟩
    | some (r1, r2) => ⟨1, geSerializeExt r1 ++ geSerializeExt r2, 0⟩

/-- `secp256k1_musig_partial_sig_parse`: the object is zeroed first; (ret, object). -/
def partialSigParse (in32 : Bytes) : Nat × PartialSig :=
  let (s, ov) := Sc.setB32 in32
  if ov then (0, PartialSig.zero) else (1, partialSigSave s)

/-- `secp256k1_musig_partial_sig_serialize`: `none` output = buffer untouched. -/
def partialSigSerialize (p : Option PartialSig) : Ret (Option Bytes) :=
  match p with
  | none => ⟨0, none, 1⟩
  | some ps =>
    if ps.magic = partialSigMagic then ⟨1, some (Bytes.be32 ps.s), 0⟩ else ⟨0, none, 1⟩

/-! ### Key aggregation -/

/-- `secp256k1_musig_keyaggcoef_internal` -/
def keyaggCoefInternal (pksHash : Bytes) (pk second : Pt) : Nat :=
  if ¬ second.isInf ∧ pk = second then 1
  else Bytes.toNat (Sha256.finalize (Sha256.writeAll shaKeyaggCoef [pksHash, Codec.serialize33 pk])) % N

/-- `secp256k1_musig_keyaggcoef` -/
def keyaggCoef (c : CacheI) (pk : Pt) : Nat := keyaggCoefInternal c.pksHash pk c.secondPk

/-- first entry of the list that differs from `p0` (the loop looking for the "second" key; public
    key objects are canonical, so `memcmp` on objects is equality of points) -/
def firstDifferent (p0 : Pt) : List Pt → Option Pt
  | [] => none
  | q :: qs => if q = p0 then firstDifferent p0 qs else some q

/-- `secp256k1_musig_compute_pks_hash` on valid keys -/
def pksHash (ps : List Pt) : Bytes :=
  Sha256.finalize (Sha256.writeAll shaKeyaggList (ps.map Codec.serialize33))

/-- The `ecmult_multi` sum Σ coef_i · P_i -/
def aggPoint (h : Bytes) (second : Pt) (ps : List Pt) : Pt :=
  ps.foldl (fun acc p => Pt.add acc (Pt.mul (keyaggCoefInternal h p second) p)) .inf

structure AggOut where
  /-- x-only aggregate key object: `none` iff the pointer is NULL; zeroed on entry -/
  aggPk : Option Pt
  /-- `none` = cache not written -/
  cache : Option KeyaggCache
deriving Repr

/-- `secp256k1_musig_pubkey_agg`.  `pks`: the array entries (`none` = NULL entry; `Pt.inf` = all-zero
    object).  `wantAgg`, `wantCache`: the output pointers are non-NULL. -/
def pubkeyAgg (wantAgg wantCache : Bool) (pks : List (Option Pt)) : Ret AggOut :=
  let agg0 : Option Pt := if wantAgg then some .inf else none
  if pks.isEmpty then ⟨0, ⟨agg0, none⟩, 1⟩                      -- ARG_CHECK(n_pubkeys > 0)
  else if pks.any Option.isNone then ⟨0, ⟨agg0, none⟩, 1⟩      -- ARG_CHECK(pubkeys[i] != NULL)
  else
    let ps := pks.filterMap id
    match ps with
    | [] => ⟨0, ⟨agg0, none⟩, 1⟩
    | p0 :: rest =>
      match firstDifferent p0 rest with
      | some .inf => ⟨0, ⟨agg0, none⟩, 1⟩                       -- pubkey_load of the second key fails
      | sec =>
        let second := sec.getD .inf
        if ps.any Pt.isInf then ⟨0, ⟨agg0, none⟩, 1⟩            -- ec_pubkey_serialize fails in pks_hash
        else
          let h := pksHash ps
          let pkp := aggPoint h second ps
          let cache := if wantCache then some (cacheSave ⟨pkp, second, h, 0, 0⟩) else none
          ⟨1, ⟨if wantAgg then some (Keys.evenY pkp).1 else none, cache⟩, 0⟩

/-- `secp256k1_musig_pubkey_get`: output object zeroed first. -/
def pubkeyGet (cache : Option KeyaggCache) : Ret Pt :=
  match cache with
  | none => ⟨0, .inf, 1⟩
  | some c =>
    match cacheLoad c with
    | none => ⟨0, .inf, 1⟩
    | some ci => ⟨1, ci.pk, 0⟩

structure TweakOut where
  /-- output public key: `none` iff NULL; zeroed on entry -/
  outPk : Option Pt
  /-- the in/out cache after the call (`none` iff NULL) -/
  cache : Option KeyaggCache
deriving Repr

/-- `secp256k1_musig_pubkey_tweak_add_internal` -/
def tweakAddInternal (xonly : Bool) (wantOut : Bool) (cache : Option KeyaggCache) (tweak32 : Option Bytes) : Ret TweakOut :=
  let out0 : Option Pt := if wantOut then some .inf else none
  match cache with
  | none => ⟨0, ⟨out0, none⟩, 1⟩
  | some c =>
    match tweak32 with
    | none => ⟨0, ⟨out0, cache⟩, 1⟩
    | some tw =>
      match cacheLoad c with
      | none => ⟨0, ⟨out0, cache⟩, 1⟩
      | some ci =>
        let (t, ov) := Sc.setB32 tw
        if ov then ⟨0, ⟨out0, cache⟩, 0⟩ else
        let flip := xonly && Fe.isOdd ci.pk.yOf
        let pk1 := if flip then Pt.neg ci.pk else ci.pk
        let par1 := if flip then ci.parityAcc ^^^ 1 else ci.parityAcc
        let tacc1 := if flip then Sc.neg ci.tweak else ci.tweak
        let tacc2 := Sc.add tacc1 t
        match Pt.add pk1 (Pt.mulG t) with                     -- eckey_pubkey_tweak_add
        | .inf => ⟨0, ⟨out0, cache⟩, 0⟩
        | pk2 =>
          ⟨1, ⟨if wantOut then some pk2 else none, some (cacheSave ⟨pk2, ci.secondPk, ci.pksHash, tacc2, par1⟩)⟩, 0⟩

def pubkeyEcTweakAdd := tweakAddInternal false
def pubkeyXonlyTweakAdd := tweakAddInternal true

/-! ### Nonce generation -/

/-- `secp256k1_nonce_function_musig_helper`: the chunks written for an optional input -/
def nonceHelper (prefixSize : Nat) (data : Option Bytes) (len : Nat) : List Bytes :=
  [Bytes.zeros (prefixSize - 1)] ++
  match data with
  | some d => [[UInt8.ofNat len], d]
  | none => [[0]]

/-- `secp256k1_nonce_function_musig` -/
def nonceFunction (secrand : Bytes) (msg32 seckey32 : Option Bytes) (pk33 : Bytes) (aggPk32 extra32 : Option Bytes) : Nat × Nat :=
  let rand := match seckey32 with
    | some sk => Bytes.xor (Sha256.finalize (Sha256.write shaAux secrand)) sk
    | none => secrand
  let sha := Sha256.writeAll shaNonce
    ([rand] ++ nonceHelper 1 (some pk33) 33 ++ nonceHelper 1 aggPk32 32 ++
     [[if msg32.isSome then (1 : UInt8) else 0]] ++
     (if msg32.isSome then nonceHelper 8 msg32 32 else []) ++
     nonceHelper 4 extra32 32)
  let k (i : UInt8) : Nat := Bytes.toNat (Sha256.finalize (Sha256.write sha [i])) % N
  (k 0, k 1)

structure GenIntOut where
  /-- `none` = secnonce not written by the internal function -/
  secnonce : Option Secnonce
  /-- `none` = pubnonce not written; zeroed right after its NULL check -/
  pubnonce : Option Pubnonce
deriving Repr

/-- `secp256k1_musig_nonce_gen_internal` -/
def nonceGenInternal (wantPub : Bool) (inputNonce : Bytes) (seckey : Option Bytes) (pubkey : Option Pt)
    (msg32 : Option Bytes) (cache : Option KeyaggCache) (extra32 : Option Bytes) : Ret GenIntOut :=
  if !wantPub then ⟨0, ⟨none, none⟩, 1⟩ else
  let pz := some Pubnonce.zero
  match pubkey with
  | none => ⟨0, ⟨none, pz⟩, 1⟩
  | some pkObj =>
    let ret : Bool := match seckey with
      | some sk => (Sc.setB32Seckey sk).2
      | none => true
    let aggPk : Option (Option Bytes) := match cache with
      | none => some none
      | some c => match cacheLoad c with
        | none => none
        | some ci => some (some (Bytes.be32 ci.pk.xOf))
    match aggPk with
    | none => ⟨0, ⟨none, pz⟩, 1⟩
    | some aggPk32 =>
      match pkObj with
      | .inf => ⟨0, ⟨none, pz⟩, 1⟩                           -- pubkey_load
      | pk =>
        let (k1, k2) := nonceFunction inputNonce msg32 seckey (Codec.serialize33 pk) aggPk32 extra32
        let sn := if ret then secnonceSave k1 k2 pk else Secnonce.zero   -- save, then invalidate(!ret)
        let pn := pubnonceSave (Pt.mulG k1) (Pt.mulG k2)
        ⟨if ret then 1 else 0, ⟨some sn, some pn⟩, 0⟩

structure GenOut where
  /-- secnonce object after the call (`none` iff NULL) -/
  secnonce : Option Secnonce
  /-- `none` = pubnonce not written -/
  pubnonce : Option Pubnonce
  /-- the caller's `session_secrand32` buffer after the call -/
  secrand : Option Bytes
deriving Repr

/-- `secp256k1_musig_nonce_gen` -/
def nonceGen (wantSec wantPub : Bool) (secrand : Option Bytes) (seckey : Option Bytes) (pubkey : Option Pt)
    (msg32 : Option Bytes) (cache : Option KeyaggCache) (extra32 : Option Bytes) : Ret GenOut :=
  if !wantSec then ⟨0, ⟨none, none, secrand⟩, 1⟩ else
  match secrand with
  | none => ⟨0, ⟨some Secnonce.zero, none, none⟩, 1⟩
  | some sr =>
    if Bytes.isZero sr then ⟨0, ⟨some Secnonce.zero, none, some sr⟩, 0⟩ else
    let r := nonceGenInternal wantPub sr seckey pubkey msg32 cache extra32
    ⟨r.ret, ⟨some (r.out.secnonce.getD Secnonce.zero), r.out.pubnonce,
             some (if r.ret = 1 then Bytes.zeros 32 else sr)⟩, r.illegal⟩

/-- `secp256k1_musig_nonce_gen_counter` -/
def nonceGenCounter (wantSec wantPub : Bool) (cnt : Nat) (keypair : Option Keys.Keypair)
    (msg32 : Option Bytes) (cache : Option KeyaggCache) (extra32 : Option Bytes) : Ret GenOut :=
  if !wantSec then ⟨0, ⟨none, none, none⟩, 1⟩ else
  match keypair with
  | none => ⟨0, ⟨some Secnonce.zero, none, none⟩, 1⟩
  | some kp =>
    let buf := Bytes.be8 cnt ++ Bytes.zeros 24
    let r := nonceGenInternal wantPub buf (some kp.sk) (some kp.pk) msg32 cache extra32
    ⟨r.ret, ⟨some (r.out.secnonce.getD Secnonce.zero), r.out.pubnonce, none⟩, r.illegal⟩

/-! ### Nonce aggregation and processing -/

/-- `secp256k1_musig_sum_pubnonces`: `none` = a pubnonce failed to load (one callback) -/
def sumPubnonces : List Pubnonce → Pt × Pt → Option (Pt × Pt)
  | [], acc => some acc
  | p :: ps, (a1, a2) =>
    match pubnonceLoad p with
    | none => none
    | some (r1, r2) => sumPubnonces ps (Pt.add a1 r1, Pt.add a2 r2)

/-- `secp256k1_musig_nonce_agg`: output `none` = aggnonce not written. -/
def nonceAgg (wantAgg : Bool) (pubnonces : List (Option Pubnonce)) : Ret (Option Aggnonce) :=
  if !wantAgg then ⟨0, none, 1⟩
  else if pubnonces.isEmpty then ⟨0, none, 1⟩
  else if pubnonces.any Option.isNone then ⟨0, none, 1⟩
  else
    match sumPubnonces (pubnonces.filterMap id) (.inf, .inf) with
    | none => ⟨0, none, 1⟩
    | some (r1, r2) => ⟨1, some (aggnonceSave r1 r2), 0⟩

/-- `secp256k1_musig_compute_noncehash` reduced to a scalar -/
def nonceCoef (r1 r2 : Pt) (aggPk32 msg : Bytes) : Nat :=
  Bytes.toNat (Sha256.finalize (Sha256.writeAll shaNoncecoef [geSerializeExt r1, geSerializeExt r2, aggPk32, msg])) % N

/-- `secp256k1_effective_nonce`: R1 + b·R2 -/
def effectiveNonce (r1 r2 : Pt) (b : Nat) : Pt := Pt.add (Pt.mul b r2) r1

/-- `secp256k1_musig_nonce_process_internal`: (parity, fin_nonce32, b) -/
def nonceProcessInternal (r1 r2 : Pt) (aggPk32 msg : Bytes) : Nat × Bytes × Nat :=
  let b := nonceCoef r1 r2 aggPk32 msg
  let fin := match effectiveNonce r1 r2 b with
    | .inf => Pt.G
    | q => q
  ((if Fe.isOdd fin.yOf then 1 else 0), Bytes.be32 fin.xOf, b)

/-- `secp256k1_musig_nonce_process`: output `none` = session not written. -/
def nonceProcess (wantSession : Bool) (aggnonce : Option Aggnonce) (msg32 : Option Bytes)
    (cache : Option KeyaggCache) (adaptor : Option Pt) : Ret (Option Session) :=
  if !wantSession then ⟨0, none, 1⟩ else
  match aggnonce with
  | none => ⟨0, none, 1⟩
  | some an =>
    match msg32 with
    | none => ⟨0, none, 1⟩
    | some msg =>
      match cache with
      | none => ⟨0, none, 1⟩
      | some c =>
        match cacheLoad c with
        | none => ⟨0, none, 1⟩
        | some ci =>
          let aggPk32 := Bytes.be32 ci.pk.xOf
          match aggnonceLoad an with
          | none => ⟨0, none, 1⟩
          | some (r1, r2) =>
            let r1' : Option Pt := match adaptor with
              | none => some r1
              | some .inf => none                      -- pubkey_load fails
              | some a => some (Pt.add r1 a)
            match r1' with
            | none => ⟨0, none, 1⟩
            | some r1a =>
              let (par, fin, b) := nonceProcessInternal r1a r2 aggPk32 msg
              let e := Schnorr.challenge fin msg aggPk32
              let sPart :=
                if ci.tweak ≠ 0 then
                  let et := Sc.mul e ci.tweak
                  if Fe.isOdd ci.pk.yOf then Sc.neg et else et
                else 0
              ⟨1, some (sessionSave ⟨par, fin, b, e, sPart⟩), 0⟩

/-! ### Partial signatures -/

structure SignOut where
  /-- `none` = partial signature object not written -/
  sig : Option PartialSig
  /-- secnonce object after the call (`none` iff NULL) -/
  secnonce : Option Secnonce
deriving Repr

/-- `secp256k1_musig_partial_sign` -/
def partialSign (wantSig : Bool) (secnonce : Option Secnonce) (keypair : Option Keys.Keypair)
    (cache : Option KeyaggCache) (session : Option Session) : Ret SignOut :=
  match secnonce with
  | none => ⟨0, ⟨none, none⟩, 1⟩
  | some sn =>
    -- load, then wipe unconditionally
    let wiped := some Secnonce.zero
    match secnonceLoad sn with
    | none => ⟨0, ⟨none, wiped⟩, 1⟩
    | some (k1, k2, pk) =>
      if !wantSig then ⟨0, ⟨none, wiped⟩, 1⟩ else
      match keypair with
      | none => ⟨0, ⟨none, wiped⟩, 1⟩
      | some kp =>
        match cache with
        | none => ⟨0, ⟨none, wiped⟩, 1⟩
        | some c =>
          match session with
          | none => ⟨0, ⟨none, wiped⟩, 1⟩
          | some sess =>
            let (ok, sk, kpPk, ill) := Keys.keypairLoad kp true
            if !ok then ⟨0, ⟨none, wiped⟩, ill⟩
            else if pk ≠ kpPk then ⟨0, ⟨none, wiped⟩, 1⟩         -- both coordinates
            else
              match cacheLoad c with
              | none => ⟨0, ⟨none, wiped⟩, 1⟩
              | some ci =>
                let sk1 := if Fe.isOdd ci.pk.yOf != (ci.parityAcc == 1) then Sc.neg sk else sk
                let mu := keyaggCoef ci pk
                let sk2 := Sc.mul sk1 mu
                match sessionLoad sess with
                | none => ⟨0, ⟨none, wiped⟩, 1⟩
                | some si =>
                  let k1' := if si.finNonceParity ≠ 0 then Sc.neg k1 else k1
                  let k2' := if si.finNonceParity ≠ 0 then Sc.neg k2 else k2
                  let s := Sc.add (Sc.mul si.challenge sk2) (Sc.add k1' (Sc.mul si.noncecoef k2'))
                  ⟨1, ⟨some (partialSigSave s), wiped⟩, 0⟩

/-- `secp256k1_musig_partial_sig_verify` -/
def partialSigVerify (sig : Option PartialSig) (pubnonce : Option Pubnonce) (pubkey : Option Pt)
    (cache : Option KeyaggCache) (session : Option Session) : Ret Unit :=
  match sig, pubnonce, pubkey, cache, session with
  | some ps, some pn, some pkObj, some c, some sess =>
    match sessionLoad sess with
    | none => ⟨0, (), 1⟩
    | some si =>
      match pubnonceLoad pn with
      | none => ⟨0, (), 1⟩
      | some (r1, r2) =>
        match pkObj with
        | .inf => ⟨0, (), 1⟩
        | pkp =>
          match cacheLoad c with
          | none => ⟨0, (), 1⟩
          | some ci =>
            let mu := keyaggCoef ci pkp
            let e0 := Sc.mul si.challenge mu
            let e := if Fe.isOdd ci.pk.yOf != (ci.parityAcc == 1) then Sc.neg e0 else e0
            match partialSigLoad ps with
            | none => ⟨0, (), 1⟩
            | some s =>
              let rj := effectiveNonce r1 r2 si.noncecoef
              let rj' := if si.finNonceParity ≠ 0 then Pt.neg rj else rj
              let tmp := Pt.add (Pt.add (Pt.mul e pkp) (Pt.mulG (Sc.neg s))) rj'
              ⟨if tmp.isInf then 1 else 0, (), 0⟩
  | _, _, _, _, _ => ⟨0, (), 1⟩       -- the first NULL argument raises the only callback

/-- the summation loop of `partial_sig_agg`: `none` = a signature failed to load -/
def sumPartialSigs : List PartialSig → Nat → Option Nat
  | [], acc => some acc
  | p :: ps, acc =>
    match partialSigLoad p with
    | none => none
    | some t => sumPartialSigs ps (Sc.add acc t)

/-- `secp256k1_musig_partial_sig_agg`: output `none` = sig64 not written. -/
def partialSigAgg (wantSig : Bool) (session : Option Session) (sigs : List (Option PartialSig)) : Ret (Option Bytes) :=
  if !wantSig then ⟨0, none, 1⟩ else
  match session with
  | none => ⟨0, none, 1⟩
  | some sess =>
    if sigs.isEmpty then ⟨0, none, 1⟩
    else if sigs.any Option.isNone then ⟨0, none, 1⟩
    else
      match sessionLoad sess with
      | none => ⟨0, none, 1⟩
      | some si =>
        match sumPartialSigs (sigs.filterMap id) si.sPart with
        | none => ⟨0, none, 1⟩
        | some s => ⟨1, some (si.finNonce ++ Bytes.be32 s), 0⟩

/-! ### Adaptor extension -/

/-- `secp256k1_musig_nonce_parity`: output `none` = not written -/
def nonceParity (wantOut : Bool) (session : Option Session) : Ret (Option Nat) :=
  if !wantOut then ⟨0, none, 1⟩ else
  match session with
  | none => ⟨0, none, 1⟩
  | some sess =>
    match sessionLoad sess with
    | none => ⟨0, none, 1⟩
    | some si => ⟨1, some si.finNonceParity, 0⟩

/-- `secp256k1_musig_adapt`: output `none` = sig64 not written -/
def adapt (wantSig : Bool) (preSig64 secAdaptor32 : Option Bytes) (nonceParity : Int) : Ret (Option Bytes) :=
  if !wantSig then ⟨0, none, 1⟩ else
  match preSig64, secAdaptor32 with
  | some pre, some ad =>
    if nonceParity ≠ 0 ∧ nonceParity ≠ 1 then ⟨0, none, 1⟩ else
    let (s, ov) := Sc.setB32 (pre.drop 32)
    if ov then ⟨0, none, 0⟩ else
    let (t, ovt) := Sc.setB32 ad
    let t' := if nonceParity ≠ 0 then Sc.neg t else t
    ⟨if ovt then 0 else 1, some (pre.take 32 ++ Bytes.be32 (Sc.add s t')), 0⟩
  | _, _ => ⟨0, none, 1⟩

/-- `secp256k1_musig_extract_adaptor`: output `none` = sec_adaptor32 not written -/
def extractAdaptor (wantOut : Bool) (sig64 preSig64 : Option Bytes) (nonceParity : Int) : Ret (Option Bytes) :=
  if !wantOut then ⟨0, none, 1⟩ else
  match sig64, preSig64 with
  | some sg, some pre =>
    if nonceParity ≠ 0 ∧ nonceParity ≠ 1 then ⟨0, none, 1⟩ else
    let (t0, ovt) := Sc.setB32 (sg.drop 32)
    let t1 := Sc.neg t0
    let (s, ov) := Sc.setB32 (pre.drop 32)
    if ov then ⟨0, none, 0⟩ else
    let t2 := Sc.add t1 s
    let t3 := if nonceParity = 0 then Sc.neg t2 else t2
    ⟨if ovt then 0 else 1, some (Bytes.be32 t3), 0⟩
  | _, _ => ⟨0, none, 1⟩

/-! ### Call histories over a pool of two secnonce objects (C13)

  A history is a list of steps applied to two secnonce slots (initially all-zero).  The fixed
  setup provides the signer's keypair, a second keypair, message, key-aggregation cache, two
  sessions, a seed for the session randomness and a counter base.  Each step calls exactly one API
  function (after an optional direct manipulation of the slot that stands for caller misuse). -/

structure HistSetup where
  kp : Keys.Keypair
  kp2 : Keys.Keypair
  msg : Bytes
  cache : KeyaggCache
  session : Session
  session2 : Session
  seed : Bytes
  ctrBase : Nat
deriving Repr

inductive GenMode where
  | ok          -- nonce_gen, fresh non-zero session randomness
  | badRand     -- nonce_gen, all-zero session randomness
  | badSk       -- nonce_gen, all-zero secret key
  | badCache    -- nonce_gen, key-aggregation cache with a wrong magic
  | nullPub     -- nonce_gen, pubnonce pointer NULL
  | ctr         -- nonce_gen_counter
  | ctrBadKp    -- nonce_gen_counter, all-zero keypair object
  | ctrZeroSec  -- nonce_gen_counter, keypair object whose secret half is zero (public half intact)
  | ctrOvfSec   -- nonce_gen_counter, keypair object whose secret half is ff..ff (public half intact)
deriving DecidableEq, Repr

inductive SignMode where
  | ok | session2 | wrongKp | negKp | zeroKp | nullOut | nullKp | nullCache | nullSession
  | badCache | badSession | zeroed | badMagic | nullNonce
deriving DecidableEq, Repr

inductive Step where
  | gen (slot : Nat) (mode : GenMode)
  | sign (slot : Nat) (mode : SignMode)
  | copy (src dst : Nat)
deriving DecidableEq, Repr

structure HistState where
  slot0 : Secnonce
  slot1 : Secnonce
deriving DecidableEq, Repr

def HistState.init : HistState := ⟨Secnonce.zero, Secnonce.zero⟩
def HistState.get (s : HistState) (i : Nat) : Secnonce := if i = 0 then s.slot0 else s.slot1
def HistState.set (s : HistState) (i : Nat) (v : Secnonce) : HistState :=
  if i = 0 then { s with slot0 := v } else { s with slot1 := v }

structure StepOut where
  ret : Nat
  illegal : Nat
  /-- for nonce_gen steps: the randomness buffer is all-zero after the call -/
  randWiped : Option Bool
  /-- for signing steps that wrote a signature: its scalar -/
  sig : Option Nat
deriving Repr

def flipFirst (b : Bytes) : Bytes :=
  match b with
  | [] => []
  | x :: xs => (x ^^^ 1) :: xs

def badCacheOf (c : KeyaggCache) : KeyaggCache := { c with magic := flipFirst c.magic }
def badSessionOf (s : Session) : Session := { s with magic := flipFirst s.magic }

/-- keypair with the negated secret key: same x, other y -/
def negKeypair (kp : Keys.Keypair) : Keys.Keypair :=
  ⟨Bytes.be32 (Sc.neg (Bytes.toNat kp.sk)), Pt.neg kp.pk⟩

/-- session randomness used by step number `j` -/
def stepRand (seed : Bytes) (j : Nat) : Bytes := seed.take 28 ++ Bytes.be4 j

def runStep (su : HistSetup) (j : Nat) (st : HistState) : Step → HistState × StepOut
  | .gen slot mode =>
    let r : Ret GenOut := match mode with
      | .ok => nonceGen true true (some (stepRand su.seed j)) (some su.kp.sk) (some su.kp.pk) (some su.msg) (some su.cache) none
      | .badRand => nonceGen true true (some (Bytes.zeros 32)) (some su.kp.sk) (some su.kp.pk) (some su.msg) (some su.cache) none
      | .badSk => nonceGen true true (some (stepRand su.seed j)) (some (Bytes.zeros 32)) (some su.kp.pk) (some su.msg) (some su.cache) none
      | .badCache => nonceGen true true (some (stepRand su.seed j)) (some su.kp.sk) (some su.kp.pk) (some su.msg) (some (badCacheOf su.cache)) none
      | .nullPub => nonceGen true false (some (stepRand su.seed j)) (some su.kp.sk) (some su.kp.pk) (some su.msg) (some su.cache) none
      | .ctr => nonceGenCounter true true ((su.ctrBase + j) % 2 ^ 64) (some su.kp) (some su.msg) (some su.cache) none
      | .ctrBadKp => nonceGenCounter true true ((su.ctrBase + j) % 2 ^ 64) (some Keys.Keypair.zero) (some su.msg) (some su.cache) none
      | .ctrZeroSec => nonceGenCounter true true ((su.ctrBase + j) % 2 ^ 64) (some { su.kp with sk := Bytes.zeros 32 }) (some su.msg) (some su.cache) none
      | .ctrOvfSec => nonceGenCounter true true ((su.ctrBase + j) % 2 ^ 64) (some { su.kp with sk := List.replicate 32 0xff }) (some su.msg) (some su.cache) none
    let st' := match r.out.secnonce with
      | some sn => st.set slot sn
      | none => st
    (st', ⟨r.ret, r.illegal, r.out.secrand.map Bytes.isZero, none⟩)
  | .sign slot mode =>
    -- caller-side manipulation of the object before the call
    let st0 := match mode with
      | .zeroed => st.set slot Secnonce.zero
      | .badMagic => st.set slot { st.get slot with magic := flipFirst (st.get slot).magic }
      | _ => st
    let sn := st0.get slot
    let r : Ret SignOut := match mode with
      | .ok | .zeroed | .badMagic => partialSign true (some sn) (some su.kp) (some su.cache) (some su.session)
      | .session2 => partialSign true (some sn) (some su.kp) (some su.cache) (some su.session2)
      | .wrongKp => partialSign true (some sn) (some su.kp2) (some su.cache) (some su.session)
      | .negKp => partialSign true (some sn) (some (negKeypair su.kp)) (some su.cache) (some su.session)
      | .zeroKp => partialSign true (some sn) (some Keys.Keypair.zero) (some su.cache) (some su.session)
      | .nullOut => partialSign false (some sn) (some su.kp) (some su.cache) (some su.session)
      | .nullKp => partialSign true (some sn) none (some su.cache) (some su.session)
      | .nullCache => partialSign true (some sn) (some su.kp) none (some su.session)
      | .nullSession => partialSign true (some sn) (some su.kp) (some su.cache) none
      | .badCache => partialSign true (some sn) (some su.kp) (some (badCacheOf su.cache)) (some su.session)
      | .badSession => partialSign true (some sn) (some su.kp) (some su.cache) (some (badSessionOf su.session))
      | .nullNonce => partialSign true none (some su.kp) (some su.cache) (some su.session)
    let st' := match r.out.secnonce with
      | some sn' => st0.set slot sn'
      | none => st0
    (st', ⟨r.ret, r.illegal, none, if r.ret = 1 then r.out.sig.map (·.s) else none⟩)
  | .copy src dst => (st.set dst (st.get src), ⟨1, 0, none, none⟩)

/-- run a history; returns the final state and the per-step observations
    (outcome, slot0 all-zero, slot1 all-zero) -/
def runHistory (su : HistSetup) : Nat → HistState → List Step → HistState × List (StepOut × Bool × Bool)
  | _, st, [] => (st, [])
  | j, st, s :: rest =>
    let (st', o) := runStep su j st s
    let (fin, os) := runHistory su (j + 1) st' rest
    (fin, (o, st'.slot0.isZero, st'.slot1.isZero) :: os)

end Musig
end SecpZkp
