/-
  MiniC: a small deep embedding of the integer fragment of C that the translator `tools/c2lean_k.py`
  emits for kernels of the library (limb arithmetic, constant-time selection helpers).

  * values are unsigned integers of an explicit width; every arithmetic node carries the width at
    which C evaluates it (after the usual conversions, which the translator reads off clang's typed AST)
  * `evalWrap`  : the C semantics (wrap-around at the node's width) together with the LEAKAGE TRACE of
                  the execution (branch outcomes and array indices, in program order)
  * `evalIdeal` : the same program over unbounded naturals (no wrap-around; casts and masks stay)
  * `Bounds.check` : an interval analysis; when it succeeds, no `add`/`mul`/`shl`/`sub` node wraps, so both
                  semantics agree (soundness: `Proofs/MiniC.lean`)
  * `Taint.check`  : a type system with labels public/secret; when it succeeds the leakage trace does
                  not depend on secret inputs (soundness: `Proofs/MiniC.lean`)
  Core Lean only.
-/
namespace SecpZkp
namespace MiniC

inductive BinOp where
  | add | sub | mul | and | or | xor | shl | shr
  | lt | le | eq | ne
deriving DecidableEq, Repr, Inhabited

inductive Expr where
  | lit (n : Nat)
  | var (x : String)                         -- scalar variable
  | idx (a : String) (i : Expr)              -- array element a[i]
  | bin (op : BinOp) (w : Nat) (a b : Expr)  -- evaluated at width w (comparisons yield 0/1)
  | cast (w : Nat) (e : Expr)                -- conversion to an unsigned type of width w
  | not (w : Nat) (e : Expr)                 -- bitwise complement at width w
  | neg (w : Nat) (e : Expr)                 -- unsigned negation at width w
  | lnot (e : Expr)                          -- logical !  (0/1)
  | cond (c a b : Expr)                      -- c ? a : b  (a BRANCH: leaks c)
deriving Repr, Inhabited

inductive Stmt where
  | assign (x : String) (e : Expr)
  | store (a : String) (i : Expr) (e : Expr)
  | ite (c : Expr) (t e : List Stmt)
  | loop (x : String) (n : Nat) (body : List Stmt)   -- for (x = 0; x < n; x++) body   (n a literal)
  | declassify (x : String)                          -- secp256k1_declassify on a scalar
  | ret (e : Expr)
deriving Repr, Inhabited

/-- memory: scalars live at index 0 of their own name -/
abbrev Env := List ((String × Nat) × Nat)

def Env.get (env : Env) (x : String) (i : Nat) : Nat :=
  match env.find? (fun p => p.1 == (x, i)) with
  | some p => p.2
  | none => 0

def Env.set (env : Env) (x : String) (i : Nat) (v : Nat) : Env :=
  ((x, i), v) :: env.filter (fun p => !(p.1 == (x, i)))

/-- leakage events -/
inductive Leak where
  | branch (b : Bool)
  | index (a : String) (i : Nat)
deriving DecidableEq, Repr

def binWrap (op : BinOp) (w a b : Nat) : Nat :=
  match op with
  | .add => (a + b) % 2 ^ w
  | .sub => (a + (2 ^ w - b % 2 ^ w)) % 2 ^ w
  | .mul => (a * b) % 2 ^ w
  | .and => a &&& b
  | .or => a ||| b
  | .xor => a ^^^ b
  | .shl => (a * 2 ^ b) % 2 ^ w
  | .shr => a / 2 ^ b
  | .lt => if a < b then 1 else 0
  | .le => if a ≤ b then 1 else 0
  | .eq => if a = b then 1 else 0
  | .ne => if a ≠ b then 1 else 0

def binIdeal (op : BinOp) (a b : Nat) : Nat :=
  match op with
  | .add => a + b
  | .sub => a - b
  | .mul => a * b
  | .and => a &&& b
  | .or => a ||| b
  | .xor => a ^^^ b
  | .shl => a * 2 ^ b
  | .shr => a / 2 ^ b
  | .lt => if a < b then 1 else 0
  | .le => if a ≤ b then 1 else 0
  | .eq => if a = b then 1 else 0
  | .ne => if a ≠ b then 1 else 0

/-- expression evaluation with wrap-around; returns the value and the leakage it causes -/
def evalE (env : Env) : Expr → Nat × List Leak
  | .lit n => (n, [])
  | .var x => (env.get x 0, [])
  | .idx a i => let (iv, l) := evalE env i; (env.get a iv, l ++ [Leak.index a iv])
  | .bin op w a b =>
    let (av, la) := evalE env a
    let (bv, lb) := evalE env b
    (binWrap op w av bv, la ++ lb)
  | .cast w e => let (v, l) := evalE env e; (v % 2 ^ w, l)
  | .not w e => let (v, l) := evalE env e; ((2 ^ w - 1) - v % 2 ^ w, l)
  | .neg w e => let (v, l) := evalE env e; ((2 ^ w - v % 2 ^ w) % 2 ^ w, l)
  | .lnot e => let (v, l) := evalE env e; (if v = 0 then 1 else 0, l)
  | .cond c a b =>
    let (cv, lc) := evalE env c
    if cv ≠ 0 then let (v, l) := evalE env a; (v, lc ++ [Leak.branch true] ++ l)
    else let (v, l) := evalE env b; (v, lc ++ [Leak.branch false] ++ l)

/-- ideal (unbounded) expression evaluation -/
def evalEI (env : Env) : Expr → Nat
  | .lit n => n
  | .var x => env.get x 0
  | .idx a i => env.get a (evalEI env i)
  | .bin op _ a b => binIdeal op (evalEI env a) (evalEI env b)
  | .cast w e => evalEI env e % 2 ^ w
  | .not w e => (2 ^ w - 1) - evalEI env e % 2 ^ w
  | .neg w e => (2 ^ w - evalEI env e % 2 ^ w) % 2 ^ w
  | .lnot e => if evalEI env e = 0 then 1 else 0
  | .cond c a b => if evalEI env c ≠ 0 then evalEI env a else evalEI env b

structure Outcome where
  env : Env
  ret : Option Nat := none
  leak : List Leak := []

mutual
/-- statement execution (wrap-around semantics, with leakage); stops at the first `ret` -/
def execS (env : Env) : Stmt → Outcome
  | .assign x e => let (v, l) := evalE env e; ⟨env.set x 0 v, none, l⟩
  | .store a i e =>
    let (iv, li) := evalE env i
    let (v, l) := evalE env e
    ⟨env.set a iv v, none, li ++ [Leak.index a iv] ++ l⟩
  | .ite c t e =>
    let (cv, lc) := evalE env c
    let o := if cv ≠ 0 then execL env t else execL env e
    ⟨o.env, o.ret, lc ++ [Leak.branch (cv ≠ 0)] ++ o.leak⟩
  | .loop x n body => execLoop env x 0 n n body
  | .declassify _ => ⟨env, none, []⟩
  | .ret e => let (v, l) := evalE env e; ⟨env, some v, l⟩

def execL (env : Env) : List Stmt → Outcome
  | [] => ⟨env, none, []⟩
  | s :: rest =>
    let o := execS env s
    match o.ret with
    | some _ => o
    | none => let o2 := execL o.env rest; ⟨o2.env, o2.ret, o.leak ++ o2.leak⟩

/-- `fuel` iterations left, counter value `k` -/
def execLoop (env : Env) (x : String) (k n : Nat) : Nat → List Stmt → Outcome
  | 0, _ => ⟨env, none, []⟩
  | fuel + 1, body =>
    if k < n then
      let o := execL (env.set x 0 k) body
      match o.ret with
      | some _ => o
      | none => let o2 := execLoop o.env x (k + 1) n fuel body; ⟨o2.env, o2.ret, o.leak ++ o2.leak⟩
    else ⟨env, none, []⟩
end

mutual
/-- ideal statement execution -/
def execSI (env : Env) : Stmt → Env × Option Nat
  | .assign x e => (env.set x 0 (evalEI env e), none)
  | .store a i e => (env.set a (evalEI env i) (evalEI env e), none)
  | .ite c t e => if evalEI env c ≠ 0 then execLI env t else execLI env e
  | .loop x n body => execLoopI env x 0 n n body
  | .declassify _ => (env, none)
  | .ret e => (env, some (evalEI env e))

def execLI (env : Env) : List Stmt → Env × Option Nat
  | [] => (env, none)
  | s :: rest =>
    match execSI env s with
    | (env', some v) => (env', some v)
    | (env', none) => execLI env' rest

def execLoopI (env : Env) (x : String) (k n : Nat) : Nat → List Stmt → Env × Option Nat
  | 0, _ => (env, none)
  | fuel + 1, body =>
    if k < n then
      match execLI (env.set x 0 k) body with
      | (env', some v) => (env', some v)
      | (env', none) => execLoopI env' x (k + 1) n fuel body
    else (env, none)
end

/-- A translated C function: parameters (scalars and arrays with their lengths) and a body. -/
structure Fn where
  name : String
  scalars : List String
  arrays : List (String × Nat)
  body : List Stmt
deriving Repr, Inhabited

/-! ### Interval analysis: no arithmetic node wraps -/
namespace Bounds

/-- upper bounds for cells; a cell without entry is unknown -/
abbrev BEnv := List ((String × Nat) × Nat)

def BEnv.get? (b : BEnv) (x : String) (i : Nat) : Option Nat :=
  (b.find? (fun p => p.1 == (x, i))).map (·.2)

def BEnv.set (b : BEnv) (x : String) (i : Nat) (v : Nat) : BEnv :=
  ((x, i), v) :: b.filter (fun p => !(p.1 == (x, i)))

/-- the all-ones number with as many bits as `m`: every `a ≤ m` satisfies `a ≤ ones m`, and so do
    `a ||| b`, `a ^^^ b` for `a, b ≤ m` -/
def ones (m : Nat) : Nat := 2 ^ (Nat.log2 m + 1) - 1

/-- an upper bound for the IDEAL value of `e` given bounds on the cells, or `none` if some node might
    wrap at its width, or the expression is outside the supported straight-line fragment
    (array indices must be literals, shift amounts must be literals, no `-`, `~`, unary `-`, `?:`) -/
def boundE (b : BEnv) : Expr → Option Nat
  | .lit n => some n
  | .var x => b.get? x 0
  | .idx a (.lit i) => b.get? a i
  | .idx _ _ => none
  | .bin op w x y =>
    match boundE b x, boundE b y with
    | some bx, some by_ =>
      match op with
      | .add => if bx + by_ < 2 ^ w then some (bx + by_) else none
      | .mul => if bx * by_ < 2 ^ w then some (bx * by_) else none
      | .and => some (min bx by_)
      | .or => some (ones (max bx by_))
      | .xor => some (ones (max bx by_))
      | .shr => match y with
          | .lit k => some (bx / 2 ^ k)
          | _ => none
      | .shl => match y with
          | .lit k => if bx * 2 ^ k < 2 ^ w then some (bx * 2 ^ k) else none
          | _ => none
      | .sub => none
      | .lt | .le | .eq | .ne => some 1
    | _, _ => none
  | .cast w e => (boundE b e).map (fun v => min v (2 ^ w - 1))
  | .not _ _ => none
  | .neg _ _ => none
  | .lnot e => (boundE b e).map (fun _ => 1)
  | .cond _ _ _ => none

/-- straight-line statements only (`assign` to scalars, `store` at literal indices, a final `ret`) -/
def checkL (b : BEnv) : List Stmt → Option BEnv
  | [] => some b
  | .assign x e :: rest =>
    match boundE b e with
    | some v => checkL (b.set x 0 v) rest
    | none => none
  | .store a (.lit i) e :: rest =>
    match boundE b e with
    | some v => checkL (b.set a i v) rest
    | none => none
  | .ret e :: _ =>
    match boundE b e with
    | some _ => some b
    | none => none
  | _ => none

/-- `env` respects the bounds `b` on every cell that `b` mentions -/
def Respects (env : Env) (b : BEnv) : Prop := ∀ x i v, b.get? x i = some v → env.get x i ≤ v

end Bounds

/-! ### Taint analysis: the leakage trace is independent of secrets -/
namespace Taint

inductive Lab where
  | pub | sec
deriving DecidableEq, Repr, Inhabited

def Lab.join : Lab → Lab → Lab
  | .pub, .pub => .pub
  | _, _ => .sec

/-- what a label is attached to: the scalar `x` (memory cell `(x, 0)`) or the whole array `a`
    (all cells `(a, i)`; an array is one security class).  The two kinds are separate name spaces, so
    the analysis stays sound even if a name is used both ways (`sc x` and `arr x` share the cell `(x, 0)`;
    the rules for `assign` and `store` account for that). -/
inductive Cell where
  | sc (x : String)
  | arr (a : String)
deriving DecidableEq, Repr, Inhabited

abbrev LEnv := List (Cell × Lab)

def LEnv.get (g : LEnv) (c : Cell) : Lab :=
  match g.find? (fun p => p.1 == c) with
  | some p => p.2
  | none => .sec        -- unknown names are secret

def LEnv.set (g : LEnv) (c : Cell) (l : Lab) : LEnv := (c, l) :: g.filter (fun p => !(p.1 == c))

/-- weak update: afterwards `c` has the label `(g.get c).join l` -/
def LEnv.weak (g : LEnv) (c : Cell) (l : Lab) : LEnv :=
  match l, g.get c with
  | .sec, .pub => g.set c .sec
  | _, _ => g

/-- pointwise join: `(joinEnv g1 g2).get c = (g1.get c).join (g2.get c)` for every `c`
    (a name missing from `g1` is secret in `g1`, hence in the join) -/
def joinEnv (g1 g2 : LEnv) : LEnv :=
  g1.map (fun p => (p.1, p.2.join (g2.get p.1)))

/-- every name is at most as secret in `a` as in `b`: whatever is public in `b` is public in `a` -/
def subsumes (a b : LEnv) : Bool :=
  b.all (fun p => b.get p.1 == .sec || a.get p.1 == .pub)

/-- search for a loop invariant: starting from `gi`, repeat `gi := gi ⊔ f gi` (at most `fuel` rounds)
    until `f gi` subsumes `gi`, where `f` labels the loop body.  The result `gi'` satisfies
    `f gi' = some g'` with `subsumes g' gi'`, and is at least as secret as `gi` everywhere. -/
def loopInv (f : LEnv → Option LEnv) : Nat → LEnv → Option LEnv
  | 0, _ => none
  | fuel + 1, gi =>
    match f gi with
    | some g' => if subsumes g' gi then some gi else loopInv f fuel (joinEnv gi g')
    | none => none

/-- label of an expression, or `none` if evaluating it leaks a secret (secret index, secret `?:`) -/
def labE (g : LEnv) : Expr → Option Lab
  | .lit _ => some .pub
  | .var x => some (g.get (.sc x))
  | .idx a i =>
    match labE g i with
    | some .pub => some (g.get (.arr a))
    | _ => none
  | .bin _ _ a b =>
    match labE g a, labE g b with
    | some la, some lb => some (la.join lb)
    | _, _ => none
  | .cast _ e => labE g e
  | .not _ e => labE g e
  | .neg _ e => labE g e
  | .lnot e => labE g e
  | .cond c a b =>
    match labE g c, labE g a, labE g b with
    | some .pub, some la, some lb => some (la.join lb)
    | _, _, _ => none

mutual
/-- flow-sensitive labelling; fails on a secret branch condition, a secret index, or a `ret`/condition
    whose evaluation leaks.  After a public branch the labels of both arms are joined.
    * `assign x e` is a strong update of the scalar `x` (and a weak update of the array of the same name,
      which shares cell `(x, 0)`); `store a i e` is a weak update of the array `a` (and of the scalar `a`).
    * `loop x n body`: the result is a labelling `gi`, at least as secret as `g`, such that the body maps
      `gi[x := pub]` to something that subsumes `gi` (a loop invariant, found by `loopInv`).  The
      counter keeps its label from before the loop in the result (the loop may run zero times).
    * `declassify x` makes `x` public; the soundness theorem is for programs with `noDeclassify`. -/
def checkS (g : LEnv) : Stmt → Option LEnv
  | .assign x e => (labE g e).map (fun l => (g.set (.sc x) l).weak (.arr x) l)
  | .store a i e =>
    match labE g i, labE g e with
    | some .pub, some l => some ((g.weak (.arr a) l).weak (.sc a) l)
    | _, _ => none
  | .ite c t e =>
    match labE g c with
    | some .pub =>
      match checkL g t, checkL g e with
      | some g1, some g2 => some (joinEnv g1 g2)
      | _, _ => none
    | _ => none
  | .loop x _ body => loopInv (fun gi => checkL (gi.set (.sc x) .pub) body) (g.length + 1) g
  | .declassify x => some (g.set (.sc x) .pub)
  | .ret e => (labE g e).map (fun _ => g)

def checkL (g : LEnv) : List Stmt → Option LEnv
  | [] => some g
  | s :: rest =>
    match checkS g s with
    | some g' => checkL g' rest
    | none => none
end

mutual
/-- the statement contains no `declassify` -/
def noDeclassifyS : Stmt → Bool
  | .ite _ t e => noDeclassify t && noDeclassify e
  | .loop _ _ body => noDeclassify body
  | .declassify _ => false
  | _ => true

/-- the program contains no `declassify` -/
def noDeclassify : List Stmt → Bool
  | [] => true
  | s :: rest => noDeclassifyS s && noDeclassify rest
end

/-- two memories agree on everything labelled public: on cell `(x, 0)` for a public scalar `x`, on all
    cells `(a, i)` for a public array `a` -/
def LowEq (g : LEnv) (e1 e2 : Env) : Prop :=
  (∀ x, g.get (.sc x) = .pub → e1.get x 0 = e2.get x 0) ∧
  (∀ a i, g.get (.arr a) = .pub → e1.get a i = e2.get a i)

end Taint

end MiniC
end SecpZkp
