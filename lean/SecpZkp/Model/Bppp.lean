import SecpZkp.Model.Generator
/-
  Bulletproofs++ module (modules/bppp): utility codecs (bppp_util.h), transcript challenges
  (bppp_transcript_impl.h), generator lists (main_impl.h) and the norm argument
  (bppp_norm_product_impl.h: commit, prove, verify).

  Conventions
  * scalars are `Nat` reduced mod `N`; scalar vectors are `List Nat`; out-of-range reads (which the C
    code never performs when its preconditions hold) yield 0 / `Pt.inf` through `getD`.
  * arrays that the C code updates in place (`n_vec`, `l_vec`, `c_vec`, `g_vec` in the prover) are
    lists updated with `List.set` in the same order as the C loops.
  * `secp256k1_ecmult_multi_var` is modelled by `ecmultMulti`: the callback is evaluated for
    idx = 0..n-1, a failing callback makes the call fail, otherwise the result is
    `g_sc*G + Σ sc_i*pt_i` (which algorithm the scratch space selects does not change the value).
  * a scratch space is modelled by its `max_size` and `alloc_size` (scratch_impl.h).
-/
namespace SecpZkp
namespace Bppp

/-! ### bppp_util.h -/

/-- `secp256k1_is_power_of_two` -/
def isPowerOfTwo (n : Nat) : Bool := n > 0 && (n &&& (n - 1)) == 0

/-- `secp256k1_bppp_log2`: `64 - 1 - clz64(n)`, i.e. the largest `k` with `2^k ≤ n` (n ≠ 0). -/
def log2 (n : Nat) : Nat := Nat.log2 n

/-- `secp256k1_bppp_le64` -/
def le64 (n : Nat) : Bytes := Bytes.le8 n

/-- `secp256k1_ge_serialize_ext` (secp256k1.c): 33 zero bytes for infinity, else compressed. -/
def geSerializeExt (p : Pt) : Bytes := Codec.serialize33 p

/-- `secp256k1_ge_parse_ext` (secp256k1.c): all-zero ↦ infinity, else compressed point parse. -/
def geParseExt (in33 : Bytes) : Option Pt :=
  if Bytes.isZero in33 then some .inf else Codec.pubkeyParse in33

/-- `secp256k1_bppp_serialize_points`: two points in 65 bytes, parities share the first byte. -/
def serializePoints (lpt rpt : Pt) : Bytes :=
  let tl := geSerializeExt lpt
  let tr := geSerializeExt rpt
  let b0 : UInt8 := ((tl.headD 0 &&& 1) <<< 1) ||| (tr.headD 0 &&& 1)
  b0 :: (tl.drop 1 ++ tr.drop 1)

/-- `secp256k1_bppp_parse_one_of_points` (idx ∈ {0,1}); `none` = return 0. -/
def parseOneOfPoints (in65 : Bytes) (idx : Nat) : Option Pt :=
  let b0 := in65.headD 0
  if b0 > 3 then none else
  let xb := (in65.drop (1 + 32 * idx)).take 32
  let mask : UInt8 := if idx = 0 then 2 else 1          -- (2 - idx)
  let shift : UInt8 := if idx = 0 then 1 else 0         -- (1 - idx)
  if !Bytes.isZero xb then
    geParseExt ((2 ||| ((b0 &&& mask) >>> shift)) :: xb)
  else
    -- the point at infinity: its sign bit must be 0
    if b0 &&& mask ≠ 0 then none else geParseExt (Bytes.zeros 33)

/-! ### bppp_transcript_impl.h -/

/-- `secp256k1_bppp_sha256_tagged_commitment_init` (hard-coded midstate in C). -/
def taggedCommitmentInit : Sha256.State :=
  Sha256.initTagged "Bulletproofs_pp/v0/commitment".toUTF8.toList

/-- `secp256k1_bppp_challenge_scalar`: H(transcript ‖ le64 idx) reduced mod n (transcript unchanged). -/
def challengeScalar (transcript : Sha256.State) (idx : Nat) : Nat :=
  (Sc.setB32 (Sha256.finalize (Sha256.write transcript (le64 idx)))).1

/-! ### generator lists (main_impl.h) -/

/-- loop of `secp256k1_bppp_generators_create`; `none` = the `CHECK` on generator_generate aborts. -/
def gensLoop : Nat → Sha256.Rfc6979 → List Pt → Option (List Pt)
  | 0, _, acc => some acc
  | k + 1, rng, acc =>
    let (tmp, rng') := Sha256.rfc6979Generate rng 32
    let (ret, g) := Generator.generateInternal tmp none
    if ret = 0 then none else gensLoop k rng' (acc ++ [g])

/-- `secp256k1_bppp_generators_create` -/
def gensCreate (n : Nat) : Option (List Pt) :=
  let seed := Bytes.be32 Pt.Gx ++ Bytes.be32 Pt.Gy
  gensLoop n (Sha256.rfc6979Init seed) []

/-- the `while (n--)` loop of `secp256k1_bppp_generators_parse`: entries n-1, n-2, .., 0. -/
def gensParseLoop (data : Bytes) : Nat → List Pt → Option (List Pt)
  | 0, acc => some acc
  | n + 1, acc =>
    match Generator.parse ((data.drop (33 * n)).take 33) with
    | none => none                               -- free(ret->gens); free(ret); return NULL
    | some g => gensParseLoop data n (g :: acc)

/-- `secp256k1_bppp_generators_parse`; `data = none` is the NULL pointer. `out = none` is NULL. -/
def gensParse (data : Option Bytes) : Ret (Option (List Pt)) :=
  match data with
  | none => ⟨0, none, 1⟩
  | some d =>
    if d.length % 33 ≠ 0 then ⟨0, none, 0⟩ else
    match gensParseLoop d (d.length / 33) [] with
    | none => ⟨0, none, 0⟩
    | some l => ⟨1, some l, 0⟩

/-- `secp256k1_bppp_generators_serialize`. `gens = none`: NULL list; `buf = none`: NULL data pointer with
    `*data_len = dataLen`; otherwise `buf` is the initial content of the `dataLen`-byte buffer.
    Output: (buffer afterwards, `*data_len` afterwards). -/
def gensSerialize (gens : Option (List Pt)) (buf : Option Bytes) (dataLen : Nat) : Ret (Option Bytes × Nat) :=
  match gens with
  | none => ⟨0, (buf, dataLen), 1⟩
  | some gs =>
    match buf with
    | none => ⟨0, (none, dataLen), 1⟩
    | some b =>
      if dataLen < 33 * gs.length then ⟨0, (some b, dataLen), 1⟩ else
      let ser := gs.flatMap Generator.serialize
      ⟨1, (some (ser ++ Bytes.zeros (dataLen - 33 * gs.length)), 33 * gs.length), 0⟩

/-! ### scalar helpers (bppp_norm_product_impl.h) -/

@[inline] def scSqr (a : Nat) : Nat := Sc.mul a a

/-- `secp256k1_scalar_inner_product`: Σ_{i<len} a[aOff + step*i] * b[bOff + step*i] -/
def scalarInnerProduct (a : List Nat) (aOff : Nat) (b : List Nat) (bOff step len : Nat) : Nat :=
  (List.range len).foldl
    (fun res i => Sc.add res (Sc.mul (a.getD (aOff + step * i) 0) (b.getD (bOff + step * i) 0))) 0

/-- `secp256k1_weighted_scalar_inner_product`: Σ_{i<len} a[..] * b[..] * mu^(i+1).
    The fold carries `(res, mu_pow)` as the C loop does. -/
def weightedScalarInnerProduct (a : List Nat) (aOff : Nat) (b : List Nat) (bOff step len mu : Nat) : Nat :=
  ((List.range len).foldl
    (fun (st : Nat × Nat) i =>
      let term := Sc.mul (Sc.mul (a.getD (aOff + step * i) 0) (b.getD (bOff + step * i) 0)) st.2
      (Sc.add st.1 term, Sc.mul st.2 mu)) (0, mu)).1

/-- `secp256k1_bppp_powers_of_rho`: rho, rho^2, rho^4, .., rho^(2^(n-1)) -/
def powersOfRho (rho : Nat) : Nat → List Nat
  | 0 => []
  | n + 1 => rho :: powersOfRho (scSqr rho) n

/-- `secp256k1_ecmult_multi_var(.., r, inp_g_sc, cb, cbdata, n)`; `none` = returns 0. -/
def ecmultMulti (gsc : Option Nat) (cb : Nat → Option (Nat × Pt)) (n : Nat) : Option Pt :=
  let init := match gsc with
    | none => Pt.inf
    | some s => Pt.mulG s
  (List.range n).foldlM (fun acc i => do
    let (sc, pt) ← cb i
    pure (Pt.add acc (Pt.mul sc pt))) init

/-! ### commitment -/

/-- `ecmult_bp_commit_cb` -/
def commitCb (nVec lVec : List Nat) (g : List Pt) (gLen : Nat) (idx : Nat) : Option (Nat × Pt) :=
  some (if idx < gLen then nVec.getD idx 0 else lVec.getD (idx - gLen) 0, g.getD idx .inf)

/-- `secp256k1_bppp_commit`: v*G + <n,G_vec> + <l,H_vec>, v = |n|²_mu + <l,c>. Returns (ret, commit). -/
def commit (gens : List Pt) (nVec lVec cVec : List Nat) (mu : Nat) : Nat × Pt :=
  let nLen := nVec.length
  let lLen := lVec.length
  let v := weightedScalarInnerProduct nVec 0 nVec 0 1 nLen mu
  let lc := scalarInnerProduct lVec 0 cVec 0 1 lLen
  let v := Sc.add v lc
  match ecmultMulti (some v) (commitCb nVec lVec gens nLen) (nLen + lLen) with
  | none => (0, .inf)
  | some c => (1, c)

/-! ### prover -/

/-- `ecmult_x_cb` -/
def xCb (n l : List Nat) (g : List Pt) (rho rhoInv gGensLen nLen : Nat) (idx : Nat) : Option (Nat × Pt) :=
  if idx < nLen then
    if idx % 2 = 0 then some (Sc.mul (n.getD (idx + 1) 0) rho, g.getD idx .inf)
    else some (Sc.mul (n.getD (idx - 1) 0) rhoInv, g.getD idx .inf)
  else
    let idx := idx - nLen
    if idx % 2 = 0 then some (l.getD (idx + 1) 0, g.getD (gGensLen + idx) .inf)
    else some (l.getD (idx - 1) 0, g.getD (gGensLen + idx) .inf)

/-- `ecmult_r_cb` -/
def rCb (n1 l1 : List Nat) (g1 : List Pt) (gGensLen nLen : Nat) (idx : Nat) : Option (Nat × Pt) :=
  if idx < nLen then some (n1.getD (2 * idx + 1) 0, g1.getD (2 * idx + 1) .inf)
  else
    let idx := idx - nLen
    some (l1.getD (2 * idx + 1) 0, g1.getD (gGensLen + 2 * idx + 1) .inf)

/-- The mutable state of `secp256k1_bppp_rangeproof_norm_product_prove`. -/
structure ProveState where
  transcript : Sha256.State
  g : List Pt
  n : List Nat
  l : List Nat
  c : List Nat
  gLen : Nat
  hLen : Nat
  rhoF : Nat
  muF : Nat
  proof : Bytes

/-- `for (i = 0; i < g_len; i += 2)`: n_vec[i/2] = n[i]*rho_inv + n[i+1]*gamma,
    g_vec[i/2] = rho_f*g[i] + gamma*g[i+1]  (in place) -/
def foldG (rhoInv gamma rhoF gLen : Nat) : Nat → Nat → List Nat → List Pt → List Nat × List Pt
  | 0, _, n, g => (n, g)
  | fuel + 1, i, n, g =>
    if i < gLen then
      let nl := Sc.mul (n.getD i 0) rhoInv
      let nr := Sc.mul (n.getD (i + 1) 0) gamma
      let n' := n.set (i / 2) (Sc.add nl nr)
      let gl := Pt.mul rhoF (g.getD i .inf)
      let gr := Pt.mul gamma (g.getD (i + 1) .inf)
      let g' := g.set (i / 2) (Pt.add gl gr)
      foldG rhoInv gamma rhoF gLen fuel (i + 2) n' g'
    else (n, g)

/-- `for (i = 0; i < h_len; i += 2)`: c[i/2] = c[i] + gamma*c[i+1], l[i/2] = l[i] + gamma*l[i+1],
    g_vec[G + i/2] = g[G+i] + gamma*g[G+i+1]  (in place) -/
def foldH (gamma gGensLen hLen : Nat) : Nat → Nat → List Nat → List Nat → List Pt → List Nat × List Nat × List Pt
  | 0, _, c, l, g => (c, l, g)
  | fuel + 1, i, c, l, g =>
    if i < hLen then
      let c' := c.set (i / 2) (Sc.add (c.getD i 0) (Sc.mul (c.getD (i + 1) 0) gamma))
      let l' := l.set (i / 2) (Sc.add (l.getD i 0) (Sc.mul (l.getD (i + 1) 0) gamma))
      let grj := Pt.mul gamma (g.getD (gGensLen + i + 1) .inf)
      let g' := g.set (gGensLen + i / 2) (Pt.add grj (g.getD (gGensLen + i) .inf))
      foldH gamma gGensLen hLen fuel (i + 2) c' l' g'
    else (c, l, g)

/-- One iteration of the `while (g_len > 1 || h_len > 1)` loop; `none` = an ecmult_multi failed. -/
def proveRound (gGensLen : Nat) (st : ProveState) : Option ProveState := do
  let rhoInv := Sc.inv st.rhoF
  let muSq := scSqr st.muF
  -- X = x_v*G + <rho*n1, G0> + <rho_inv*n0, G1> + <l1, H0> + <l0, H1>
  let c0l1 := scalarInnerProduct st.c 0 st.l 1 2 (st.hLen / 2)
  let c1l0 := scalarInnerProduct st.c 1 st.l 0 2 (st.hLen / 2)
  let xv := weightedScalarInnerProduct st.n 0 st.n 1 2 (st.gLen / 2) muSq
  let xv := Sc.mul xv rhoInv
  let xv := Sc.add xv xv
  let xv := Sc.add xv c0l1
  let xv := Sc.add xv c1l0
  let xnLen := if st.gLen ≥ 2 then st.gLen else 0
  let numPoints := xnLen + (if st.hLen ≥ 2 then st.hLen else 0)
  let x ← ecmultMulti (some xv) (xCb st.n st.l st.g st.rhoF rhoInv gGensLen xnLen) numPoints
  -- R = r_v*G + <n1, G1> + <l1, H1>
  let rv := weightedScalarInnerProduct st.n 1 st.n 1 2 (st.gLen / 2) muSq
  let c1l1 := scalarInnerProduct st.c 1 st.l 1 2 (st.hLen / 2)
  let rv := Sc.add rv c1l1
  let rnLen := st.gLen / 2
  let r ← ecmultMulti (some rv) (rCb st.n st.l st.g gGensLen rnLen) (rnLen + st.hLen / 2)
  let ser := serializePoints x r
  -- challenge for this round
  let transcript := Sha256.write st.transcript ser
  let gamma := challengeScalar transcript 0
  let (n', g') := if st.gLen > 1 then foldG rhoInv gamma st.rhoF st.gLen st.gLen 0 st.n st.g else (st.n, st.g)
  let (c', l', g'') := if st.hLen > 1 then foldH gamma gGensLen st.hLen st.hLen 0 st.c st.l g' else (st.c, st.l, g')
  pure { transcript := transcript, g := g'', n := n', l := l', c := c',
         gLen := st.gLen / 2, hLen := st.hLen / 2, rhoF := st.muF, muF := muSq, proof := st.proof ++ ser }

/-- the `while` loop, with fuel -/
def proveLoop (gGensLen : Nat) : Nat → ProveState → Option ProveState
  | 0, st => some st
  | fuel + 1, st =>
    if st.gLen > 1 ∨ st.hLen > 1 then
      match proveRound gGensLen st with
      | none => none
      | some st' => proveLoop gGensLen fuel st'
    else some st

/-- `secp256k1_bppp_rangeproof_norm_product_prove`: (ret, proof, transcript afterwards).
    Preconditions (VERIFY_CHECKed in C): `gVec.length = nVec.length + lVec.length`,
    `lVec.length = cVec.length`, both lengths powers of two, output buffer large enough. -/
def prove (transcript : Sha256.State) (rho : Nat) (gVec : List Pt) (nVec lVec cVec : List Nat) :
    Nat × Bytes × Sha256.State :=
  let gLen := nVec.length
  let hLen := lVec.length
  let st0 : ProveState := { transcript := transcript, g := gVec, n := nVec, l := lVec, c := cVec,
                            gLen := gLen, hLen := hLen, rhoF := rho, muF := scSqr rho, proof := [] }
  match proveLoop gLen (gLen + hLen + 1) st0 with
  | none => (0, [], transcript)
  | some st => (1, st.proof ++ Bytes.be32 (st.n.getD 0 0) ++ Bytes.be32 (st.l.getD 0 0), st.transcript)

/-! ### scratch space (scratch_impl.h) -/

structure Scratch where
  maxSize : Nat
  allocSize : Nat
deriving Repr, DecidableEq

def ALIGNMENT : Nat := 16
def roundToAlign (size : Nat) : Nat := (size + ALIGNMENT - 1) / ALIGNMENT * ALIGNMENT

/-- `secp256k1_scratch_alloc`: `none` = NULL -/
def Scratch.alloc (s : Scratch) (size : Nat) : Option Scratch :=
  let size := roundToAlign size
  if size > s.maxSize - s.allocSize then none else some { s with allocSize := s.allocSize + size }

/-- allocation that leaves the scratch unchanged on failure and reports success -/
def Scratch.tryAlloc (s : Scratch) (size : Nat) : Scratch × Bool :=
  match s.alloc size with
  | none => (s, false)
  | some s' => (s', true)

def scalarSize : Nat := 32     -- sizeof(secp256k1_scalar) in every configuration

/-! ### verifier -/

/-- `ec_mult_verify_cb1`: commit, then (gamma_i, X_i), (gamma_i^2 - 1, R_i) -/
def verifyCb1 (proof : Bytes) (commit : Pt) (gammas : List Nat) (idx : Nat) : Option (Nat × Pt) :=
  if idx = 0 then some (1, commit) else
  let idx := idx - 1
  if idx % 2 = 0 then
    let idx := idx / 2
    match parseOneOfPoints ((proof.drop (65 * idx)).take 65) 0 with
    | none => none
    | some pt => some (gammas.getD idx 0, pt)
  else
    let idx := idx / 2
    let sc := Sc.add (scSqr (gammas.getD idx 0)) (Sc.neg 1)
    match parseOneOfPoints ((proof.drop (65 * idx)).take 65) 1 with
    | none => none
    | some pt => some (sc, pt)

/-- `ec_mult_verify_cb2` -/
def verifyCb2 (sG sH : List Nat) (gVec : List Pt) (gVecLen : Nat) (idx : Nat) : Option (Nat × Pt) :=
  some (if idx < gVecLen then sG.getD idx 0 else sH.getD (idx - gVecLen) 0, gVec.getD idx .inf)

/-- `for (i = 0; i < n_rounds; i++)`: absorb 65 proof bytes, derive gamma_i -/
def gammasLoop (proof : Bytes) : Nat → Nat → Sha256.State → List Nat → List Nat × Sha256.State
  | 0, _, t, acc => (acc, t)
  | k + 1, i, t, acc =>
    let t' := Sha256.write t ((proof.drop (i * 65)).take 65)
    gammasLoop proof k (i + 1) t' (acc ++ [challengeScalar t' 0])

/-- `s_g[i] = s_g[i - 2^log2(i)] * gammas[log2 i] * rho_inv_pows[log2 i]` for i = 1..g_len-1 -/
def sGLoop (gammas rhoInvPows : List Nat) : Nat → Nat → List Nat → List Nat
  | 0, _, sG => sG
  | k + 1, i, sG =>
    let logI := log2 i
    let nearest := 2 ^ logI
    let x := Sc.mul (Sc.mul (sG.getD (i - nearest) 0) (gammas.getD logI 0)) (rhoInvPows.getD logI 0)
    sGLoop gammas rhoInvPows k (i + 1) (sG ++ [x])

/-- `s_h[i] = s_h[i - 2^log2(i)] * gammas[log2 i]` for i = 1..h_len-1 -/
def sHLoop (gammas : List Nat) : Nat → Nat → List Nat → List Nat
  | 0, _, sH => sH
  | k + 1, i, sH =>
    let logI := log2 i
    let nearest := 2 ^ logI
    sHLoop gammas k (i + 1) (sH ++ [Sc.mul (sH.getD (i - nearest) 0) (gammas.getD logI 0)])

/-- `rho_f = rho^(2^log_g_len)` -/
def sqrTimes (x : Nat) : Nat → Nat
  | 0 => x
  | k + 1 => sqrTimes (scSqr x) k

/-- The values the verifier compares: (res1, res2) of the two multi-exponentiations, for inputs that
    passed the size / range checks. `none` = one of the multi-exponentiations failed (bad point). -/
def verifyEquation (proof : Bytes) (transcript : Sha256.State) (rho : Nat) (gens : List Pt) (gLen : Nat)
    (cVec : List Nat) (commit : Pt) (nRounds logGLen : Nat) (n l : Nat) : Option (Pt × Pt) := do
  let hLen := cVec.length
  let rhoInv := Sc.inv rho
  let rhoInvPows := powersOfRho rhoInv logGLen
  let rhoF := sqrTimes rho logGLen
  let (gammas, _) := gammasLoop proof nRounds 0 transcript []
  let sG0 := Sc.mul (Sc.mul n rhoF) rhoInv
  let sG := sGLoop gammas rhoInvPows (gLen - 1) 1 [sG0]
  let sH := sHLoop gammas (hLen - 1) 1 [l]
  let hc := scalarInnerProduct cVec 0 sH 0 1 hLen
  let muF := scSqr rhoF
  let v := Sc.add (Sc.mul (Sc.mul n n) muF) hc
  let res1 ← ecmultMulti none (verifyCb1 proof commit gammas) (2 * nRounds + 1)
  let res2 ← ecmultMulti (some v) (verifyCb2 sG sH gens gLen) (gLen + hLen)
  pure (res1, res2)

/-- `secp256k1_bppp_rangeproof_norm_product_verify`: (ret, scratch afterwards).
    `gens.length` is `g_vec->n`, `cVec.length` is `c_vec_len`. -/
def verify (scratch : Scratch) (proof : Bytes) (transcript : Sha256.State) (rho : Nat) (gens : List Pt)
    (gLen : Nat) (cVec : List Nat) (commit : Pt) : Nat × Scratch :=
  let hLen := cVec.length
  if gLen = 0 ∨ hLen = 0 then (0, scratch) else
  let logGLen := log2 gLen
  let logHLen := log2 hLen
  let nRounds := if logGLen > logHLen then logGLen else logHLen
  if gens.length ≠ hLen + gLen ∨ proof.length ≠ 65 * nRounds + 64 then (0, scratch) else
  if !isPowerOfTwo gLen ∨ !isPowerOfTwo hLen then (0, scratch) else
  let (n, ovN) := Sc.setB32 ((proof.drop (nRounds * 65)).take 32)
  if ovN then (0, scratch) else
  let (l, ovL) := Sc.setB32 ((proof.drop (nRounds * 65 + 32)).take 32)
  if ovL then (0, scratch) else
  if rho = 0 then (0, scratch) else
  -- scratch allocations: gammas, s_g, s_h, rho_inv_pows
  let checkpoint := scratch.allocSize
  let (s1, ok1) := scratch.tryAlloc (nRounds * scalarSize)
  let (s2, ok2) := s1.tryAlloc (gLen * scalarSize)
  let (s3, ok3) := s2.tryAlloc (hLen * scalarSize)
  let (s4, ok4) := s3.tryAlloc (logGLen * scalarSize)
  let restored : Scratch := { s4 with allocSize := checkpoint }     -- apply_checkpoint
  if !(ok1 && ok2 && ok3 && ok4) then (0, restored) else
  match verifyEquation proof transcript rho gens gLen cVec commit nRounds logGLen n l with
  | none => (0, restored)
  | some (res1, res2) => (if res1 = res2 then 1 else 0, restored)

end Bppp
end SecpZkp
