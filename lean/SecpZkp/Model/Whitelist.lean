import SecpZkp.Model.Borromean
import SecpZkp.Model.Ecdsa
/-
  Whitelist ring signatures (modules/whitelist/main_impl.h, whitelist_impl.h), transcribed from the
  code AS IT IS.  In particular `verify` has no lower bound on the number of keys: with an empty key
  list no scalar is inspected and `Borromean.verify` over one ring of size 0 degenerates to
  `e0 == SHA256(msg32)` (finding F1).

  Public-key objects are `Pt` (never the all-zero object here: the harness refuses `Z` tokens for this
  family, since `secp256k1_pubkey_load`'s failure is ignored by the C code and the arithmetic then
  runs on the off-curve pair (0,0), which is not modelled).
  The key arrays `online_pubkeys` / `offline_pubkeys` are lists of equal length `n_keys`.
-/
namespace SecpZkp
namespace Whitelist

/-- `SECP256K1_WHITELIST_MAX_N_KEYS` -/
def maxKeys : Nat := 255

/-- `secp256k1_whitelist_signature`: `n_keys` and the first `32 * (1 + n_keys)` bytes of `data`
    (`e0 ‖ s_0 ‖ … ‖ s_{n-1}`); the remaining bytes of the C array are never read. -/
structure Sig where
  nKeys : Nat
  data : Bytes
deriving Repr, DecidableEq

def Sig.e0 (sig : Sig) : Bytes := sig.data.take 32
/-- the 32 bytes `&sig->data[32 * (i + 1)]` -/
def Sig.sBytes (sig : Sig) (i : Nat) : Bytes := (sig.data.drop (32 * (i + 1))).take 32

/-- `secp256k1_whitelist_hash_pubkey`: SHA256 of the compressed encoding as a scalar; fails on
    infinity, overflow or zero. -/
def hashPubkey (p : Pt) : Option Nat :=
  match p with
  | .inf => none
  | q =>
    let (t, ov) := Sc.setB32 (Sha256.sha256 (Codec.serialize33 q))
    if ov ∨ t = 0 then none else some t

/-- `secp256k1_whitelist_tweak_pubkey`: `p ↦ H(p)·p`; on failure the point is left as it is (the
    caller ignores the return value). -/
def tweakPubkey (p : Pt) : Pt :=
  match hashPubkey p with
  | some t => Pt.mul t p
  | none => p

/-- `secp256k1_whitelist_compute_tweaked_privkey`: `online + H(summed·G)·summed`. -/
def computeTweakedPrivkey (onlineKey summedKey : Bytes) : Option Nat :=
  let (sk, ov) := Sc.setB32 summedKey
  if ov ∨ sk = 0 then none else
  match hashPubkey (Pt.mulG sk) with
  | none => none
  | some tweak =>
    let (sonline, ov2) := Sc.setB32 onlineKey
    if ov2 ∨ sonline = 0 then none else
    -- finding F2 (fixed in /repo): a tweaked secret of zero makes the signer's ring key the point at
    -- infinity, for which no verifying signature exists; signing must refuse instead of returning 1
    let r := Sc.add (Sc.mul sk tweak) sonline
    if r = 0 then none else some r

/-- ring key `online + H(offline + sub)·(offline + sub)` -/
def ringKey (online offline sub : Pt) : Pt :=
  Pt.add (tweakPubkey (Pt.add offline sub)) online

/-- `secp256k1_whitelist_compute_keys_and_message` (always returns 1):
    `msg32 = SHA256(ser33(sub) ‖ ser33(offline_0) ‖ ser33(online_0) ‖ …)` and the ring keys. -/
def computeKeysAndMessage (online offline : List Pt) (sub : Pt) : Bytes × List Pt :=
  let pairs := List.zip offline online
  let sha := pairs.foldl (fun h (off, on) => Sha256.write (Sha256.write h (Codec.serialize33 off)) (Codec.serialize33 on))
    (Sha256.write Sha256.init (Codec.serialize33 sub))
  (Sha256.finalize sha, pairs.map (fun (off, on) => ringKey on off sub))

/-- `msg32[0] ^= i + 1; msg32[1] ^= (i + 1) / 0x100;` -/
def xorIndex (msg : Bytes) (i : Nat) : Bytes :=
  match msg with
  | b0 :: b1 :: rest => (b0 ^^^ UInt8.ofNat (i + 1)) :: (b1 ^^^ UInt8.ofNat ((i + 1) / 0x100)) :: rest
  | m => m

/-- the inner `for` loop of the nonce derivation: forged scalars `s_i` for `i = from, …`; `none` as
    soon as one overflows or is zero (`done = 0`). -/
def deriveS (msg32 seckey32 : Bytes) (count : Nat) : (todo i : Nat) → Option (List Nat)
  | 0, _ => some []
  | todo + 1, i =>
    match Ecdsa.rfc6979Nonce (xorIndex msg32 i) seckey32 none none count with
    | none => none
    | some b =>
      let (s, ov) := Sc.setB32 b
      if ov ∨ s = 0 then none else
      match deriveS msg32 seckey32 count todo (i + 1) with
      | none => none
      | some rest => some (s :: rest)

/-- the `while (1)` loop: nonce and forged scalars from RFC 6979 with a shared retry counter. -/
def nonceLoop : (fuel : Nat) → (msg32 seckey32 : Bytes) → (nKeys count : Nat) → Option (Nat × List Nat)
  | 0, _, _, _, _ => none
  | fuel + 1, msg32, seckey32, nKeys, count =>
    match Ecdsa.rfc6979Nonce msg32 seckey32 none none count with
    | none => none
    | some nonce32 =>
      let (non, ov) := Sc.setB32 nonce32
      if ov ∨ non = 0 then nonceLoop fuel msg32 seckey32 nKeys (count + 1) else
      match deriveS msg32 seckey32 count nKeys 0 with
      | some s => some (non, s)
      | none => nonceLoop fuel msg32 seckey32 nKeys (count + 1)

/-- serialized contents of `sig->data` after a successful signature -/
def sigData (e0 : Bytes) (s : List Nat) : Bytes := e0 ++ (s.map Bytes.be32).flatten

/-- The part of `secp256k1_whitelist_sign` after the nonce derivation, with the nonce and the forged
    scalars as parameters (used by `sign` and, with chosen values, by the Lean-only op `wl_mk_adv`). -/
def signWith (msg32 : Bytes) (pubs : List Pt) (sec non : Nat) (s : List Nat) (index : Nat) : Option Sig :=
  match Borromean.sign s pubs [non] [sec] [pubs.length] [index] msg32 with
  | none => none
  | some (e0, sOut) => some ⟨pubs.length, sigData e0 sOut⟩

/-- `secp256k1_whitelist_sign`: (ret, signature on success, illegal callbacks). -/
def sign (online offline : List Pt) (sub : Pt) (onlineSeckey summedSeckey : Bytes) (index : Nat) : Ret (Option Sig) :=
  let nKeys := online.length
  if nKeys > maxKeys then ⟨0, none, 1⟩ else      -- ARG_CHECK(n_keys <= MAX_KEYS)
  if ¬ index < nKeys then ⟨0, none, 1⟩ else       -- ARG_CHECK(index < n_keys)
  let (msg32, pubs) := computeKeysAndMessage online offline sub
  match computeTweakedPrivkey onlineSeckey summedSeckey with
  | none => ⟨0, none, 0⟩
  | some sec =>
    match nonceLoop 128 msg32 (Bytes.be32 sec) nKeys 0 with
    | none => ⟨0, none, 0⟩
    | some (non, s) =>
      match signWith msg32 pubs sec non s index with
      | none => ⟨0, none, 0⟩
      | some sig => ⟨1, some sig, 0⟩

/-- the scalar-reading loop of verify: every `s_i` must be non-zero and below the group order -/
def readScalars (sig : Sig) : (todo i : Nat) → Option (List Nat)
  | 0, _ => some []
  | todo + 1, i =>
    let (s, ov) := Sc.setB32 (sig.sBytes i)
    if ov ∨ s = 0 then none else
    match readScalars sig todo (i + 1) with
    | none => none
    | some rest => some (s :: rest)

/-- `secp256k1_whitelist_verify`. An empty key list is rejected (finding F1: before the `fix:` commit in
    /repo the C code had no such check and accepted a forgery computable from public data). -/
def verify (sig : Sig) (online offline : List Pt) (sub : Pt) : Nat :=
  let nKeys := online.length
  if sig.nKeys = 0 ∨ sig.nKeys > maxKeys ∨ sig.nKeys ≠ nKeys then 0 else
  match readScalars sig sig.nKeys 0 with
  | none => 0
  | some s =>
    let (msg32, pubs) := computeKeysAndMessage online offline sub
    if (Borromean.verify sig.e0 s pubs [sig.nKeys] msg32).1 then 1 else 0

/-- `secp256k1_whitelist_signature_parse`: (ret, value stored into `sig->n_keys` if any, signature).
    `n_keys` is written before the length check, so it is set even when parsing fails. -/
def parse (input : Bytes) : Nat × Option Nat × Option Sig :=
  match input with
  | [] => (0, none, none)
  | b :: rest =>
    let n := b.toNat
    if n > maxKeys ∨ input.length ≠ 1 + 32 * (n + 1) then (0, some n, none)
    else (1, some n, some ⟨n, rest⟩)

/-- `secp256k1_whitelist_signature_serialize` with the `*output_len` contract: (ret, bytes written to
    the front of the buffer, new `*output_len`); nothing is touched on failure. -/
def serialize (sig : Sig) (outputLen : Nat) : Nat × Bytes × Nat :=
  let need := 1 + 32 * (sig.nKeys + 1)
  if outputLen < need then (0, [], outputLen)
  else (1, UInt8.ofNat sig.nKeys :: sig.data.take (32 * (sig.nKeys + 1)), need)

end Whitelist
end SecpZkp
