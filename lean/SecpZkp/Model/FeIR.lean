import SecpZkp.Model.Field
import SecpZkp.Model.MiniC
/-
  FeIR: the group-level C functions (src/group_impl.h: gej_double, gej_add_ge, gej_add_var, …) as programs over
  FIELD VALUES.  `tools/c2lean_f.py` (translator mode F) regenerates `Gen/F_group.lean` from clang's AST of the current
  sources: every call of a field primitive (`secp256k1_fe_mul`, `_sqr`, `_add`, `_negate`, `_mul_int`, `_half`,
  `_cmov`, `_normalizes_to_zero`, …) becomes one `Stmt`, integer flags (`infinity`, `degenerate`) are MiniC expressions.

  The semantics tracks, next to the value mod p, the MAGNITUDE of every field variable exactly as src/field.h
  specifies it, and execution FAILS (returns `none`) when a call violates the documented precondition of the
  primitive (e.g. `fe_mul` on a magnitude above 8): this is the VERIFY build's run-time check turned into a static
  obligation.  Value semantics of each primitive = the limb-level theorems of `Props/C05_field*`, `C05_fieldlin`.
-/
namespace SecpZkp
namespace FeIR
open MiniC

/-- a field variable: value (a natural number < p in canonical form is NOT required; arithmetic is mod p) and magnitude -/
structure FeVal where
  val : Nat
  mag : Nat
deriving Repr, DecidableEq, Inhabited

abbrev FeEnv := List (String × FeVal)

def FeEnv.get (e : FeEnv) (x : String) : FeVal :=
  match e.find? (·.1 == x) with
  | some p => p.2
  | none => ⟨0, 0⟩

def FeEnv.set (e : FeEnv) (x : String) (v : FeVal) : FeEnv :=
  (x, v) :: e.filter (·.1 != x)

inductive Stmt where
  | set (dst src : String)                     -- `*dst = *src` (struct copy of a field element)
  | setInt (dst : String) (n : Nat)            -- secp256k1_fe_set_int (0 ≤ n ≤ 0x7FFF): magnitude (n ≠ 0), normalized
  | clear (dst : String)                       -- secp256k1_fe_clear / memset: value 0, magnitude 0
  | const (dst : String) (n : Nat)             -- a file-scope SECP256K1_FE_CONST object (normalized, magnitude 1)
  | mul (dst a b : String)                     -- needs mag a, mag b ≤ 8; result magnitude 1
  | sqr (dst a : String)                       -- needs mag a ≤ 8; result magnitude 1
  | add (dst a : String)                       -- dst += a; needs mag dst + mag a ≤ 32
  | neg (dst a : String) (m : Nat)             -- dst = -a; needs mag a ≤ m ≤ 31; result magnitude m + 1
  | mulInt (dst : String) (k : Nat)            -- dst *= k; needs k ≤ 32 and mag · k ≤ 32
  | addInt (dst : String) (k : Nat)            -- dst += k; needs 0 ≤ k ≤ 0x7FFF, magnitude + 1 ≤ 32
  | half (dst : String)                        -- needs mag ≤ 31; result (mag >> 1) + 1
  | norm (dst : String)                        -- normalize / normalize_var / normalize_weak: value unchanged, magnitude 1
  | cmov (dst src : String) (flag : Expr)      -- constant-time move if flag (0/1); magnitude = max
  | isZero (x : String) (f : String)           -- x := secp256k1_fe_normalizes_to_zero(f)   (any magnitude ≤ 32)
  | isOdd (x : String) (f : String)            -- x := secp256k1_fe_is_odd(f) (f normalized: magnitude ≤ 1)
  | equal (x : String) (f g : String)          -- x := secp256k1_fe_equal(f, g) (mag f ≤ 1, mag g ≤ 31)
  | int (x : String) (e : Expr)                -- integer assignment (flags)
  | ite (c : Expr) (t e : List Stmt)
  | scope (body : List Stmt)                   -- an inlined callee: a `ret` inside ends the callee only
  | inv (dst a : String)                       -- secp256k1_fe_inv / _inv_var (safegcd, NOT translated): needs mag a ≤ 8; normalized result
  | isSquare (x : String) (f : String)         -- x := secp256k1_fe_is_square_var(f) (Jacobi symbol via safegcd, NOT translated)
  | ret
deriving Repr

structure State where
  fe : FeEnv
  ints : Env
  returned : Bool := false

def canon (v : Nat) : Nat := v % P

mutual
/-- one statement; `none` = a documented precondition of a field primitive is violated -/
def execS (st : State) : Stmt → Option State
  | .set d s => some { st with fe := st.fe.set d (st.fe.get s) }
  | .setInt d n => if n ≤ 0x7FFF then some { st with fe := st.fe.set d ⟨n, if n = 0 then 0 else 1⟩ } else none
  | .clear d => some { st with fe := st.fe.set d ⟨0, 0⟩ }
  | .const d n => if n < P then some { st with fe := st.fe.set d ⟨n, 1⟩ } else none
  | .mul d a b =>
    let x := st.fe.get a; let y := st.fe.get b
    if x.mag ≤ 8 ∧ y.mag ≤ 8 then some { st with fe := st.fe.set d ⟨Fe.mul x.val y.val, 1⟩ } else none
  | .sqr d a =>
    let x := st.fe.get a
    if x.mag ≤ 8 then some { st with fe := st.fe.set d ⟨Fe.sqr x.val, 1⟩ } else none
  | .add d a =>
    let x := st.fe.get d; let y := st.fe.get a
    if x.mag + y.mag ≤ 32 then some { st with fe := st.fe.set d ⟨Fe.add x.val y.val, x.mag + y.mag⟩ } else none
  | .neg d a m =>
    let x := st.fe.get a
    if x.mag ≤ m ∧ m ≤ 31 then some { st with fe := st.fe.set d ⟨Fe.neg x.val, m + 1⟩ } else none
  | .mulInt d k =>
    let x := st.fe.get d
    if k ≤ 32 ∧ x.mag * k ≤ 32 then some { st with fe := st.fe.set d ⟨Fe.mul x.val k, x.mag * k⟩ } else none
  | .addInt d k =>
    let x := st.fe.get d
    if k ≤ 0x7FFF ∧ x.mag + 1 ≤ 32 then some { st with fe := st.fe.set d ⟨Fe.add x.val k, x.mag + 1⟩ } else none
  | .half d =>
    let x := st.fe.get d
    if x.mag ≤ 31 then some { st with fe := st.fe.set d ⟨Fe.half (canon x.val), x.mag / 2 + 1⟩ } else none
  | .norm d =>
    let x := st.fe.get d
    if x.mag ≤ 32 then some { st with fe := st.fe.set d ⟨canon x.val, 1⟩ } else none
  | .cmov d s flag =>
    let x := st.fe.get d; let y := st.fe.get s
    let f := evalEI st.ints flag
    if f ≤ 1 then some { st with fe := st.fe.set d ⟨if f = 1 then y.val else x.val, max x.mag y.mag⟩ } else none
  | .isZero x f =>
    let v := st.fe.get f
    if v.mag ≤ 32 then some { st with ints := st.ints.set x 0 (if canon v.val = 0 then 1 else 0) } else none
  | .isOdd x f =>
    let v := st.fe.get f
    if v.mag ≤ 1 then some { st with ints := st.ints.set x 0 (canon v.val % 2) } else none
  | .equal x f g =>
    let v := st.fe.get f; let w := st.fe.get g
    if v.mag ≤ 1 ∧ w.mag ≤ 31 then some { st with ints := st.ints.set x 0 (if canon v.val = canon w.val then 1 else 0) } else none
  | .int x e => some { st with ints := st.ints.set x 0 (evalEI st.ints e) }
  | .ite c t e => if evalEI st.ints c ≠ 0 then execL st t else execL st e
  | .scope body =>
    match execL st body with
    | none => none
    | some st' => some { st' with returned := st.returned }
  | .inv d a =>
    let x := st.fe.get a
    if x.mag ≤ 8 then some { st with fe := st.fe.set d ⟨Fe.inv (canon x.val), 1⟩ } else none
  | .isSquare x f =>
    let v := st.fe.get f
    if v.mag ≤ 32 then some { st with ints := st.ints.set x 0 (if Fe.isSquare (canon v.val) then 1 else 0) } else none
  | .ret => some { st with returned := true }

def execL (st : State) : List Stmt → Option State
  | [] => some st
  | s :: rest =>
    if st.returned then some st else
    match execS st s with
    | none => none
    | some st' => execL st' rest
end

structure Fn where
  name : String
  body : List Stmt
deriving Repr

end FeIR
end SecpZkp
