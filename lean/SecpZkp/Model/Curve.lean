import SecpZkp.Model.Field
/-
  The curve y^2 = x^3 + 7 over F_p: affine points with the textbook chord-and-tangent law (the
  specification `padd`/`pmulSpec`), and a Jacobian double-and-add `pmul` used for execution.
-/
namespace SecpZkp

inductive Pt where
  | inf
  | aff (x y : Nat)
deriving DecidableEq, Repr, Inhabited

namespace Pt

def Gx : Nat := 0x79BE667EF9DCBBAC55A06295CE870B07029BFCDB2DCE28D959F2815B16F81798
def Gy : Nat := 0x483ADA7726A3C4655DA4FBFC0E1108A8FD17B448A68554199C47D08FFB10D4B8
def G : Pt := aff Gx Gy

def isInf : Pt → Bool
  | inf => true
  | _ => false

/-- `x,y < p` and `y^2 = x^3 + 7`. -/
def onCurveXY (x y : Nat) : Bool := x < P && y < P && (Fe.sqr y == Fe.add (Fe.mul (Fe.sqr x) x) 7)

def valid : Pt → Bool
  | inf => true
  | aff x y => onCurveXY x y

def neg : Pt → Pt
  | inf => inf
  | aff x y => aff x (Fe.neg y)

def dbl : Pt → Pt
  | inf => inf
  | aff x y =>
      if y % P = 0 then inf else
      let l := Fe.mul (Fe.mul 3 (Fe.sqr x)) (Fe.inv (Fe.mul 2 y))
      let x3 := Fe.sub (Fe.sqr l) (Fe.mul 2 x)
      let y3 := Fe.sub (Fe.mul l (Fe.sub x x3)) y
      aff x3 y3

/-- Affine group law (specification). -/
def add : Pt → Pt → Pt
  | inf, q => q
  | p, inf => p
  | aff x1 y1, aff x2 y2 =>
      if x1 = x2 then
        if (y1 + y2) % P = 0 then inf else dbl (aff x1 y1)
      else
        let l := Fe.mul (Fe.sub y2 y1) (Fe.inv (Fe.sub x2 x1))
        let x3 := Fe.sub (Fe.sub (Fe.sqr l) x1) x2
        let y3 := Fe.sub (Fe.mul l (Fe.sub x1 x3)) y1
        aff x3 y3

def sub (p q : Pt) : Pt := add p (neg q)

/-- Specification of scalar multiplication: affine double-and-add, most significant bit first. -/
def mulSpecAux : Nat → Nat → Pt → Pt
  | 0, _, _ => inf
  | fuel + 1, k, p =>
      if k = 0 then inf else
      let h := dbl (mulSpecAux fuel (k / 2) p)
      if k % 2 = 1 then add h p else h

def mulSpec (k : Nat) (p : Pt) : Pt := mulSpecAux 264 k p

/-! ### Jacobian coordinates (execution speed; proved equal to the affine law in `Proofs/`) -/

structure Jac where
  x : Nat
  y : Nat
  z : Nat
deriving Repr

namespace Jac

def infinity : Jac := ⟨1, 1, 0⟩

def ofPt : Pt → Jac
  | .inf => infinity
  | .aff x y => ⟨x, y, 1⟩

def toPt (j : Jac) : Pt :=
  if j.z % P = 0 then .inf else
  let zi := Fe.inv j.z
  let zi2 := Fe.sqr zi
  .aff (Fe.mul j.x zi2) (Fe.mul j.y (Fe.mul zi2 zi))

/-- Doubling for a = 0. -/
def dbl (p : Jac) : Jac :=
  if p.z % P = 0 ∨ p.y % P = 0 then infinity else
  let a := Fe.sqr p.x
  let b := Fe.sqr p.y
  let c := Fe.sqr b
  let d := Fe.mul 2 (Fe.sub (Fe.sub (Fe.sqr (Fe.add p.x b)) a) c)
  let e := Fe.mul 3 a
  let f := Fe.sqr e
  let x3 := Fe.sub f (Fe.mul 2 d)
  let y3 := Fe.sub (Fe.mul e (Fe.sub d x3)) (Fe.mul 8 c)
  let z3 := Fe.mul 2 (Fe.mul p.y p.z)
  ⟨x3, y3, z3⟩

/-- Mixed addition of a Jacobian point and an affine point `(x2, y2)`. -/
def addAff (p : Jac) (x2 y2 : Nat) : Jac :=
  if p.z % P = 0 then ⟨x2, y2, 1⟩ else
  let z1z1 := Fe.sqr p.z
  let u2 := Fe.mul x2 z1z1
  let s2 := Fe.mul y2 (Fe.mul p.z z1z1)
  let h := Fe.sub u2 p.x
  let r := Fe.sub s2 p.y
  if h = 0 then
    if r = 0 then dbl p else infinity
  else
    let hh := Fe.sqr h
    let hhh := Fe.mul h hh
    let v := Fe.mul p.x hh
    let x3 := Fe.sub (Fe.sub (Fe.sqr r) hhh) (Fe.mul 2 v)
    let y3 := Fe.sub (Fe.mul r (Fe.sub v x3)) (Fe.mul p.y hhh)
    let z3 := Fe.mul p.z h
    ⟨x3, y3, z3⟩

def mulAux : Nat → Nat → Nat → Nat → Jac
  | 0, _, _, _ => infinity
  | fuel + 1, k, x, y =>
      if k = 0 then infinity else
      let h := dbl (mulAux fuel (k / 2) x y)
      if k % 2 = 1 then addAff h x y else h

end Jac

/-- Scalar multiplication `k • p` (executed in Jacobian coordinates). -/
def mul (k : Nat) : Pt → Pt
  | inf => inf
  | aff x y => (Jac.mulAux 264 k x y).toPt

def mulG (k : Nat) : Pt := mul k G

/-- x-coordinate (0 for infinity, never used there). -/
def xOf : Pt → Nat
  | inf => 0
  | aff x _ => x
def yOf : Pt → Nat
  | inf => 0
  | aff _ y => y

def hasEvenY : Pt → Bool
  | inf => false
  | aff _ y => y % 2 = 0

/-- `secp256k1_ge_set_xo_var`: the point with abscissa `x` and the requested parity of y. -/
def liftX (x : Nat) (odd : Bool) : Option Pt :=
  match Fe.sqrt (Fe.add (Fe.mul (Fe.sqr x) x) 7) with
  | none => none
  | some y => some (aff (x % P) (if Fe.isOdd y = odd then y else Fe.neg y))

/-- `secp256k1_ge_set_xquad`: the point with abscissa `x` whose y is a quadratic residue (the
    root returned by `a^((p+1)/4)` is itself a square since p ≡ 3 mod 4). -/
def liftXQuad (x : Nat) : Option Pt :=
  match Fe.sqrt (Fe.add (Fe.mul (Fe.sqr x) x) 7) with
  | none => none
  | some y => some (aff (x % P) y)

def sum (ps : List Pt) : Pt := ps.foldl add inf

end Pt
end SecpZkp
