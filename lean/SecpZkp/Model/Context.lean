import SecpZkp.Model.Keys
/-
  Context objects (`secp256k1_context`): the only state a context carries that computations read is
  the blinding of the fixed-base multiplication (`secp256k1_ecmult_gen_context`: `scalar_offset`,
  `ge_offset`, `proj_blind`) and the SHA-256 compression function pointer.

  The comb computes `comb(d) = (d - diff)·G` with `diff = (2^COMB_BITS - 1)/2`; we store the offset
  normalised as `so = scalar_offset - diff`, so that `ecmult_gen ctx k = (k + so)·G + go`.
  `COMB_BITS` (a build-time constant) only enters through the bytes hashed when re-blinding.
-/
namespace SecpZkp
namespace Context

structure GenCtx where
  so : Nat          -- scalar_offset - diff  (mod n)
  go : Pt           -- ge_offset
  projBlind : Nat
deriving Repr

/-- `secp256k1_ecmult_gen_scalar_diff` for a given COMB_BITS -/
def diff (combBits : Nat) : Nat := Sc.add (2 ^ (combBits - 1) % N) (Sc.neg (Sc.half 1))

/-- `secp256k1_ecmult_gen` with blinding -/
def ecmultGen (c : GenCtx) (k : Nat) : Pt := Pt.add (Pt.mulG (Sc.add k c.so)) c.go

/-- `secp256k1_ecmult_gen_blind` -/
def blind (combBits : Nat) (c : GenCtx) (seed : Option Bytes) : GenCtx :=
  match seed with
  | none => ⟨1, Pt.neg Pt.G, 1⟩
  | some s =>
    let keydata := Bytes.be32 (Sc.add c.so (diff combBits)) ++ s
    let rng := Sha256.rfc6979Init keydata
    let (n1, rng) := Sha256.rfc6979Generate rng 32
    let f0 := Bytes.toNat n1 % P
    let f := if f0 = 0 then 1 else f0
    let (n2, _) := Sha256.rfc6979Generate rng 32
    let b0 := Bytes.toNat n2 % N
    let b := if b0 = 0 then 1 else b0
    ⟨Sc.neg b, ecmultGen c b, f⟩

/-- a freshly created context (`secp256k1_ecmult_gen_context_build` = blind with NULL seed) -/
def fresh : GenCtx := ⟨1, Pt.neg Pt.G, 1⟩

/-- operations of a context history that touch the blinding state -/
inductive Op where
  | create | prealloc | clone | pclone
  | randomize (seed : Option Bytes)
  | setSha | resetSha
  | call | state | destroy

def step (combBits : Nat) (c : GenCtx) : Op → GenCtx
  | .create => fresh
  | .prealloc => fresh
  | .randomize seed => blind combBits c seed
  | _ => c

def run (combBits : Nat) (ops : List Op) : GenCtx := ops.foldl (step combBits) fresh

/-- The invariant that makes every result independent of the history: the offsets cancel. -/
def Balanced (c : GenCtx) : Prop := Pt.add (Pt.mulG c.so) c.go = Pt.inf

/-- API entry points (by protocol op name) that need a built `ecmult_gen` context; with the static
    context they must raise exactly the illegal-argument callback, all others must behave as with a
    full context. -/
def needsGen (op : String) (args : List String) : Bool :=
  match op with
  | "pubkey_create" | "keypair_create" | "ecdsa_sign" | "ecdsa_sign_rec" | "schnorr_sign" | "pedersen_commit"
  | "ellswift_create" | "adaptor_encrypt" | "s2c_sign" | "ae_sign" | "ae_signer_commit" | "rangeproof_sign"
  | "wl_sign" | "key_chain" | "musig_nonce_gen" | "musig_nonce_gen_counter" | "adaptor_recover"
  | "rangeproof_rewind" | "ha_aggverify" | "surj_generate" => true
  | "generator_generate" => args.getD 1 "_" != "_"
  | _ => false

end Context
end SecpZkp
