/-
  Bytes: byte strings as `List UInt8`, hex codec for the line protocol, big-endian integer codecs.
  Core Lean only (no Mathlib) so that the driver links as a `lean_exe`.
-/
namespace SecpZkp

abbrev Byte := UInt8
abbrev Bytes := List UInt8

namespace Bytes

def hexDigit (n : Nat) : Char :=
  if n < 10 then Char.ofNat (48 + n) else Char.ofNat (87 + n)

def toHex (bs : Bytes) : String :=
  String.ofList (bs.foldr (fun b acc => hexDigit (b.toNat / 16) :: hexDigit (b.toNat % 16) :: acc) [])

def hexVal (c : Char) : Option Nat :=
  let n := c.toNat
  if 48 ≤ n ∧ n ≤ 57 then some (n - 48)
  else if 97 ≤ n ∧ n ≤ 102 then some (n - 87)
  else if 65 ≤ n ∧ n ≤ 70 then some (n - 55)
  else none

def ofHexChars : List Char → Option Bytes
  | [] => some []
  | [_] => none
  | a :: b :: rest => do
      let x ← hexVal a
      let y ← hexVal b
      let r ← ofHexChars rest
      pure (UInt8.ofNat (16 * x + y) :: r)

/-- "-" denotes the empty byte string in the line protocol. -/
def ofHex (s : String) : Option Bytes :=
  if s = "-" then some [] else ofHexChars s.toList

def toHexP (bs : Bytes) : String := if bs.isEmpty then "-" else toHex bs

/-- Big-endian value of a byte string. -/
def toNat (bs : Bytes) : Nat := bs.foldl (fun acc b => acc * 256 + b.toNat) 0

/-- Big-endian encoding of `x` in exactly `len` bytes (`x` is reduced mod 256^len). -/
def ofNat : (len : Nat) → Nat → Bytes
  | 0, _ => []
  | len + 1, x => UInt8.ofNat (x / 256 ^ len % 256) :: ofNat len x

def be32 (x : Nat) : Bytes := ofNat 32 x
def be4 (x : Nat) : Bytes := ofNat 4 x
def be8 (x : Nat) : Bytes := ofNat 8 x

/-- Little-endian 8 bytes -/
def le8 (x : Nat) : Bytes := (ofNat 8 x).reverse

def zeros (n : Nat) : Bytes := List.replicate n 0

def isZero (bs : Bytes) : Bool := bs.all (· == 0)

def xor (a b : Bytes) : Bytes := List.zipWith (· ^^^ ·) a b

/-- Lexicographic comparison as memcmp: -1, 0, 1 (as Int sign). -/
def cmp : Bytes → Bytes → Int
  | [], [] => 0
  | [], _ => -1
  | _, [] => 1
  | a :: as, b :: bs => if a < b then -1 else if b < a then 1 else cmp as bs

end Bytes
end SecpZkp
