import SecpZkp.Proofs.BorromeanSurjection
/-
  C11 (part "complete"): a surjection proof generated with matching blinding keys verifies against the same ephemeral
  tags.  Closed form (uses `groupLaw`); SHA-256 and the point codec are treated as opaque.
-/
namespace SecpZkp
namespace Surjection
open SecpZkp.Algebra

/-- What a successful `Surjection.generate` did. -/
theorem generate_success {proof : Proof} {inputs : List Pt} {output : Pt} {inputIndex : Nat}
    {inKey outKey : Bytes}
    (hret : (generate proof inputs output inputIndex inKey outKey).ret = 1) :
    0 < nUsedInputs proof ∧ nUsedInputs proof ≤ proof.nInputs ∧ proof.nInputs = inputs.length ∧
    (inputs.any (fun t => t = output)) = false ∧
    ∃ bs e0 sOut,
      genRandAll (nUsedInputs proof) (Sc.add (Sc.setB32 outKey).1 (Sc.neg (Sc.setB32 inKey).1)) = some bs ∧
      Borromean.sign (bs.set (computePublicKeys inputs proof.used output inputIndex).2 0)
        (computePublicKeys inputs proof.used output inputIndex).1
        [bs.getD (computePublicKeys inputs proof.used output inputIndex).2 0]
        [Sc.add (Sc.setB32 outKey).1 (Sc.neg (Sc.setB32 inKey).1)]
        [nUsedInputs proof] [(computePublicKeys inputs proof.used output inputIndex).2]
        (genMessage inputs output) = some (e0, sOut) ∧
      (generate proof inputs output inputIndex inKey outKey).out = writeSig proof e0 sOut := by
  generalize hr : generate proof inputs output inputIndex inKey outKey = r at hret ⊢
  unfold generate at hr
  generalize hpk : computePublicKeys inputs proof.used output inputIndex = pk at hr ⊢
  obtain ⟨ringPubkeys, ringInputIndex⟩ := pk
  simp only [] at hr ⊢
  split at hr
  · subst hr; simp at hret
  next h1 =>
  split at hr
  · subst hr; simp at hret
  next h2 =>
  split at hr
  · subst hr; simp at hret
  next h3 =>
  split at hr
  · subst hr; simp at hret
  next h4 =>
  split at hr
  · subst hr; simp at hret
  next h5 =>
  split at hr
  · subst hr; simp at hret
  next bs hbs =>
  split at hr
  · subst hr; simp at hret
  next e0 sOut hsig =>
  subst hr
  simp only [nTotalInputs] at h5
  refine ⟨by omega, by omega, by omega, Bool.eq_false_iff.mpr h4, bs, e0, sOut, hbs, hsig, rfl⟩

theorem nUsedInputs_writeSig (p : Proof) (e0 : Bytes) (s : List Nat) :
    nUsedInputs (writeSig p e0 s) = nUsedInputs p := rfl

/-- `Surjection.verify` once its guards are discharged and the scalars are read. -/
theorem verify_eq_of (p : Proof) (inputs : List Pt) (output : Pt) (s : List Nat)
    (h1 : nUsedInputs p ≠ 0) (h2 : nUsedInputs p ≤ p.nInputs) (h3 : p.nInputs = inputs.length)
    (h4 : nUsedInputs p ≤ MAX_USED_INPUTS) (hload : loadScalars p.data (nUsedInputs p) 0 = some s) :
    verify p inputs output =
      (Borromean.verify (p.data.take 32) s (computePublicKeys inputs p.used output 0).1 [nUsedInputs p]
        (genMessage inputs output)).1 := by
  unfold verify
  simp only [nTotalInputs]
  have hg1 : ¬ (nUsedInputs p = 0 ∨ nUsedInputs p > p.nInputs ∨ p.nInputs ≠ inputs.length) := by omega
  have hg2 : ¬ nUsedInputs p > MAX_USED_INPUTS := by omega
  rw [if_neg hg1, if_neg hg2, hload]

/-- **C11, completeness of `generate`.**  Let `inputs` (at most 256) and `output` be valid ephemeral asset tags, let
    the bitmap of `proof` select `inputIndex` (`testBit`) and contain no bit outside `0..nInputs-1` (`hwf`: the ring has
    exactly `n_used_inputs` keys — this is what `parse`/`initialize` guarantee), and let the blinding keys match:
    `output − inputs[inputIndex] = (output_key − input_key)•G`.  Assume moreover (`hnz`) that none of the forged
    scalars derived by `secp256k1_surjection_genrand` for the OTHER ring positions is zero.  If
    `secp256k1_surjectionproof_generate` returns 1 then `secp256k1_surjectionproof_verify` accepts the proof it wrote,
    for the same ephemeral tags.

    `hnz` is necessary: `genrand` only rejects scalars `≥ n`, the Borromean signer accepts a forged scalar 0 and the
    verifier rejects it (`Borromean.borromean_zero_forged_scalar`); it fails with probability about `2^-256` per
    position.  That no ring key is infinite follows from `generate`'s own check that no input tag equals the output. -/
theorem surjection_generate_complete (proof : Proof) (inputs : List Pt) (output : Pt) (inputIndex : Nat)
    (inKey outKey : Bytes) (t : Pt)
    (hn : inputs.length ≤ MAX_N_INPUTS)
    (hvin : ∀ p ∈ inputs, p.valid = true) (hvout : output.valid = true)
    (hidx : inputs[inputIndex]? = some t) (hbit : testBit proof.used inputIndex = true)
    (hwf : (computePublicKeys inputs proof.used output inputIndex).1.length = nUsedInputs proof)
    (hkey : Pt.add (Pt.neg t) output = Pt.mulG (Sc.add (Sc.setB32 outKey).1 (Sc.neg (Sc.setB32 inKey).1)))
    (hnz : ∀ bs, genRandAll (nUsedInputs proof) (Sc.add (Sc.setB32 outKey).1 (Sc.neg (Sc.setB32 inKey).1)) = some bs →
      ∀ j, j ≠ (computePublicKeys inputs proof.used output inputIndex).2 → bs[j]? ≠ some 0)
    (hret : (generate proof inputs output inputIndex inKey outKey).ret = 1) :
    verify (generate proof inputs output inputIndex inKey outKey).out inputs output = true := by
  have : HasGroupLaw := ⟨groupLaw⟩
  obtain ⟨hpos, hle, hnin, hany, bs, e0, sOut, hbs, hsig, hout⟩ := generate_success hret
  rw [hout]
  -- forged scalars
  obtain ⟨hbslen, hbsN⟩ := genRand_spec _ _ _ _ _ hbs
  -- ring keys
  have hP : ∀ p ∈ (computePublicKeys inputs proof.used output inputIndex).1, p ≠ .inf := by
    intro p hp
    obtain ⟨t', ht', rfl⟩ := go_mem _ _ _ _ _ _ _ _ hp
    apply sub_ne_inf (hvin t' ht') hvout
    intro h
    have : inputs.any (fun t => t = output) = true := List.any_eq_true.mpr ⟨t', ht', by simp [h]⟩
    rw [hany] at this; exact absurd this (by simp)
  have hpidx := computePublicKeys_index inputs proof.used output inputIndex t hbit hidx
  rw [hkey] at hpidx
  have hri : (computePublicKeys inputs proof.used output inputIndex).2 < nUsedInputs proof := by
    rw [← hwf]
    exact (List.getElem?_eq_some_iff.mp hpidx).1
  have hnonce : bs.getD (computePublicKeys inputs proof.used output inputIndex).2 0 < N := by
    rw [List.getD_eq_getElem?_getD]
    cases h : bs[(computePublicKeys inputs proof.used output inputIndex).2]? with
    | none => exact N_pos
    | some x => exact hbsN x (List.mem_of_getElem? h)
  have hcons : Borromean.Consistent (computePublicKeys inputs proof.used output inputIndex).1
      (bs.set (computePublicKeys inputs proof.used output inputIndex).2 0) 0
      [nUsedInputs proof] [(computePublicKeys inputs proof.used output inputIndex).2]
      [bs.getD (computePublicKeys inputs proof.used output inputIndex).2 0]
      [Sc.add (Sc.setB32 outKey).1 (Sc.neg (Sc.setB32 inKey).1)] := by
    unfold Borromean.Consistent
    refine ⟨hri, by omega, by simp [hbslen], Sc.add_lt _ _, hnonce, by simpa using hpidx, ?_, ?_⟩
    · intro j _ hj h0
      simp only [Nat.zero_add] at h0
      rw [List.getElem?_set_ne (Ne.symm hj)] at h0
      exact hnz bs hbs j hj h0
    · unfold Borromean.Consistent; trivial
  have hver := Borromean.borromean_complete _ _ _ _ _ _ _ _ _ hP hcons hsig
  -- reading the proof back
  obtain ⟨sv, _, hsvN, hsOut⟩ := Borromean.sign_single hsig
  have hsO : ∀ x ∈ sOut, x < N := by
    intro x hx
    rw [hsOut] at hx
    rcases List.mem_or_eq_of_mem_set hx with h | h
    · rcases List.mem_or_eq_of_mem_set h with h | h
      · exact hbsN x h
      · subst h; exact N_pos
    · subst h; exact hsvN
  have hsOlen : sOut.length = nUsedInputs proof := by rw [hsOut]; simpa using hbslen
  have he0 := Borromean.sign_e0_length hsig
  have hdata : (writeSig proof e0 sOut).data =
      e0 ++ ((sOut.map Bytes.be32).flatten ++ proof.data.drop (e0 ++ (sOut.map Bytes.be32).flatten).length) := by
    simp [writeSig]
  have hload : loadScalars (writeSig proof e0 sOut).data (nUsedInputs proof) 0 = some sOut := by
    rw [hdata, ← hsOlen]
    exact loadScalars_append _ sOut 0 e0 (by simp [he0]) hsO
  have htake : (writeSig proof e0 sOut).data.take 32 = e0 := by
    rw [hdata, List.take_left' he0]
  have hused : (writeSig proof e0 sOut).used = proof.used := rfl
  have hnin' : (writeSig proof e0 sOut).nInputs = proof.nInputs := rfl
  rw [verify_eq_of (writeSig proof e0 sOut) inputs output sOut
    (by rw [nUsedInputs_writeSig]; omega) (by rw [nUsedInputs_writeSig, hnin']; exact hle) (by rw [hnin']; exact hnin)
    (by rw [nUsedInputs_writeSig]; simp only [MAX_USED_INPUTS, MAX_N_INPUTS] at *; omega)
    (by rw [nUsedInputs_writeSig]; exact hload)]
  rw [nUsedInputs_writeSig, hused, computePublicKeys_fst inputs proof.used output 0 inputIndex, htake]
  exact hver


/-! ### Non-vacuity -/

/-- example instance: inputs `7•G`, `9•G`, both selected; output `12•G = 9•G + (5 − 2)•G`; the prover knows the input
    blinding key 2 and the output blinding key 5 for input 1 -/
def exInputs : List Pt := [Pt.mulG 7, Pt.mulG 9]
def exOutput : Pt := Pt.mulG 12
def exProof : Proof := ⟨2, 3 :: Bytes.zeros 31, Bytes.zeros DATA_BYTES⟩
def exInKey : Bytes := Bytes.be32 2
def exOutKey : Bytes := Bytes.be32 5

set_option maxRecDepth 100000 in
theorem ex_ret : (generate exProof exInputs exOutput 1 exInKey exOutKey).ret = 1 := by decide +kernel
set_option maxRecDepth 100000 in
theorem ex_valid : (∀ p ∈ exInputs, p.valid = true) ∧ exOutput.valid = true := by decide +kernel
set_option maxRecDepth 100000 in
theorem ex_wf : (computePublicKeys exInputs exProof.used exOutput 1).1.length = nUsedInputs exProof ∧
    (computePublicKeys exInputs exProof.used exOutput 1).2 = 1 ∧ nUsedInputs exProof = 2 := by decide +kernel
set_option maxRecDepth 100000 in
theorem ex_key : Pt.add (Pt.neg (Pt.mulG 9)) exOutput =
    Pt.mulG (Sc.add (Sc.setB32 exOutKey).1 (Sc.neg (Sc.setB32 exInKey).1)) := by decide +kernel
set_option maxRecDepth 100000 in
theorem ex_forged : (genRandAll 2 (Sc.add (Sc.setB32 exOutKey).1 (Sc.neg (Sc.setB32 exInKey).1))).map (fun bs => bs[0]?)
    ≠ some (some 0) := by decide +kernel

/-- Non-vacuity of `surjection_generate_complete`: every hypothesis holds for the example instance (two inputs, both
    in the ring, signer at ring position 1; `generate` evaluated by the kernel), hence the generated proof verifies. -/
example : verify (generate exProof exInputs exOutput 1 exInKey exOutKey).out exInputs exOutput = true := by
  refine surjection_generate_complete exProof exInputs exOutput 1 exInKey exOutKey (Pt.mulG 9) (by decide)
    ex_valid.1 ex_valid.2 rfl (by decide) ex_wf.1 ex_key ?_ ex_ret
  intro bs hbs j hj h0
  rw [ex_wf.2.1] at hj
  rw [ex_wf.2.2] at hbs
  have hlen := (genRand_spec _ _ _ _ _ hbs).1
  have hj0 : j = 0 := by
    have := (List.getElem?_eq_some_iff.mp h0).1
    omega
  subst hj0
  apply ex_forged
  rw [hbs]; simp [h0]

end Surjection
end SecpZkp
