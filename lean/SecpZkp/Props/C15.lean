import SecpZkp.Proofs.Adaptor
/-
  Property C15: "Sign-to-contract commitments and the anti-exfil protocol are sound and complete".

  Model: `Model/S2c.lean` (mirrors `src/modules/ecdsa_s2c/main_impl.h`), the hook inside
  `Ecdsa.signInner` (`secp256k1.c`), `Ecdsa.ecCommitTweak / ecCommit` (`eccommit_impl.h`).
  Closed form: the group law is the proved one (`groupLaw`).

  5. `s2c_complete` (and the nonce-function-generic `signInner_s2c_complete`)
  6. `signer_commit_eq`, `nonce_derivation_same_term`, `s2c_sign_succeeds`
  7. `host_verify_iff`, `host_verify_illegal`, `signer_commit_functional`
  8. `verify_commit_ignores_s`, `verify_commit_iff`

  What is NOT provable (and not claimed): that commitment verification *fails* for every other datum /
  opening / signature.  That is collision resistance of the tagged SHA-256, not a property of this code;
  `verify_commit_iff` states exactly what the check is, `verify_commit_ignores_s` that `s` plays no role.
-/
namespace SecpZkp
namespace C15
open SecpZkp.Algebra SecpZkp.C01 SecpZkp.AdaptorLemmas

local instance instGL : HasGroupLaw := ⟨groupLaw⟩

/-- The commitment hash `H(ser33(R) ‖ data)` continuing the tagged midstate `s2c/ecdsa/point`. -/
def commitHash (R : Pt) (data32 : Bytes) : Bytes :=
  Sha256.finalize (Sha256.write (Sha256.write S2c.tagPoint (Codec.serialize33 R)) data32)

theorem ecCommitTweak_eq {k0 : Nat} (hk0 : 0 < k0) (hk0N : k0 < N) (sha : Sha256.State) (data : Bytes) :
    Ecdsa.ecCommitTweak sha (Pt.mulG k0) data =
      some (Sha256.finalize (Sha256.write (Sha256.write sha (Codec.serialize33 (Pt.mulG k0))) data)) := by
  obtain ⟨x, y, h⟩ := mulG_eq_aff hk0 hk0N
  rw [h]; rfl

/-! ## 5. Sign-to-contract completeness -/

/-- **C15.5, generic form.**  For every retry bound, hook `(sha, data)`, message, key string, nonce
    function (default RFC 6979 or custom) and extra data: if `sign_inner` with the sign-to-contract hook
    returns 1 with signature `(r, s)`, then
    * `(r, s)` has low S and `ecdsa_verify` accepts it under the public key of the key string;
    * the exported opening is `k₀•G` for an untweaked nonce `0 < k₀ < n`;
    * `r = x(k₀•G + t•G) mod n` where `t` is the hash `H_sha(ser33(k₀•G) ‖ data)` read as a scalar;
    * `ec_commit` recomputed from the opening gives a point whose abscissa mod `n` is `r`. -/
theorem signInner_s2c_complete (fuel : Nat) (hook : Ecdsa.S2cHook) (msg32 seckey : Bytes)
    (noncefp : Option Ecdsa.NonceFn) (ndata : Option Bytes)
    (h : (Ecdsa.signInner fuel (some hook) msg32 seckey noncefp ndata).ret = 1) :
    let o := Ecdsa.signInner fuel (some hook) msg32 seckey noncefp ndata
    ¬ Sc.isHigh o.s = true ∧ (Keys.pubkeyCreate seckey).1 = 1 ∧
    (Ecdsa.verify (o.r, o.s) msg32 (Keys.pubkeyCreate seckey).2).ret = 1 ∧
    ∃ k0, 0 < k0 ∧ k0 < N ∧ o.opening = some (Pt.mulG k0) ∧
      let t := Bytes.toNat (Sha256.finalize
        (Sha256.write (Sha256.write hook.sha (Codec.serialize33 (Pt.mulG k0))) hook.data)) % N
      o.r = (Pt.add (Pt.mulG k0) (Pt.mulG t)).xOf % N ∧
      ∃ c, Ecdsa.ecCommit hook.sha (Pt.mulG k0) hook.data = some c ∧ c ≠ Pt.inf ∧ o.r = c.xOf % N := by
  simp only []
  obtain ⟨hlow, hpk, hver⟩ := signInner_verifies fuel (some hook) msg32 seckey noncefp ndata h
  refine ⟨hlow, hpk, hver, ?_⟩
  obtain ⟨k0, tw, k, hk0, hk0N, hop, htw, hadd, hsig, -⟩ := signInner_s2c_spec fuel hook msg32 seckey noncefp ndata h
  obtain ⟨hk, hkN, hsum, hcom⟩ := ecCommit_of_tweak hk0N htw hadd
  have hr := sigSign_r hsig
  rw [ecCommitTweak_eq hk0 hk0N] at htw
  cases htw
  refine ⟨k0, hk0, hk0N, hop, ?_, Pt.mulG k, hcom, mulG_ne_inf hk hkN, hr⟩
  show _ = (Pt.add (Pt.mulG k0) (Pt.mulG (Sc.setB32 _).1)).xOf % N
  rw [hsum]; exact hr

/-- `s2c_complete` for an arbitrary retry bound of the model (proof device, see `Proofs/Adaptor.lean` §J). -/
theorem signWith_complete (fuel : Nat) (msg32 seckey data32 : Bytes)
    (h : (signWith fuel msg32 seckey data32).ret = 1) :
    let res := signWith fuel msg32 seckey data32
    ¬ Sc.isHigh res.sig.2 = true ∧ (Keys.pubkeyCreate seckey).1 = 1 ∧
    (Ecdsa.verify res.sig msg32 (Keys.pubkeyCreate seckey).2).ret = 1 ∧
    ∃ k0, 0 < k0 ∧ k0 < N ∧ res.opening = some (Pt.mulG k0) ∧
      res.sig.1 = (Pt.add (Pt.mulG k0) (Pt.mulG (Bytes.toNat (commitHash (Pt.mulG k0) data32) % N))).xOf % N ∧
      S2c.verifyCommit res.sig data32 (Pt.mulG k0) = ⟨1, (), 0⟩ := by
  simp only []
  have h' : (Ecdsa.signInner fuel (some ⟨S2c.tagPoint, data32⟩) msg32 seckey none
      (some (S2c.dataHash data32))).ret = 1 := by
    unfold signWith at h
    simpa only [] using h
  have hc := signInner_s2c_complete fuel ⟨S2c.tagPoint, data32⟩ msg32 seckey none (some (S2c.dataHash data32)) h'
  simp only [] at hc
  obtain ⟨hlow, hpk, hver, k0, hk0, hk0N, hop, hr, c, hcom, hcne, hrc⟩ := hc
  unfold signWith
  simp only [h', if_true]
  refine ⟨hlow, hpk, hver, k0, hk0, hk0N, hop, hr, ?_⟩
  obtain ⟨x, y, hxy⟩ := mulG_eq_aff hk0 hk0N
  unfold S2c.verifyCommit
  rw [hxy] at hcom ⊢
  simp only [hcom, hrc, if_true]

/-- **C15.5 (`secp256k1_ecdsa_s2c_sign` is complete).**  For every message, key string and 32-byte datum
    (indeed any byte strings): if `ecdsa_s2c_sign` returns 1 with signature `sig` then
    * `sig` has low S and `ecdsa_verify sig msg (pubkey of the key)` returns 1;
    * the exported opening is `k₀•G`, `0 < k₀ < n` the untweaked nonce;
    * `sig.r = x(k₀•G + H(k₀•G, data)•G) mod n` (`commitHash`, the tagged hash `s2c/ecdsa/point`);
    * `ecdsa_s2c_verify_commit sig data opening` returns 1 (no callback). -/
theorem s2c_complete (msg32 seckey data32 : Bytes) (h : (S2c.sign msg32 seckey data32).ret = 1) :
    let res := S2c.sign msg32 seckey data32
    ¬ Sc.isHigh res.sig.2 = true ∧ (Keys.pubkeyCreate seckey).1 = 1 ∧
    (Ecdsa.verify res.sig msg32 (Keys.pubkeyCreate seckey).2).ret = 1 ∧
    ∃ k0, 0 < k0 ∧ k0 < N ∧ res.opening = some (Pt.mulG k0) ∧
      res.sig.1 = (Pt.add (Pt.mulG k0) (Pt.mulG (Bytes.toNat (commitHash (Pt.mulG k0) data32) % N))).xOf % N ∧
      S2c.verifyCommit res.sig data32 (Pt.mulG k0) = ⟨1, (), 0⟩ := by
  rw [sign_eq_signWith] at h ⊢
  exact signWith_complete 64 msg32 seckey data32 h

/-- The signature `(exR, exS)` that `sign_inner` with the hook `(s2c/ecdsa/point, be32 99)` produces for message
    `be32 12345`, key `be32 7` and the constant custom nonce 6 (see the next example). -/
def exR : Nat := 71118317325764650215335854893413795562220947073498829286638635515031952017774
def exS : Nat := 14122517961466133685742426394918669500595422331946843693013286179223389212915

/-- Non-vacuity of the generic form (constant custom nonce 6, so that no RFC 6979 runs in the kernel):
    `sign_inner` with the s2c hook returns 1, the signature is `(exR, exS)`, the opening `6•G`. -/
example :
    let o := Ecdsa.signInner 64 (some ⟨S2c.tagPoint, Bytes.be32 99⟩) (Bytes.be32 12345) (Bytes.be32 7)
      (some fun _ _ _ _ _ => some (Bytes.be32 6)) none
    o.ret = 1 ∧ o.r = exR ∧ o.s = exS ∧ o.opening = some (Pt.mulG 6) := by decide +kernel

/-- … and on that instance the commitment check passes for the datum and fails for another datum. -/
example : (S2c.verifyCommit (exR, exS) (Bytes.be32 99) (Pt.mulG 6)).ret = 1 ∧
    (S2c.verifyCommit (exR, exS) (Bytes.be32 98) (Pt.mulG 6)).ret = 0 := by decide +kernel

/-! ## 6. The signer's commitment is the opening of the later signature -/

/-- **C15.6a (same term).**  The nonce candidate that `ecdsa_anti_exfil_signer_commit` derives for retry
    counter `c` from the host commitment `hostCommit rho` and the candidate that the signing loop of
    `ecdsa_s2c_sign msg key rho` derives for the same counter are the same expression: RFC 6979 seeded with
    `key ‖ be32(msg mod n) ‖ H_data(rho)` (no algo16), output block `c + 1`. -/
theorem nonce_derivation_same_term (msg32 seckey rho : Bytes) (c : Nat) :
    Ecdsa.rfc6979Nonce msg32 seckey none (some (S2c.hostCommit rho)) c =
      Ecdsa.rfc6979Nonce msg32 seckey none (some (S2c.dataHash rho)) c ∧
    Ecdsa.rfc6979Nonce msg32 seckey none (some (S2c.dataHash rho)) c =
      some (Ecdsa.rfc6979Nonce.gen (c + 1)
        (Sha256.rfc6979Init (seckey ++ Bytes.be32 (Bytes.toNat msg32 % N) ++ S2c.dataHash rho ++ [])) []) :=
  ⟨rfl, rfl⟩

/-- `signer_commit_eq` for an arbitrary retry bound of the model (proof device). -/
theorem signer_commit_eq_fuel (fuel : Nat) (msg32 seckey rho : Bytes) (c k0 : Nat) (hc : c < fuel)
    (hinv : ∀ c', c' < c → InvalidAt msg32 seckey (S2c.hostCommit rho) c')
    (hval : ValidAt msg32 seckey (S2c.hostCommit rho) c k0)
    (hnoretry : retries ⟨S2c.tagPoint, rho⟩
      (if (Sc.setB32Seckey seckey).2 = true then (Sc.setB32Seckey seckey).1 else 1)
      (Bytes.toNat msg32 % N) k0 = false) :
    S2c.signerCommit fuel msg32 seckey (S2c.hostCommit rho) = some (Pt.mulG k0) ∧
    (signWith fuel msg32 seckey rho).opening = some (Pt.mulG k0) := by
  constructor
  · unfold S2c.signerCommit
    exact signerCommit_loop_first msg32 seckey _ k0 c 0 fuel (fun c' _ h => hinv c' (by omega))
      (by rw [Nat.zero_add]; exact hval) hc
  · unfold signWith
    simp only []
    unfold Ecdsa.signInner
    exact signInner_loop_first ⟨S2c.tagPoint, rho⟩ msg32 seckey (S2c.dataHash rho) _ _ _ k0 hnoretry c 0 fuel none
      (fun c' _ h => hinv c' (by omega)) (by rw [Nat.zero_add]; exact hval) hc

/-- **C15.6 (signer commit = opening).**  Let `c` be the first retry counter for which the RFC 6979
    candidate (extra data `H_data(rho)`) is a valid nonce and `k₀` that nonce (`hinv`: all candidates
    `c' < c` are 0 or `≥ n`; `hval`; cryptographically `c = 0`), with `c` below the model's retry bound 64.
    Under the explicit hypothesis `hnoretry` that the signing attempt with `k₀` is not sent back to the top
    of the loop because of `r = 0` or `s = 0` (`retries … = false`; the cryptographically unreachable case),
    the opening returned by `ecdsa_anti_exfil_signer_commit msg key (host_commit rho)` equals the opening
    exported by `ecdsa_s2c_sign msg key rho`, namely `k₀•G` — whether or not the key string is valid (the
    commit step does not validate it) and whether or not signing then succeeds. -/
theorem signer_commit_eq (msg32 seckey rho : Bytes) (c k0 : Nat) (hc : c < 64)
    (hinv : ∀ c', c' < c → InvalidAt msg32 seckey (S2c.hostCommit rho) c')
    (hval : ValidAt msg32 seckey (S2c.hostCommit rho) c k0)
    (hnoretry : retries ⟨S2c.tagPoint, rho⟩
      (if (Sc.setB32Seckey seckey).2 = true then (Sc.setB32Seckey seckey).1 else 1)
      (Bytes.toNat msg32 % N) k0 = false) :
    S2c.signerCommit 64 msg32 seckey (S2c.hostCommit rho) = some (Pt.mulG k0) ∧
    (S2c.sign msg32 seckey rho).opening = some (Pt.mulG k0) := by
  rw [sign_eq_signWith]
  exact signer_commit_eq_fuel 64 msg32 seckey rho c k0 hc hinv hval hnoretry

/-- Non-vacuity of `signer_commit_eq`, step 1 (the only kernel evaluation of RFC 6979 in this file): for
    message `be32 12345`, key `be32 7`, host randomness `be32 99` the candidate for counter 0 is the valid
    nonce below, so `c = 0` and the hypothesis `hinv` is void. -/
theorem ex_nonce :
    Ecdsa.rfc6979Nonce (Bytes.be32 12345) (Bytes.be32 7) none (some (S2c.hostCommit (Bytes.be32 99))) 0 =
      some (Bytes.be32 51637110390147555639876509188187713740489434758212273339531669650936732941647) := by
  decide +kernel

theorem ex_valid : ValidAt (Bytes.be32 12345) (Bytes.be32 7) (S2c.hostCommit (Bytes.be32 99)) 0
    51637110390147555639876509188187713740489434758212273339531669650936732941647 :=
  ⟨_, ex_nonce, by decide +kernel⟩

/-- step 2: the signing attempt with that nonce goes through (so it does not retry). -/
theorem ex_attemptOk : attemptOk ⟨S2c.tagPoint, Bytes.be32 99⟩ (Sc.setB32Seckey (Bytes.be32 7)).1
    (Bytes.toNat (Bytes.be32 12345) % N)
    51637110390147555639876509188187713740489434758212273339531669650936732941647 = true := by
  decide +kernel

theorem ex_key : (Sc.setB32Seckey (Bytes.be32 7)).2 = true := by decide +kernel

theorem ex_noretry : retries ⟨S2c.tagPoint, Bytes.be32 99⟩
    (if (Sc.setB32Seckey (Bytes.be32 7)).2 = true then (Sc.setB32Seckey (Bytes.be32 7)).1 else 1)
    (Bytes.toNat (Bytes.be32 12345) % N)
    51637110390147555639876509188187713740489434758212273339531669650936732941647 = false := by
  rw [if_pos ex_key]; exact retries_of_attemptOk ex_attemptOk

/-- Hence, on this instance, `signer_commit` and `s2c_sign` export the same opening. -/
example : S2c.signerCommit 64 (Bytes.be32 12345) (Bytes.be32 7) (S2c.hostCommit (Bytes.be32 99)) =
    (S2c.sign (Bytes.be32 12345) (Bytes.be32 7) (Bytes.be32 99)).opening := by
  obtain ⟨h1, h2⟩ := signer_commit_eq (Bytes.be32 12345) (Bytes.be32 7) (Bytes.be32 99) 0 _ (by decide)
    (fun c' h => absurd h (Nat.not_lt_zero _)) ex_valid ex_noretry
  rw [h1, h2]

/-- **When `ecdsa_s2c_sign` succeeds.**  If the key string is valid, `c < 64` is the first retry counter with
    a valid RFC 6979 candidate `k₀`, and the attempt with `k₀` goes through (`attemptOk`: commitment hash and
    tweaked nonce in range, `r ≠ 0`, `s ≠ 0`), then `ecdsa_s2c_sign` returns 1.  (Used to show that the
    premise of `s2c_complete` is satisfiable for the real API function with its default nonce function.) -/
theorem s2c_sign_succeeds (msg32 seckey rho : Bytes) (c k0 : Nat) (hc : c < 64)
    (hkey : (Sc.setB32Seckey seckey).2 = true)
    (hinv : ∀ c', c' < c → InvalidAt msg32 seckey (S2c.hostCommit rho) c')
    (hval : ValidAt msg32 seckey (S2c.hostCommit rho) c k0)
    (hok : attemptOk ⟨S2c.tagPoint, rho⟩ (Sc.setB32Seckey seckey).1 (Bytes.toNat msg32 % N) k0 = true) :
    (S2c.sign msg32 seckey rho).ret = 1 := by
  rw [sign_eq_signWith]
  exact signWith_ret_one 64 msg32 seckey rho c k0 hc hkey hinv hval hok

/-- Non-vacuity of `s2c_complete` for the API function with the default (RFC 6979) nonce function: on the
    instance above `ecdsa_s2c_sign` returns 1. -/
example : (S2c.sign (Bytes.be32 12345) (Bytes.be32 7) (Bytes.be32 99)).ret = 1 :=
  s2c_sign_succeeds _ _ _ 0 _ (by decide) ex_key (fun c' h => absurd h (Nat.not_lt_zero _))
    ex_valid ex_attemptOk

/-! ## 7. Host verification -/

/-- `ecdsa_s2c_verify_commit` returns 0 or 1. -/
theorem verifyCommit_ret (sig : Nat × Nat) (data32 : Bytes) (opening : Pt) :
    (S2c.verifyCommit sig data32 opening).ret = 0 ∨ (S2c.verifyCommit sig data32 opening).ret = 1 := by
  unfold S2c.verifyCommit
  cases opening with
  | inf => exact Or.inl rfl
  | aff x y =>
    simp only []
    cases Ecdsa.ecCommit S2c.tagPoint (Pt.aff x y) data32 with
    | none => exact Or.inl rfl
    | some c =>
      simp only []
      split
      · exact Or.inr rfl
      · exact Or.inl rfl

/-- **C15.7 (host verification is the conjunction).**  `anti_exfil_host_verify` returns 1 iff
    `ecdsa_s2c_verify_commit` returns 1 **and** `ecdsa_verify` returns 1 (both return 0 or 1). -/
theorem host_verify_iff (sig : Nat × Nat) (msg32 : Bytes) (pk : Pt) (rho : Bytes) (opening : Pt) :
    (S2c.hostVerify sig msg32 pk rho opening).ret = 1 ↔
      (S2c.verifyCommit sig rho opening).ret = 1 ∧ (Ecdsa.verify sig msg32 pk).ret = 1 := by
  unfold S2c.hostVerify
  simp only []
  rcases verifyCommit_ret sig rho opening with h0 | h1
  · simp [h0]
  · simp [h1]

/-- Evaluation order / callbacks: the commitment is checked first; `ecdsa_verify` runs (and may raise its
    own illegal-argument callback, for a zero public-key object) only if the commitment check returned
    non-zero; the commitment check raises the callback exactly for the zero opening object. -/
theorem host_verify_illegal (sig : Nat × Nat) (msg32 : Bytes) (pk : Pt) (rho : Bytes) (opening : Pt) :
    (S2c.hostVerify sig msg32 pk rho opening).illegal =
      (S2c.verifyCommit sig rho opening).illegal +
        (if (S2c.verifyCommit sig rho opening).ret = 0 then 0 else (Ecdsa.verify sig msg32 pk).illegal) ∧
    (S2c.verifyCommit sig rho opening).illegal = (if opening = Pt.inf then 1 else 0) := by
  constructor
  · unfold S2c.hostVerify
    simp only []
    split <;> rfl
  · unfold S2c.verifyCommit
    cases opening with
    | inf => rfl
    | aff x y => simp only [reduceCtorEq, if_false]; split <;> rfl

/-- Functionality ("same host randomness ⇒ same opening"): the model's `signer_commit` and `s2c_sign` are
    functions of their arguments only (there is no hidden state), so repeated protocol runs with the same
    message, key and host randomness give the same opening and the same signature. -/
theorem signer_commit_functional (fuel : Nat) (msg32 seckey rho rho' : Bytes) (h : rho = rho') :
    S2c.signerCommit fuel msg32 seckey (S2c.hostCommit rho) = S2c.signerCommit fuel msg32 seckey (S2c.hostCommit rho') ∧
    S2c.antiExfilSign msg32 seckey rho = S2c.antiExfilSign msg32 seckey rho' := by
  subst h; exact ⟨rfl, rfl⟩

/-- Non-vacuity: an accepted and two rejected host verifications (the instance `(exR, exS)` above). -/
example : (S2c.hostVerify (exR, exS) (Bytes.be32 12345) (Pt.mulG 7) (Bytes.be32 99) (Pt.mulG 6)).ret = 1 := by
  decide +kernel
example : (S2c.hostVerify (exR, exS) (Bytes.be32 12345) (Pt.mulG 7) (Bytes.be32 98) (Pt.mulG 6)).ret = 0 := by
  decide +kernel
example : (S2c.hostVerify (exR, exS) (Bytes.be32 12346) (Pt.mulG 7) (Bytes.be32 99) (Pt.mulG 6)).ret = 0 := by
  decide +kernel

/-! ## 8. What the commitment check looks at -/

/-- **C15.8a (the commitment check, exactly).**  `ecdsa_s2c_verify_commit (r, s) data opening` returns 1 iff
    the opening is not the zero object, `ec_commit` (opening + `H(opening, data)`•G, hash not overflowing,
    sum not at infinity) succeeds with a point `C`, and `r = x(C) mod n`. -/
theorem verify_commit_iff (sig : Nat × Nat) (data32 : Bytes) (opening : Pt) :
    (S2c.verifyCommit sig data32 opening).ret = 1 ↔
      opening ≠ Pt.inf ∧ ∃ c, Ecdsa.ecCommit S2c.tagPoint opening data32 = some c ∧ sig.1 = c.xOf % N := by
  unfold S2c.verifyCommit
  cases opening with
  | inf => simp
  | aff x y =>
    simp only [ne_eq, reduceCtorEq, not_false_eq_true, true_and]
    cases hc : Ecdsa.ecCommit S2c.tagPoint (Pt.aff x y) data32 with
    | none => simp
    | some c =>
      simp only [Option.some.injEq, exists_eq_left']
      split <;> simp [*]

/-- **C15.8 (remark as theorem): the commitment check ignores `s`.**  `ecdsa_s2c_verify_commit` depends on
    the signature only through `r`.  So "commitment verification fails for any other signature" can only
    mean signatures with a different `r`; any `(r, s')` with the same `r` — valid signature or not — passes
    the commitment check (rejecting those is the job of `ecdsa_verify`, see `host_verify_iff`). -/
theorem verify_commit_ignores_s (r s s' : Nat) (data32 : Bytes) (opening : Pt) :
    S2c.verifyCommit (r, s) data32 opening = S2c.verifyCommit (r, s') data32 opening := rfl

/-- Non-vacuity / illustration: with `s` replaced by 0 (never a valid signature) the commitment check still
    returns 1, while `host_verify` returns 0. -/
example :
    (S2c.verifyCommit (exR, 0) (Bytes.be32 99) (Pt.mulG 6)).ret = 1 ∧
    (S2c.hostVerify (exR, 0) (Bytes.be32 12345) (Pt.mulG 7) (Bytes.be32 99) (Pt.mulG 6)).ret = 0 := by
  decide +kernel

end C15
end SecpZkp
