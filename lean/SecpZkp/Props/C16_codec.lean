/-
  C16 (part "codec"): the whitelist-signature encoding and the argument checks of verification.

  * `secp256k1_whitelist_signature_parse` (`Whitelist.parse`) accepts EXACTLY the byte strings
    `n ‖ data` with `data.length = 32 * (n + 1)`; `n` is one byte, so `n ≤ 255` always holds.
  * `secp256k1_whitelist_signature_serialize` (`Whitelist.serialize`) round-trips with it and obeys
    the `*output_len` contract.
  * `secp256k1_whitelist_verify` (`Whitelist.verify`) returns 0 for an empty key list (finding F1,
    repaired), for a key-count mismatch and whenever one of the `n` scalars is zero or `≥ N`.

  All statements are for ALL byte strings / objects; nothing is bounded or sampled.
-/
import SecpZkp.Proofs.Parsers

namespace SecpZkp
namespace C16

open Whitelist

/-! ### parse -/

/-- **Exact acceptance condition of the whitelist parser.** For every byte string `bs` (any length),
`secp256k1_whitelist_signature_parse` returns 1 if and only if `bs` is non-empty, its first byte `n`
is at most 255 (`SECP256K1_WHITELIST_MAX_N_KEYS`; always true for a byte) and the total length is
exactly `1 + 32 * (n + 1)`. -/
theorem wl_parse_iff (bs : Bytes) :
    (parse bs).1 = 1 ↔
      bs ≠ [] ∧ (bs.headD 0).toNat ≤ 255 ∧ bs.length = 1 + 32 * ((bs.headD 0).toNat + 1) := by
  cases bs with
  | nil => simp [parse]
  | cons b rest =>
    have hb := Parsers.u8_toNat_lt b
    have hm : maxKeys = 255 := rfl
    simp only [parse, List.headD_cons, ne_eq, reduceCtorEq, not_false_eq_true, true_and]
    by_cases h : b.toNat > maxKeys ∨ (b :: rest).length ≠ 1 + 32 * (b.toNat + 1)
    · rw [if_pos h]; simp only [Nat.zero_ne_one, false_iff]; omega
    · rw [if_neg h]; simp only [true_iff]; omega

/-- The parser returns only 0 or 1. -/
theorem wl_parse_ret01 (bs : Bytes) : (parse bs).1 = 0 ∨ (parse bs).1 = 1 := by
  cases bs with
  | nil => simp [parse]
  | cons b rest => simp only [parse]; split <;> simp

/-- **What a successful parse produces**: the object holds `n_keys = bs[0]` and the remaining
`32 * (n_keys + 1)` bytes; a failing parse produces no signature object. -/
theorem wl_parse_result (bs : Bytes) :
    ((parse bs).1 = 1 → ∃ b rest, bs = b :: rest ∧ rest.length = 32 * (b.toNat + 1) ∧
        parse bs = (1, some b.toNat, some ⟨b.toNat, rest⟩)) ∧
    ((parse bs).1 = 0 → (parse bs).2.2 = none) := by
  cases bs with
  | nil => simp [parse]
  | cons b rest =>
    simp only [parse]
    split <;> rename_i h
    · simp
    · simp only [List.length_cons] at h
      refine ⟨fun _ => ⟨b, rest, rfl, by omega, rfl⟩, by simp⟩

/-- **The parser writes `n_keys` before checking the length** (`sig->n_keys = input[0]` is the first
statement of the C function): for every non-empty input, also a rejected one, the field is
overwritten with the first byte. Only for the empty input the object is left untouched. -/
theorem wl_parse_writes_nkeys (b : UInt8) (rest : Bytes) :
    (parse (b :: rest)).2.1 = some b.toNat := by
  simp only [parse]; split <;> rfl

/-- The two sides of `wl_parse_iff` are inhabited: a 33-byte string with count byte 0 and a 65-byte
string with count byte 1 are accepted, while the same strings one byte shorter / longer, and the
empty string, are rejected (and `n_keys` is overwritten nevertheless). -/
example : (parse (0 :: List.replicate 32 7)).1 = 1 := by decide
example : (parse (1 :: List.replicate 64 7)).1 = 1 := by decide
example : (parse (1 :: List.replicate 63 7)) = (0, some 1, none) := by decide
example : (parse (1 :: List.replicate 65 7)) = (0, some 1, none) := by decide
example : parse [] = (0, none, none) := by decide
example : (parse (255 :: List.replicate (32 * 256) 1)).1 = 1 :=
  (wl_parse_iff _).2 ⟨List.cons_ne_nil _ _, by decide,
    by simp only [List.length_cons, List.length_replicate, List.headD_cons]; decide⟩

/-! ### serialize -/

/-- **Output-length contract of `secp256k1_whitelist_signature_serialize`.** If the buffer is
shorter than `1 + 32 * (n_keys + 1)` the call returns 0, writes nothing and leaves `*output_len`
unchanged; otherwise it returns 1, writes exactly `1 + 32 * (n_keys + 1)` bytes (for an object whose
data array holds at least `32 * (n_keys + 1)` bytes; the C array has 32·256) and sets `*output_len`
to that number. -/
theorem wl_serialize_len (sig : Sig) (outputLen : Nat) :
    (outputLen < 1 + 32 * (sig.nKeys + 1) → serialize sig outputLen = (0, [], outputLen)) ∧
    (1 + 32 * (sig.nKeys + 1) ≤ outputLen →
        (serialize sig outputLen).1 = 1 ∧ (serialize sig outputLen).2.2 = 1 + 32 * (sig.nKeys + 1) ∧
        (32 * (sig.nKeys + 1) ≤ sig.data.length →
          (serialize sig outputLen).2.1.length = 1 + 32 * (sig.nKeys + 1))) := by
  refine ⟨fun h => by simp [serialize, h], fun h => ?_⟩
  have h' : ¬ outputLen < 1 + 32 * (sig.nKeys + 1) := by omega
  simp only [serialize, h', if_false, true_and]
  intro hd
  simp only [List.length_cons, List.length_take]
  omega

/-- The serializer returns only 0 or 1. -/
theorem wl_serialize_ret01 (sig : Sig) (outputLen : Nat) :
    (serialize sig outputLen).1 = 0 ∨ (serialize sig outputLen).1 = 1 := by
  simp only [serialize]; split <;> simp

example : serialize ⟨1, List.replicate 64 7⟩ 64 = (0, [], 64) := by decide
example : serialize ⟨1, List.replicate 64 7⟩ 65 = (1, 1 :: List.replicate 64 7, 65) := by decide
example : serialize ⟨1, List.replicate 64 7⟩ 100 = (1, 1 :: List.replicate 64 7, 65) := by decide

/-- **parse ∘ serialize.** Serializing the object obtained from a successful parse of `bs` into any
buffer of at least `bs.length` bytes reproduces `bs` byte for byte (and reports its length). -/
theorem wl_serialize_parse (bs : Bytes) (sig : Sig) (outputLen : Nat)
    (hp : parse bs = (1, some sig.nKeys, some sig)) (hlen : bs.length ≤ outputLen) :
    serialize sig outputLen = (1, bs, bs.length) := by
  have h1 : (parse bs).1 = 1 := by rw [hp]
  obtain ⟨b, rest, rfl, hrest, heq⟩ := (wl_parse_result bs).1 h1
  rw [heq] at hp
  have hs : sig = ⟨b.toNat, rest⟩ := by
    have := congrArg (fun t => t.2.2) hp
    simpa using this.symm
  subst hs
  simp only [List.length_cons] at hlen ⊢
  have h' : ¬ outputLen < 1 + 32 * (b.toNat + 1) := by omega
  simp only [serialize, h', if_false, UInt8.ofNat_toNat]
  rw [← hrest, List.take_length]
  simp [Nat.add_comm]

/-- **serialize ∘ parse.** For every signature object with `n_keys ≤ 255` (whose data array holds the
`32 * (n_keys + 1)` bytes that belong to it), parsing its serialization succeeds and gives back
`n_keys` and exactly those data bytes. -/
theorem wl_parse_serialize (sig : Sig) (outputLen : Nat) (hn : sig.nKeys ≤ 255)
    (hd : 32 * (sig.nKeys + 1) ≤ sig.data.length) (hlen : 1 + 32 * (sig.nKeys + 1) ≤ outputLen) :
    parse (serialize sig outputLen).2.1 =
      (1, some sig.nKeys, some ⟨sig.nKeys, sig.data.take (32 * (sig.nKeys + 1))⟩) := by
  have h' : ¬ outputLen < 1 + 32 * (sig.nKeys + 1) := by omega
  have hto : (UInt8.ofNat sig.nKeys).toNat = sig.nKeys := by
    simp only [UInt8.toNat_ofNat']; omega
  simp only [serialize, h', if_false, parse, hto, maxKeys, List.length_cons, List.length_take]
  have : ¬ (sig.nKeys > 255 ∨ min (32 * (sig.nKeys + 1)) sig.data.length + 1 ≠ 1 + 32 * (sig.nKeys + 1)) := by
    omega
  simp [this]

example : parse (serialize ⟨2, List.replicate 96 9 ++ [1, 2, 3]⟩ 200).2.1
    = (1, some 2, some ⟨2, List.replicate 96 9⟩) := by decide

/-! ### verify: argument checks -/

/-- **Finding F1 (repaired): an empty key list never verifies.** For every signature object, every
list of offline keys and every whitelisted key, `secp256k1_whitelist_verify` with `n_keys = 0` online
keys returns 0.  (Before the `fix:` commit in /repo the C function had no lower bound on `n_keys`, no
scalar was inspected, the Borromean ring check degenerated to `e0 == SHA256(msg32)`, and a 33-byte
string computable from public data alone verified; the model states the repaired behaviour:
`sig->n_keys == 0` is rejected before anything else.) -/
theorem wl_verify_empty_false : ∀ (sig : Sig) (sub : Pt), verify sig [] [] sub = 0 := by
  intro sig sub
  simp only [verify, List.length_nil]
  split
  · rfl
  · rename_i h; omega

/-- The same for an arbitrary offline list, and for any signature object claiming `n_keys = 0`,
whatever the key lists are. -/
theorem wl_verify_empty_false' (sig : Sig) (online offline : List Pt) (sub : Pt)
    (h : online = [] ∨ sig.nKeys = 0) : verify sig online offline sub = 0 := by
  simp only [verify]
  split
  · rfl
  · rename_i h'
    rcases h with h | h
    · subst h; simp only [List.length_nil] at h'; omega
    · omega

/-- The F1 forgery candidate (count byte 0 followed by 32 arbitrary bytes) still PARSES - the parser
is not where the empty ring is refused - but verification of the parsed object returns 0. -/
example : ∃ sig, parse (0 :: List.replicate 32 0xAB) = (1, some 0, some sig) ∧
    ∀ sub, verify sig [] [] sub = 0 :=
  ⟨⟨0, List.replicate 32 0xAB⟩, by decide, fun sub => wl_verify_empty_false _ sub⟩

/-- **Key-count mismatch.** If the number of keys recorded in the signature differs from the number
of online keys passed to `secp256k1_whitelist_verify`, the result is 0. -/
theorem wl_verify_count_mismatch (sig : Sig) (online offline : List Pt) (sub : Pt)
    (h : sig.nKeys ≠ online.length) : verify sig online offline sub = 0 := by
  simp only [verify]
  split
  · rfl
  · omega

example : verify ⟨2, List.replicate 96 1⟩ [Pt.G] [Pt.G] Pt.G = 0 :=
  wl_verify_count_mismatch _ _ _ _ (by decide)

/-- More than 255 keys are rejected as well. -/
theorem wl_verify_too_many (sig : Sig) (online offline : List Pt) (sub : Pt)
    (h : 255 < sig.nKeys) : verify sig online offline sub = 0 := by
  have hc : sig.nKeys = 0 ∨ sig.nKeys > maxKeys ∨ sig.nKeys ≠ online.length := by
    simp only [maxKeys]; omega
  simp only [verify, if_pos hc]

/-- The value of the `i`-th stored scalar, as the 256-bit big-endian number it is read from. -/
def scalarValue (sig : Sig) (i : Nat) : Nat := Bytes.toNat (sig.sBytes i)

/-- The scalar-reading loop of verify succeeds exactly when every scalar it looks at is in `[1, N-1]`. -/
theorem readScalars_eq_none_iff (sig : Sig) (todo i : Nat) :
    readScalars sig todo i = none ↔
      ∃ j, j < todo ∧ (scalarValue sig (i + j) = 0 ∨ N ≤ scalarValue sig (i + j)) := by
  induction todo generalizing i with
  | zero => simp [readScalars]
  | succ k ih =>
    have hiff := Parsers.setB32_bad_iff (sig.sBytes i)
    simp only [readScalars]
    by_cases hb : (Sc.setB32 (sig.sBytes i)).2 = true ∨ (Sc.setB32 (sig.sBytes i)).1 = 0
    · rw [if_pos hb]
      simp only [true_iff]
      exact ⟨0, by omega, by simpa [scalarValue] using hiff.1 hb⟩
    · rw [if_neg hb]
      have hgood : ¬ (scalarValue sig i = 0 ∨ N ≤ scalarValue sig i) := fun h => hb (hiff.2 h)
      constructor
      · intro h
        have hrec : readScalars sig k (i + 1) = none := by
          cases hr : readScalars sig k (i + 1) with
          | none => rfl
          | some r => rw [hr] at h; simp at h
        obtain ⟨j, hj, hbadj⟩ := (ih (i + 1)).1 hrec
        exact ⟨j + 1, by omega, by rwa [show i + (j + 1) = i + 1 + j by omega]⟩
      · rintro ⟨j, hj, hbadj⟩
        cases j with
        | zero => exact absurd hbadj hgood
        | succ j' =>
          have : readScalars sig k (i + 1) = none :=
            (ih (i + 1)).2 ⟨j', by omega, by rwa [show i + 1 + j' = i + (j' + 1) by omega]⟩
          rw [this]

/-- **Scalar range.** If one of the `n_keys` scalars `s_i` stored in the signature is zero or is not
below the group order `N` (as a 256-bit big-endian number), `secp256k1_whitelist_verify` returns 0,
whatever the keys are. -/
theorem wl_verify_scalar_range (sig : Sig) (online offline : List Pt) (sub : Pt) (i : Nat)
    (hi : i < sig.nKeys) (hbad : scalarValue sig i = 0 ∨ N ≤ scalarValue sig i) :
    verify sig online offline sub = 0 := by
  have hnone : readScalars sig sig.nKeys 0 = none :=
    (readScalars_eq_none_iff sig sig.nKeys 0).2 ⟨i, hi, by simpa using hbad⟩
  simp only [verify]
  split
  · rfl
  · rw [hnone]

/-- Non-vacuity: a 2-key signature whose second scalar is 0, one whose first scalar is exactly `N`,
and one whose scalars are all `0x0101…01` (in range). -/
example : (1 : Nat) < (⟨2, List.replicate 64 1 ++ List.replicate 32 0⟩ : Sig).nKeys ∧
    scalarValue ⟨2, List.replicate 64 1 ++ List.replicate 32 0⟩ 1 = 0 := by decide
example : scalarValue ⟨1, List.replicate 32 1 ++ Bytes.be32 N⟩ 0 = N := by decide +kernel
example : ¬ (scalarValue ⟨1, List.replicate 64 1⟩ 0 = 0 ∨ N ≤ scalarValue ⟨1, List.replicate 64 1⟩ 0) := by
  decide +kernel

/-- `secp256k1_whitelist_verify` returns only 0 or 1. -/
theorem wl_verify_ret01 (sig : Sig) (online offline : List Pt) (sub : Pt) :
    verify sig online offline sub = 0 ∨ verify sig online offline sub = 1 := by
  simp only [verify]
  split
  · simp
  · split
    · simp
    · split <;> simp

end C16
end SecpZkp
