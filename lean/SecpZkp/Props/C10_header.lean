/-
  C10 (part "header"): the header decoder and the guard prefix of range-proof verification.

  `Rangeproof.getHeader` models `secp256k1_rangeproof_getheader_impl`, `Rangeproof.verifyImpl` models
  `secp256k1_rangeproof_verify_impl` (src/modules/rangeproof/rangeproof_impl.h:487-681).
  Every theorem is about these model functions themselves, for ALL byte strings `proof` (and all commitments,
  generators, extra data, nonces): the rejection theorems say that ONE local defect is enough to make
  `verifyImpl` return 0, whatever all the other bytes are.

  Vocabulary (defined in `SecpZkp/Proofs/Rangeproof.lean`, all functions of the first two bytes of the proof):
  `hdrB0` byte 0, `hdrHasNz` bit 6, `hdrHasMin` bit 5, `hdrExpField` low 5 bits, `hdrMantissa` (byte 1) + 1 or 0,
  `hdrLen` 1/2/9/10, `hdrMin` the 8-byte minimum, `hdrSpan = (2^mantissa - 1) * 10^exp`,
  `vRings`, `vNpub`, `vNsign` ring layout, `digitOffset j`, `e0Offset`, `scalarOffset j`, `expectedLen`.
-/
import SecpZkp.Proofs.Rangeproof

namespace SecpZkp
namespace C10

open Rangeproof

/-! ### `secp256k1_rangeproof_getheader_impl` -/

/-- The bit tests of the header decoder in arithmetic form (for every byte value):
bit 7 clear ⇔ `< 128`; bit 6 / bit 5 set; the exponent field is the byte mod 32. -/
theorem header_bit_tests (proof : Bytes) :
    (hdrB0 proof &&& 128 = 0 ↔ hdrB0 proof < 128) ∧ (hdrHasNz proof ↔ hdrB0 proof / 64 % 2 = 1) ∧
    (hdrHasMin proof ↔ hdrB0 proof / 32 % 2 = 1) ∧ hdrExpField proof = hdrB0 proof % 32 :=
  hdr_bits (hdrB0 proof) (by unfold hdrB0; exact UInt8.toNat_lt _)

/-- **`getHeader_accepts_iff`** (C10).  For every byte string and every initial content of the output
variables (with `*offset = 0` on entry, as in every caller), `getheader_impl` returns 1 exactly when `HeaderAccepts proof` holds:
length ≥ 65, reserved bit 7 of byte 0 clear, and — if bit 6 (non-zero range) is set — exponent field ≤ 18 and
mantissa ≤ 64, and `min_value + (2^mantissa - 1) * 10^exp < 2^64` (with `min_value = 0` unless bit 5 is set,
and a zero-width range unless bit 6 is set). -/
theorem getHeader_accepts_iff (init : Header) (proof : Bytes) (hoff : init.offset = 0) :
    (getHeader init proof).ret = true ↔ HeaderAccepts proof := by
  constructor
  · intro h
    apply Classical.byContradiction
    intro hn
    rw [getHeader_reject init proof hn] at h
    exact absurd h (by simp)
  · intro h
    rw [getHeader_accept init proof hoff h]

/-- The "only if" direction needs no assumption on the initial `*offset`. -/
theorem getHeader_accepts_imp (init : Header) (proof : Bytes) (h : (getHeader init proof).ret = true) :
    HeaderAccepts proof := by
  apply Classical.byContradiction
  intro hn
  rw [getHeader_reject init proof hn] at h
  exact absurd h (by simp)

/-- **Outputs on acceptance.**  When the header is accepted (and `*offset = 0` on entry, as in every caller),
the outputs are exactly: header length, exponent (−1 for an exact-value proof), mantissa, `scale = 10^exp`,
`min_value`, and `max_value = min_value + (2^mantissa − 1)·10^exp` — all independent of the initial contents
of the output variables. -/
theorem getHeader_outputs (init : Header) (proof : Bytes) (hoff : init.offset = 0) (h : HeaderAccepts proof) :
    getHeader init proof =
      ⟨true, hdrLen proof, hdrExp proof, hdrMantissa proof, hdrScale proof, hdrMin proof,
        hdrMin proof + hdrSpan proof⟩ :=
  getHeader_accept init proof hoff h

/-- the proven range reported by an accepted header lies inside `[0, 2^64)` and `min ≤ max` -/
theorem getHeader_range (init : Header) (proof : Bytes) (hoff : init.offset = 0)
    (h : (getHeader init proof).ret = true) :
    (getHeader init proof).minValue ≤ (getHeader init proof).maxValue ∧ (getHeader init proof).maxValue < 2 ^ 64 := by
  have ha := getHeader_accepts_imp init proof h
  rw [getHeader_accept init proof hoff ha]
  exact ⟨Nat.le_add_right _ _, ha.2.2.2⟩

/-- rejects proofs shorter than 65 bytes -/
theorem getHeader_rejects_short (init : Header) (proof : Bytes) (h : proof.length < 65) :
    (getHeader init proof).ret = false :=
  getHeader_reject init proof (fun ha => by have := ha.1; omega)

/-- **rejects the reserved bit**: bit 7 of byte 0 set (byte 0 ≥ 128) ⇒ 0, whatever the other bytes are -/
theorem getHeader_rejects_reserved_bit (init : Header) (proof : Bytes) (h : 128 ≤ hdrB0 proof) :
    (getHeader init proof).ret = false :=
  getHeader_reject init proof (fun ha => by have := (header_bit_tests proof).1.1 ha.2.1; omega)

/-- **rejects an exponent above 18** (only encoded when bit 6 is set) -/
theorem getHeader_rejects_exp_gt_18 (init : Header) (proof : Bytes) (hnz : hdrHasNz proof)
    (h : 18 < hdrExpField proof) : (getHeader init proof).ret = false :=
  getHeader_reject init proof (fun ha => by have := (ha.2.2.1 hnz).1; omega)

/-- **rejects a mantissa above 64** (byte 1 ≥ 64) -/
theorem getHeader_rejects_mantissa_gt_64 (init : Header) (proof : Bytes) (hnz : hdrHasNz proof)
    (h : 64 < hdrMantissa proof) : (getHeader init proof).ret = false :=
  getHeader_reject init proof (fun ha => by have := (ha.2.2.1 hnz).2; omega)

/-- **rejects when `max_value = (2^mantissa − 1)·10^exp` overflows 2^64** -/
theorem getHeader_rejects_max_overflow (init : Header) (proof : Bytes) (h : 2 ^ 64 ≤ hdrSpan proof) :
    (getHeader init proof).ret = false :=
  getHeader_reject init proof (fun ha => by have := ha.2.2.2; omega)

/-- **rejects when `min_value + max_value` overflows 2^64** -/
theorem getHeader_rejects_sum_overflow (init : Header) (proof : Bytes) (h : 2 ^ 64 ≤ hdrMin proof + hdrSpan proof) :
    (getHeader init proof).ret = false :=
  getHeader_reject init proof (fun ha => by have := ha.2.2.2; omega)

/-! Non-vacuity of each clause (65-byte strings; the rest is zero). -/
-- accepted: exp 3, mantissa 10, min 456 (the header of the C09 example), range [456, 1023456]
example : HeaderAccepts ([0x63, 0x09, 0, 0, 0, 0, 0, 0, 0x01, 0xc8] ++ List.replicate 55 0) := by decide +kernel
example : (getHeader ⟨false, 0, 0, 0, 0, 0, 0⟩ ([0x63, 0x09, 0, 0, 0, 0, 0, 0, 0x01, 0xc8] ++ List.replicate 55 0)).maxValue
    = 1023456 := by decide +kernel
-- reserved bit
example : 128 ≤ hdrB0 ([0xe3, 0x09] ++ List.replicate 63 0) := by decide
-- exponent 19
example : hdrHasNz ([0x53, 0x09] ++ List.replicate 63 0) ∧ 18 < hdrExpField ([0x53, 0x09] ++ List.replicate 63 0) := by
  decide
-- mantissa 65
example : hdrHasNz ([0x40, 64] ++ List.replicate 63 0) ∧ 64 < hdrMantissa ([0x40, 64] ++ List.replicate 63 0) := by
  decide
-- (2^64 - 1) * 10 overflows
example : 2 ^ 64 ≤ hdrSpan ([0x41, 63] ++ List.replicate 63 0) := by decide +kernel
-- min = 2^64 - 1 plus a range of width 1 overflows, while the range alone does not
example : 2 ^ 64 ≤ hdrMin ([0x60, 0] ++ List.replicate 8 0xff ++ List.replicate 55 0) +
      hdrSpan ([0x60, 0] ++ List.replicate 8 0xff ++ List.replicate 55 0) ∧
    hdrSpan ([0x60, 0] ++ List.replicate 8 0xff ++ List.replicate 55 0) = 1 := by decide +kernel
example : (getHeader ⟨false, 0, 0, 0, 0, 0, 0⟩ ([0x60, 0] ++ List.replicate 8 0xff ++ List.replicate 55 0)).ret = false := by
  decide +kernel

/-! ### the guard prefix of `secp256k1_rangeproof_verify_impl` -/

/-- from "an accepting run satisfies X" to "¬X ⇒ returns 0" -/
private theorem ret_false_of {r : VerifyResult} {X : Prop} (h : r.ret = true → X) (hn : ¬ X) : r.ret = false := by
  cases hr : r.ret
  · rfl
  · exact absurd (h hr) hn

section
variable (nonce : Option Bytes) (mlen : Option Nat) (min0 max0 : Nat) (commit : Pt) (proof : Bytes)
  (extra : Option Bytes) (genp : Pt)

/-- the header decoded inside `verifyImpl` is the one `info`/`getHeader` computes, and the ring layout and
header length it uses are the named quantities of this file -/
theorem verify_header_bridge (h : HeaderAccepts proof) :
    vHeader min0 max0 proof =
      ⟨true, hdrLen proof, hdrExp proof, hdrMantissa proof, hdrScale proof, hdrMin proof,
        hdrMin proof + hdrSpan proof⟩ ∧
    layout (vHeader min0 max0 proof).mantissa.toNat = (vRings proof, vRsizes proof, vNpub proof) := by
  have hhd := getHeader_accept ⟨false, 0, 0, 0, 0, min0, max0⟩ proof rfl h
  refine ⟨hhd, ?_⟩
  unfold vHeader; rw [hhd]; simp [vRings, vRsizes, vNpub]

/-- `verifyImpl` rejects whenever the header decoder does (reserved bit, exponent > 18, mantissa > 64,
range overflow, length < 65). -/
theorem verify_rejects_bad_header (h : ¬ HeaderAccepts proof) :
    (verifyImpl nonce mlen min0 max0 commit proof extra genp).ret = false :=
  ret_false_of (fun hr => (verifyImpl_accept_facts nonce mlen min0 max0 commit proof extra genp hr).1) h

/-- **`verify_rejects_wrong_length`**: the proof length must be EXACTLY
`hdrLen + nsign + 32·(rings−1) + 32 + 32·npub`; any other length is rejected. -/
theorem verify_rejects_wrong_length (h : proof.length ≠ expectedLen proof) :
    (verifyImpl nonce mlen min0 max0 commit proof extra genp).ret = false :=
  ret_false_of (fun hr => (verifyImpl_accept_facts nonce mlen min0 max0 commit proof extra genp hr).2.1) h

/-- **`verify_rejects_trailing`**: bytes beyond the computed exact length ⇒ 0. -/
theorem verify_rejects_trailing (h : expectedLen proof < proof.length) :
    (verifyImpl nonce mlen min0 max0 commit proof extra genp).ret = false :=
  verify_rejects_wrong_length nonce mlen min0 max0 commit proof extra genp (by omega)

/-- Consequently no accepted proof can be extended: if `proof` verifies then `proof ++ more` does not
(for every non-empty `more`, every commitment, generator, extra data — even different ones). -/
theorem verify_rejects_extension (h : (verifyImpl nonce mlen min0 max0 commit proof extra genp).ret = true)
    (more : Bytes) (hmore : more ≠ [])
    (nonce' : Option Bytes) (mlen' : Option Nat) (min0' max0' : Nat) (commit' : Pt) (extra' : Option Bytes)
    (genp' : Pt) :
    (verifyImpl nonce' mlen' min0' max0' commit' (proof ++ more) extra' genp').ret = false := by
  obtain ⟨hacc, hlen, -⟩ := verifyImpl_accept_facts nonce mlen min0 max0 commit proof extra genp h
  apply verify_rejects_trailing
  rw [expectedLen_append proof more (by have := hacc.1; omega), ← hlen]
  have : 0 < more.length := List.length_pos_iff.2 hmore
  simp; omega

/-- … nor truncated: every strict prefix of an accepted proof is rejected. -/
theorem verify_rejects_truncation (h : (verifyImpl nonce mlen min0 max0 commit proof extra genp).ret = true)
    (n : Nat) (hn : n < proof.length)
    (nonce' : Option Bytes) (mlen' : Option Nat) (min0' max0' : Nat) (commit' : Pt) (extra' : Option Bytes)
    (genp' : Pt) :
    (verifyImpl nonce' mlen' min0' max0' commit' (proof.take n) extra' genp').ret = false := by
  obtain ⟨hacc, hlen, -⟩ := verifyImpl_accept_facts nonce mlen min0 max0 commit proof extra genp h
  by_cases h2 : 2 ≤ n
  · apply verify_rejects_wrong_length
    rw [expectedLen_take proof n h2, ← hlen]
    simp; omega
  · apply verify_rejects_bad_header
    intro ha
    have := ha.1
    simp at this; omega

/-- **`verify_rejects_spare_sign_bits`** (as the code tests it): if the number of sign bits `rings − 1` is not a
multiple of 8 and the last sign byte has any bit set at or above position `(rings − 1) mod 8`, the proof is
rejected. -/
theorem verify_rejects_spare_sign_bits
    (h1 : (vRings proof - 1) &&& 7 ≠ 0)
    (h2 : (proof.getD (hdrLen proof + vNsign proof - 1) 0).toNat >>> ((vRings proof - 1) &&& 7) ≠ 0) :
    (verifyImpl nonce mlen min0 max0 commit proof extra genp).ret = false :=
  ret_false_of (fun hr => (verifyImpl_accept_facts nonce mlen min0 max0 commit proof extra genp hr).2.2.1)
    (fun hn => hn ⟨h1, h2⟩)

/-- The same, bit by bit: sign bit `i` lives in byte `hdrLen + i/8`, bit `i mod 8`.  Bits `0 … rings−2` are the
signs of the digit commitments; EVERY other bit of the sign bytes (`rings − 1 ≤ i < 8·nsign`) must be zero. -/
theorem verify_rejects_spare_sign_bit (i : Nat) (hi1 : vRings proof - 1 ≤ i) (hi2 : i < 8 * vNsign proof)
    (hbit : (proof.getD (hdrLen proof + i / 8) 0).toNat.testBit (i % 8) = true) :
    (verifyImpl nonce mlen min0 max0 commit proof extra genp).ret = false := by
  have hk : (vRings proof - 1) &&& 7 = (vRings proof - 1) % 8 := Nat.and_two_pow_sub_one_eq_mod _ 3
  have hns : vNsign proof = (vRings proof + 6) / 8 := rfl
  by_cases hr0 : vRings proof = 0
  · -- cannot happen for an accepted header, but then the header is rejected anyway
    apply verify_rejects_bad_header
    intro ha
    have := (layout_bounds (hdrMantissa proof) (by
      by_cases hnz : hdrHasNz proof
      · exact (ha.2.2.1 hnz).2
      · simp [hdrMantissa, hnz])).1
    exact absurd hr0 (by unfold vRings; omega)
  have hdiv : i / 8 = vNsign proof - 1 := by omega
  have hmod : (vRings proof - 1) % 8 ≤ i % 8 := by omega
  apply verify_rejects_spare_sign_bits
  · omega
  · rw [hk]
    intro hz
    rw [hdiv, show hdrLen proof + (vNsign proof - 1) = hdrLen proof + vNsign proof - 1 by omega] at hbit
    generalize (proof.getD (hdrLen proof + vNsign proof - 1) 0).toNat = b at hbit hz
    rw [Nat.shiftRight_eq_div_pow] at hz
    have hb : b < 2 ^ ((vRings proof - 1) % 8) := by
      have := Nat.pow_pos (n := (vRings proof - 1) % 8) (show 0 < 2 by omega)
      exact (Nat.div_eq_zero_iff_lt this).1 hz
    have hb2 : b < 2 ^ (i % 8) := Nat.lt_of_lt_of_le hb (Nat.pow_le_pow_right (by omega) hmod)
    rw [Nat.testBit_lt_two_pow hb2] at hbit
    exact absurd hbit (by simp)

/-- **`verify_rejects_scalar_ge_N`**: if ANY of the `npub` ring scalars (32 bytes at `scalarOffset j`) encodes a
number ≥ n, the proof is rejected — no `s + n` re-encoding of a valid proof is accepted. -/
theorem verify_rejects_scalar_ge_N (j : Nat) (hj : j < vNpub proof)
    (h : N ≤ Bytes.toNat (slice32 proof (scalarOffset proof j))) :
    (verifyImpl nonce mlen min0 max0 commit proof extra genp).ret = false :=
  ret_false_of
    (fun hr => (verifyImpl_accept_facts nonce mlen min0 max0 commit proof extra genp hr).2.2.2.2 j hj)
    (by omega)

/-- **`verify_rejects_scalar_zero`**: a ring scalar equal to 0 is rejected too (by
`secp256k1_borromean_verify`, which every one of the `npub` scalars reaches unless an earlier check already
failed) — so every accepted scalar is in `[1, n−1]`. -/
theorem verify_rejects_scalar_zero (j : Nat) (hj : j < vNpub proof)
    (h : Bytes.toNat (slice32 proof (scalarOffset proof j)) = 0) :
    (verifyImpl nonce mlen min0 max0 commit proof extra genp).ret = false :=
  ret_false_of
    (fun hr => verifyImpl_accept_scalars_nonzero nonce mlen min0 max0 commit proof extra genp hr j hj)
    (fun hn => hn h)

/-- **`verify_rejects_x_ge_P`**: if ANY of the `rings − 1` digit commitments (32 bytes at `digitOffset j`) encodes a
number ≥ p, the proof is rejected — no `x + p` re-encoding is accepted. -/
theorem verify_rejects_x_ge_P (j : Nat) (hj : j < vRings proof - 1)
    (h : P ≤ Bytes.toNat (slice32 proof (digitOffset proof j))) :
    (verifyImpl nonce mlen min0 max0 commit proof extra genp).ret = false :=
  ret_false_of
    (fun hr => ((verifyImpl_accept_facts nonce mlen min0 max0 commit proof extra genp hr).2.2.2.1 j hj).1)
    (by omega)

/-- **`verify_rejects_x_off_curve`**: … or an `x` for which `x³ + 7` is not a square (`secp256k1_ge_set_xquad`
fails, i.e. there is no curve point with this x-coordinate). -/
theorem verify_rejects_x_off_curve (j : Nat) (hj : j < vRings proof - 1)
    (h : Pt.liftXQuad (Bytes.toNat (slice32 proof (digitOffset proof j))) = none) :
    (verifyImpl nonce mlen min0 max0 commit proof extra genp).ret = false :=
  ret_false_of
    (fun hr => ((verifyImpl_accept_facts nonce mlen min0 max0 commit proof extra genp hr).2.2.2.1 j hj).2)
    (fun hn => hn h)

/-- `verify` always reports the range computed by the header decoder, which (for an accepted header) is what
`secp256k1_rangeproof_info` reports for the same bytes; on success it lies in `[0, 2^64)` with `min ≤ max`. -/
theorem verify_reports_info_range (init : Header) (h : HeaderAccepts proof) :
    (verifyImpl nonce mlen min0 max0 commit proof extra genp).minValue = (info init proof).minValue ∧
    (verifyImpl nonce mlen min0 max0 commit proof extra genp).maxValue = (info init proof).maxValue ∧
    (info init proof).minValue ≤ (info init proof).maxValue ∧ (info init proof).maxValue < 2 ^ 64 := by
  obtain ⟨h1, h2⟩ := verifyImpl_range nonce mlen min0 max0 commit proof extra genp
  rw [h1, h2, (verify_header_bridge min0 max0 proof h).1]
  unfold info
  rw [getHeader_accept _ proof rfl h]
  exact ⟨rfl, rfl, Nat.le_add_right _ _, h.2.2.2⟩

end

/-! ### index safety (used by property C07) -/

/-- **Array bounds after an accepted header**: `1 ≤ rings ≤ 32` (`rsizes[32]`, `signs[31]` since only
`rings − 1 ≤ 31` signs are stored), `1 ≤ npub ≤ 128` (`pubs[128]`, `s[128]`, `evalues[128]`), the ring-size list
has `rings` entries of size 1, 2 or 4 summing to `npub`, the header is at most 10 bytes, and the `size_t`
expression `32 * (npub + rings - 1) + 32 + ((rings+6) >> 3)` is at most 5124 — far below `2^64` (and below
`2^32`), so it cannot wrap. -/
theorem header_index_safety (proof : Bytes) (h : HeaderAccepts proof) :
    1 ≤ vRings proof ∧ vRings proof ≤ 32 ∧ 1 ≤ vNpub proof ∧ vNpub proof ≤ 128 ∧
    (vRsizes proof).length = vRings proof ∧ (vRsizes proof).sum = vNpub proof ∧
    (∀ r ∈ vRsizes proof, r = 1 ∨ r = 2 ∨ r = 4) ∧
    1 ≤ hdrLen proof ∧ hdrLen proof ≤ 10 ∧ vNsign proof ≤ 4 ∧
    32 * (vNpub proof + vRings proof - 1) + 32 + ((vRings proof + 6) >>> 3) ≤ 5124 ∧
    expectedLen proof ≤ 5134 := by
  have hm : hdrMantissa proof ≤ 64 := by
    by_cases hnz : hdrHasNz proof
    · exact (h.2.2.1 hnz).2
    · simp [hdrMantissa, hnz]
  obtain ⟨b1, b2, b3, b4⟩ := layout_bounds (hdrMantissa proof) hm
  obtain ⟨-, -, l3, l4, l5⟩ := layout_spec (hdrMantissa proof)
  have hl : 1 ≤ hdrLen proof ∧ hdrLen proof ≤ 10 := by
    unfold hdrLen; split <;> split <;> omega
  have hs : (vRings proof + 6) >>> 3 = (vRings proof + 6) / 8 := by rw [Nat.shiftRight_eq_div_pow]
  rw [hs]
  unfold expectedLen e0Offset vNsign
  unfold vRings vNpub vRsizes
  exact ⟨b1, b2, b3, b4, l3, l4, l5, hl.1, hl.2, by omega, by omega, by omega⟩

/-- **Every read of `verifyImpl` is inside the proof.**  If the header is accepted and the length guard
`plen - offset < 32 * (npub + rings - 1) + 32 + ((rings+6) >> 3)` does not fire (after which the function goes
on reading), then: the header and the sign bytes lie inside the proof; the spare-sign-bit test reads a sign
byte (index ≥ header length, < length); every digit commitment `j < rings − 1` has its 32 bytes and its sign
bit (`signs[j]`, byte `j/8` of the `nsign` sign bytes) inside; `e0` and every scalar `j < npub` have their
32 bytes inside.  (`getHeader` itself reads at most the first 10 bytes of a proof of length ≥ 65.) -/
theorem verify_reads_in_bounds (proof : Bytes) (h : HeaderAccepts proof)
    (hg : ¬ (proof.length - hdrLen proof <
      32 * (vNpub proof + vRings proof - 1) + 32 + ((vRings proof + 6) >>> 3))) :
    hdrLen proof + vNsign proof ≤ proof.length ∧
    ((vRings proof - 1) &&& 7 ≠ 0 →
      hdrLen proof ≤ hdrLen proof + vNsign proof - 1 ∧ hdrLen proof + vNsign proof - 1 < proof.length) ∧
    (∀ j < vRings proof - 1, digitOffset proof j + 32 ≤ proof.length ∧ j / 8 < vNsign proof) ∧
    e0Offset proof + 32 ≤ proof.length ∧
    (∀ j < vNpub proof, scalarOffset proof j + 32 ≤ proof.length) ∧
    expectedLen proof ≤ proof.length := by
  obtain ⟨b1, b2, b3, b4, -, -, -, hl1, hl2, -, -, -⟩ := header_index_safety proof h
  have hs : (vRings proof + 6) >>> 3 = (vRings proof + 6) / 8 := by rw [Nat.shiftRight_eq_div_pow]
  rw [hs] at hg
  have hk : (vRings proof - 1) &&& 7 = (vRings proof - 1) % 8 := Nat.and_two_pow_sub_one_eq_mod _ 3
  have h65 := h.1
  unfold expectedLen scalarOffset digitOffset e0Offset vNsign
  refine ⟨by omega, fun hne => by omega, fun j hj => by omega, by omega, fun j hj => ?_, by omega⟩
  have : 32 * j + 32 ≤ 32 * vNpub proof := by omega
  omega

/-- The guard of the previous theorem is the one `verifyImpl` evaluates: when it fires, `verifyImpl` returns 0
(before any of those reads). -/
theorem verify_rejects_too_short (nonce : Option Bytes) (mlen : Option Nat) (min0 max0 : Nat) (commit : Pt)
    (proof : Bytes) (extra : Option Bytes) (genp : Pt)
    (hg : proof.length - hdrLen proof <
      32 * (vNpub proof + vRings proof - 1) + 32 + ((vRings proof + 6) >>> 3)) :
    (verifyImpl nonce mlen min0 max0 commit proof extra genp).ret = false := by
  by_cases h : HeaderAccepts proof
  · apply verify_rejects_wrong_length
    obtain ⟨b1, b2, b3, b4, -, -, -, hl1, hl2, -, -, -⟩ := header_index_safety proof h
    rw [Nat.shiftRight_eq_div_pow] at hg
    have h65 := h.1
    unfold expectedLen e0Offset vNsign
    omega
  · exact verify_rejects_bad_header nonce mlen min0 max0 commit proof extra genp h

/-! Non-vacuity: concrete byte strings satisfying the hypotheses of each rejection theorem while passing all
the EARLIER checks of the code (accepted header, exact length). -/

/-- mantissa 3, exponent 0: 2 rings (sizes 4, 2), 6 scalars, 1 sign byte; 259 bytes. -/
private def p3 (sign : UInt8) (x : Bytes) (s0 : Bytes) : Bytes :=
  [0x40, 0x02, sign] ++ x ++ List.replicate 32 1 ++ s0 ++ List.replicate 160 1

example : HeaderAccepts (p3 0 (List.replicate 32 1) (List.replicate 32 1)) ∧
    (p3 0 (List.replicate 32 1) (List.replicate 32 1)).length = expectedLen (p3 0 (List.replicate 32 1) (List.replicate 32 1)) ∧
    vRings (p3 0 (List.replicate 32 1) (List.replicate 32 1)) = 2 ∧
    vNpub (p3 0 (List.replicate 32 1) (List.replicate 32 1)) = 6 := by decide +kernel
-- trailing byte
example : expectedLen (p3 0 (List.replicate 32 1) (List.replicate 32 1) ++ [0]) <
    (p3 0 (List.replicate 32 1) (List.replicate 32 1) ++ [0]).length := by decide +kernel
-- spare sign bit 1 set (only bit 0 is a sign)
example : let p := p3 2 (List.replicate 32 1) (List.replicate 32 1)
    vRings p - 1 ≤ 1 ∧ 1 < 8 * vNsign p ∧ (p.getD (hdrLen p + 1 / 8) 0).toNat.testBit (1 % 8) = true := by
  decide +kernel
-- scalar 0 = 0xff…ff ≥ n
example : let p := p3 0 (List.replicate 32 1) (List.replicate 32 0xff)
    0 < vNpub p ∧ N ≤ Bytes.toNat (slice32 p (scalarOffset p 0)) := by decide +kernel
-- scalar 5 (the last one) = 0
example : let p := p3 0 (List.replicate 32 1) (List.replicate 32 1) |>.take 227 |>.append (List.replicate 32 0)
    p.length = expectedLen p ∧ 5 < vNpub p ∧ Bytes.toNat (slice32 p (scalarOffset p 5)) = 0 := by decide +kernel
-- digit commitment 0 = 0xff…ff ≥ p
example : let p := p3 0 (List.replicate 32 0xff) (List.replicate 32 1)
    0 < vRings p - 1 ∧ P ≤ Bytes.toNat (slice32 p (digitOffset p 0)) := by decide +kernel
-- digit commitment x = 5: no curve point
example : let p := p3 0 (List.replicate 31 0 ++ [5]) (List.replicate 32 1)
    0 < vRings p - 1 ∧ Pt.liftXQuad (Bytes.toNat (slice32 p (digitOffset p 0))) = none := by decide +kernel

end C10
end SecpZkp
