import SecpZkp.Gen.Guards
/-
  Property C11 (part "loops", translator mode G): loop facts regenerated from clang's AST of the current sources.
  Surjection-proof initialization samples subsets until one contains the output tag.
  The model runs these loops with fuel and the property theorems are about runs in which the loop finished; that the C loop
  itself has no other way out than a successful candidate (no iteration bound in its condition) is what is pinned here.
-/
namespace SecpZkp.Props.C11_loops
open SecpZkp.Gen

/-- every `while` loop of the function is unconditional (`while (1)`): it is left only from inside, by a found result -/
def retryOnly (l : List LoopFact) : Prop := (∀ f ∈ l, f.kind = LoopKind.while → f.unconditional = true) ∧ (∃ f ∈ l, f.kind = LoopKind.while)

instance (l : List LoopFact) : Decidable (retryOnly l) := by unfold retryOnly; infer_instance

/-- `secp256k1_surjectionproof_initialize` and its CSPRNG: the sampling loops have no bound in their conditions (the
    iteration limit `n_max_iterations` is an explicit return inside the body, mirrored by the model) -/
theorem initialize_retry : retryOnly Loops.surjectionproof_initialize ∧ retryOnly Loops.surjectionproof_csprng_next := by decide

example : ¬ retryOnly [⟨.while, true⟩, ⟨.for, false⟩, ⟨.while, false⟩] := by decide

end SecpZkp.Props.C11_loops
