import SecpZkp.Gen.Guards
/-! # C19 — the argument checks the model assumes are present at the C call sites (translator mode G)

`Gen.callFacts` is regenerated from clang's AST of /repo on every run (tools/c2lean_g.py): one fact per call of a
fallible primitive (range-checked field/scalar decoding, curve membership, infinity / zero tests, nested parsers)
inside the functions this property is anchored in, saying whether the call's result steers control flow
(`resultChecked`) and whether the overflow flag it writes is read before being overwritten (`flag = some true`;
`none` = the call passes NULL, i.e. reduces silently).  The executable model rejects out-of-range encodings at
exactly these places; the theorems below pin the C side to the same shape.  A fact list that no longer matches
is a broken tie (the check then searches for a failing input with the differential generators). -/
namespace SecpZkp.Props.C19_guards
open SecpZkp.Gen

/-- `secp256k1_bppp_rangeproof_norm_product_verify`: its fallible-primitive call sites are exactly these, each with its result / overflow flag
    consumed as listed. -/
theorem bppp_rangeproof_norm_product_verify_sites : Facts.bppp_rangeproof_norm_product_verify = [
    ⟨.scalar_set_b32, 1, false, some true⟩,
    ⟨.scalar_set_b32, 2, false, some true⟩,
    ⟨.scalar_is_zero, 1, true, none⟩
  ] := by decide

/-- `secp256k1_bppp_generators_parse`: its fallible-primitive call sites are exactly these, each with its result / overflow flag
    consumed as listed. -/
theorem bppp_generators_parse_sites : Facts.bppp_generators_parse = [
    ⟨.generator_parse, 1, true, none⟩
  ] := by decide

/-- `secp256k1_bppp_parse_one_of_points`: its fallible-primitive call sites are exactly these, each with its result / overflow flag
    consumed as listed. -/
theorem bppp_parse_one_of_points_sites : Facts.bppp_parse_one_of_points = [
    ⟨.memcmp_var, 1, true, none⟩,
    ⟨.ge_parse_ext, 1, true, none⟩
  ] := by decide

/-- `secp256k1_bppp_challenge_scalar`: its fallible-primitive call sites are exactly these, each with its result / overflow flag
    consumed as listed. -/
theorem bppp_challenge_scalar_sites : Facts.bppp_challenge_scalar = [
    ⟨.scalar_set_b32, 1, false, none⟩
  ] := by decide

def all : List CallFact := Facts.bppp_rangeproof_norm_product_verify ++ Facts.bppp_generators_parse ++ Facts.bppp_parse_one_of_points ++ Facts.bppp_challenge_scalar

/-- No overflow flag written by a scalar decoding in these functions is ignored (overwritten or never read). -/
theorem no_flag_dropped : ∀ f ∈ all, f.flag ≠ some false := by decide

/-- non-vacuity: the regenerated fact lists are not empty -/
example : all.length = 7 := by decide

end SecpZkp.Props.C19_guards
