import SecpZkp.Props.C01
import SecpZkp.Proofs.GroupLawProved
import SecpZkp.Proofs.GroupExtra
/-
  C01 / C02, closed forms: the theorems of `Props/C01.lean` and `Props/C02.lean` carry the group law
  (`GroupLaw`) and the square-root specification (`LiftXSpec`) as explicit hypotheses; here both are
  discharged (`groupLaw` from `Proofs/GroupLawProved.lean`, `liftXSpec` below from
  `Proofs/GroupExtra.lean`), so the statements hold with no hypothesis about the curve at all.
-/
namespace SecpZkp
namespace C01

/-- `Pt.liftX` returns exactly the point with the requested parity (completeness + uniqueness). -/
theorem liftXSpec : LiftXSpec := by
  intro x y odd h
  by_cases hp : Fe.isOdd y = odd
  · simp only [hp, if_true]
    have := liftX_of_valid h
    rwa [hp] at this
  · simp only [hp, if_false]
    have hv : (Pt.aff x (Fe.neg y)).valid = true := by
      have := valid_neg h
      simpa [Pt.neg] using this
    have hodd : Fe.isOdd (Fe.neg y) = odd := by
      rw [isOdd_neg h]
      cases ho : Fe.isOdd y <;> cases odd <;> simp_all
    have := liftX_of_valid hv
    rwa [hodd] at this

/-- ECDSA verification is exact for every signature object, message and valid public key. -/
theorem ecdsa_verify_exact (r s : Nat) (msg : Bytes) (pk : Pt) (hr : r < N) (hpk : pk.valid = true) :
    (Ecdsa.verify (r, s) msg pk).ret = 1 ↔
      ¬ Sc.isHigh s = true ∧ pk ≠ Pt.inf ∧ r ≠ 0 ∧ s ≠ 0 ∧
      verifyPoint r s (Bytes.toNat msg % N) pk ≠ Pt.inf ∧
      (verifyPoint r s (Bytes.toNat msg % N) pk).xOf % N = r :=
  ecdsa_verify_iff' groupLaw r s msg pk hr hpk

/-- Whatever `secp256k1_ecdsa_sign` returns with value 1 is low-S and verifies under the public key
    of the secret key (any message incl. values ≥ n, any nonce function, any extra data). -/
theorem ecdsa_sign_verifies_closed (msg32 seckey : Bytes) (noncefp : Option Ecdsa.NonceFn)
    (ndata : Option Bytes) (r s : Nat) (h : Ecdsa.sign msg32 seckey noncefp ndata = (1, (r, s))) :
    ¬ Sc.isHigh s = true ∧ (Keys.pubkeyCreate seckey).1 = 1 ∧
    (Ecdsa.verify (r, s) msg32 (Keys.pubkeyCreate seckey).2).ret = 1 :=
  ecdsa_sign_api_verifies groupLaw msg32 seckey noncefp ndata r s h

/-- The recoverable variant recovers exactly the signer's public key. -/
theorem ecdsa_sign_recovers_closed (msg32 seckey : Bytes) (noncefp : Option Ecdsa.NonceFn)
    (ndata : Option Bytes) (h : (Ecdsa.signRecoverable msg32 seckey noncefp ndata).ret = 1) :
    let o := Ecdsa.signRecoverable msg32 seckey noncefp ndata
    Ecdsa.recover (o.r, o.s) o.recid msg32 = (1, (Keys.pubkeyCreate seckey).2) ∧
      (Keys.pubkeyCreate seckey).1 = 1 :=
  ecdsa_sign_api_recovers groupLaw liftXSpec msg32 seckey noncefp ndata h

end C01

end SecpZkp
