import SecpZkp.Model.Context
import SecpZkp.Proofs.Algebra
import SecpZkp.Proofs.GroupLawProved
/-
  C20, clause "every result is independent of the context's randomization history".

  The only state of a context that a computation reads is the blinding of the fixed-base multiplication
  (`secp256k1_ecmult_gen_context`): a scalar offset `so`, a point offset `go` and a projective blinding
  factor.  `Context.ecmultGen c k = (k + so)·G + go`.  The blinding is correct iff the two offsets
  cancel (`Context.Balanced c : so·G + go = ∞`).  We prove that this invariant holds initially, is
  preserved by every re-blinding (the new point offset is computed WITH THE OLD context, so the proof of
  the step uses the invariant of the old context), hence holds after every finite history of context
  operations and every value of `COMB_BITS`; and that it implies `ecmultGen c k = k·G`.

  No hypothesis about the curve: the group law is `groupLaw` (`Proofs/GroupLawProved.lean`).
-/
namespace SecpZkp
namespace C20

open SecpZkp.Algebra SecpZkp.Context

/-- The complete invariant of the blinding state: scalar offset reduced, point offset a valid point, and
the two offsets cancel. -/
def Inv (c : GenCtx) : Prop := c.so < N ∧ c.go.valid = true ∧ Balanced c

section
variable [HasGroupLaw]

/-- In a balanced context the point offset is `-(so·G)`. -/
theorem go_eq_of_balanced {c : GenCtx} (hv : c.go.valid = true) (hso : c.so < N) (hb : Balanced c) :
    c.go = gmul (-(c.so : ZMod N)) := by
  unfold Balanced at hb
  rw [mulG_eq_gmul (lt_mulBound_of_lt_N hso)] at hb
  have h : gmulV (c.so : ZMod N) + (⟨c.go, hv⟩ : VPt) = 0 := Subtype.ext hb
  have h2 : (⟨c.go, hv⟩ : VPt) = -gmulV (c.so : ZMod N) := eq_neg_of_add_eq_zero_right h
  have h3 := congrArg Subtype.val h2
  simp only [VPt.neg_val] at h3
  rw [h3]
  exact neg_gmul _

/-- With the invariant, the blinded multiplication is the plain one — for EVERY scalar the double-and-add
model accepts (`k < 2^264`), in particular for every reduced scalar. -/
theorem ecmultGen_of_balanced {c : GenCtx} (hv : c.go.valid = true) (hso : c.so < N) (hb : Balanced c)
    {k : Nat} (hk : k < mulBound) : ecmultGen c k = Pt.mulG k := by
  unfold ecmultGen
  rw [go_eq_of_balanced hv hso hb, mulG_eq_gmul (lt_mulBound_of_lt_N (Sc.add_lt _ _)), cast_add,
    add_gmul, mulG_eq_gmul hk]
  exact gmul_congr (by ring)

omit [HasGroupLaw] in
/-- What `blind` returns for a non-NULL seed: offsets `(-b, ecmult_gen(old ctx, b))` for some scalar `b`
(derived from the seed and the old offset by RFC 6979). -/
theorem blind_some_shape (cb : Nat) (c : GenCtx) (s : Bytes) :
    ∃ b f, blind cb c (some s) = ⟨Sc.neg b, ecmultGen c b, f⟩ ∧ 0 < b ∧ b < N := by
  have key : ∀ x : Nat, 0 < (if x % N = 0 then 1 else x % N) ∧ (if x % N = 0 then 1 else x % N) < N := by
    intro x
    have := Nat.mod_lt x N_pos
    have := two_le_N
    split <;> omega
  unfold blind
  simp only []
  generalize Sha256.rfc6979Init _ = r0
  rcases Sha256.rfc6979Generate r0 32 with ⟨n1, r1⟩
  simp only []
  rcases Sha256.rfc6979Generate r1 32 with ⟨n2, r2⟩
  exact ⟨_, _, rfl, key _⟩

theorem inv_fresh' : Inv fresh := by
  refine ⟨lt_of_lt_of_le (by decide) two_le_N, gl.valid_neg _ gl.valid_G, ?_⟩
  show Pt.add (Pt.mulG 1) (Pt.neg Pt.G) = .inf
  rw [mulG_eq_gmul (by decide +kernel), G_eq_gmul, neg_gmul, add_gmul, Nat.cast_one]
  simp

theorem inv_blind' (cb : Nat) {c : GenCtx} (h : Inv c) (seed : Option Bytes) : Inv (blind cb c seed) := by
  obtain ⟨hso, hv, hb⟩ := h
  cases seed with
  | none => exact inv_fresh'
  | some s =>
    obtain ⟨b, f, e, hb0, hbN⟩ := blind_some_shape cb c s
    rw [e]
    have hmul : ecmultGen c b = Pt.mulG b := ecmultGen_of_balanced hv hso hb (lt_mulBound_of_lt_N hbN)
    refine ⟨Sc.neg_lt _, ?_, ?_⟩
    · show (ecmultGen c b).valid = true
      rw [hmul]; exact mulG_valid (lt_mulBound_of_lt_N hbN)
    · show Pt.add (Pt.mulG (Sc.neg b)) (ecmultGen c b) = .inf
      rw [hmul, mulG_eq_gmul (lt_mulBound_of_lt_N (Sc.neg_lt _)), mulG_eq_gmul (lt_mulBound_of_lt_N hbN),
        cast_neg, add_gmul]
      simp

theorem inv_step' (cb : Nat) {c : GenCtx} (h : Inv c) (op : Op) : Inv (step cb c op) := by
  cases op <;> first | exact h | exact inv_fresh' | exact inv_blind' cb h _

theorem inv_foldl' (cb : Nat) (ops : List Op) {c : GenCtx} (h : Inv c) :
    Inv (ops.foldl (step cb) c) := by
  induction ops generalizing c with
  | nil => exact h
  | cons op ops ih => exact ih (inv_step' cb h op)

end

/-! ### The property theorems (no hypothesis about the curve) -/

/-- **A freshly created context is balanced**: `secp256k1_ecmult_gen_context_build` installs offsets
`so = 1`, `go = -G`, which cancel (`1·G + (-G) = ∞`); the offsets are in range / a valid point. -/
theorem balanced_fresh : Balanced fresh ∧ fresh.so < N ∧ fresh.go.valid = true := by
  have : HasGroupLaw := ⟨groupLaw⟩
  obtain ⟨a, b, c⟩ := inv_fresh'
  exact ⟨c, a, b⟩

/-- Non-vacuity: the fresh context really has the offsets `(1, -G)` and they cancel by computation. -/
example : Pt.add (Pt.mulG fresh.so) fresh.go = Pt.inf := by decide +kernel

/-- **Re-blinding preserves the invariant.**  If the old context `c` is balanced (with a valid point offset
and a reduced scalar offset) then so is `blind combBits c seed`, for every `COMB_BITS`, and every seed
(32 bytes, any other length, or NULL).  The new point offset is `ecmultGen c b` — computed with the OLD
context — which equals `b·G` only because the old context is balanced; the new scalar offset is `-b`. -/
theorem balanced_blind (combBits : Nat) (c : GenCtx) (seed : Option Bytes)
    (hv : c.go.valid = true) (hb : Balanced c) (hso : c.so < N) :
    Balanced (blind combBits c seed) ∧ (blind combBits c seed).so < N ∧
      (blind combBits c seed).go.valid = true := by
  have : HasGroupLaw := ⟨groupLaw⟩
  obtain ⟨a, b, c⟩ := inv_blind' combBits ⟨hso, hv, hb⟩ seed
  exact ⟨c, a, b⟩

/-- Non-vacuity of the hypotheses of `balanced_blind`: the fresh context satisfies them, and re-blinding it
with a 32-byte seed yields offsets different from the fresh ones (so the step is not the identity). -/
example : fresh.go.valid = true ∧ Balanced fresh ∧ fresh.so < N :=
  ⟨balanced_fresh.2.2, balanced_fresh.1, balanced_fresh.2.1⟩

/-- The new point offset of a seeded re-blinding is the fixed-base multiple `b·G` of the new blinding
scalar `b` (`0 < b < N`), the new scalar offset is `-b mod N`. -/
theorem blind_offsets (combBits : Nat) (c : GenCtx) (s : Bytes)
    (hv : c.go.valid = true) (hb : Balanced c) (hso : c.so < N) :
    ∃ b, 0 < b ∧ b < N ∧ (blind combBits c (some s)).so = Sc.neg b ∧
      (blind combBits c (some s)).go = Pt.mulG b := by
  have : HasGroupLaw := ⟨groupLaw⟩
  obtain ⟨b, f, e, hb0, hbN⟩ := blind_some_shape combBits c s
  refine ⟨b, hb0, hbN, by rw [e], ?_⟩
  rw [e]
  exact ecmultGen_of_balanced hv hso hb (lt_mulBound_of_lt_N hbN)

/-- **Every reachable context is balanced**: for every `COMB_BITS` and every finite list of context
operations (create, preallocated create, clone, preallocated clone, randomize with any seed, randomize(NULL),
set/reset of the SHA-256 compression function, API calls, destroy), the blinding offsets of the resulting
context cancel, the scalar offset is reduced and the point offset is a valid point. -/
theorem balanced_run (combBits : Nat) (ops : List Op) :
    Balanced (run combBits ops) ∧ (run combBits ops).so < N ∧ (run combBits ops).go.valid = true := by
  have : HasGroupLaw := ⟨groupLaw⟩
  obtain ⟨a, b, c⟩ := inv_foldl' combBits ops inv_fresh'
  exact ⟨c, a, b⟩

/-- **History independence of the fixed-base multiplication.**  For every `COMB_BITS`, every finite history
of context operations and every scalar `k < N`, the blinded `secp256k1_ecmult_gen` of the resulting context
returns exactly `k·G` — the same value as with a fresh context or with no blinding at all. -/
theorem ecmultGen_eq (combBits : Nat) (ops : List Op) (k : Nat) (hk : k < N) :
    ecmultGen (run combBits ops) k = Pt.mulG k := by
  have : HasGroupLaw := ⟨groupLaw⟩
  obtain ⟨hb, hso, hv⟩ := balanced_run combBits ops
  exact ecmultGen_of_balanced hv hso hb (lt_mulBound_of_lt_N hk)

/-- Consequence in the form "two histories give the same result". -/
theorem ecmultGen_history_independent (cb₁ cb₂ : Nat) (ops₁ ops₂ : List Op) (k : Nat) (hk : k < N) :
    ecmultGen (run cb₁ ops₁) k = ecmultGen (run cb₂ ops₂) k := by
  rw [ecmultGen_eq cb₁ ops₁ k hk, ecmultGen_eq cb₂ ops₂ k hk]

/-- Non-vacuity: a concrete history (create, randomize with a 32-byte seed, clone, randomize(NULL),
randomize with another seed) with `COMB_BITS = 11` produces a context whose offsets differ from the fresh
ones, and the blinded multiplication of `k = 5` with it is `5·G` (evaluated by the kernel, independently of
the theorem). -/
example :
    let c := run 11 [.create, .randomize (some (Bytes.be32 7)), .clone, .randomize none,
      .randomize (some (Bytes.be32 12345))]
    c.so ≠ fresh.so ∧ c.go ≠ fresh.go ∧ ecmultGen c 5 = Pt.mulG 5 := by decide +kernel

end C20
end SecpZkp
