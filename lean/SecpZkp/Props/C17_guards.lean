import SecpZkp.Gen.Guards
/-! # C17 — the argument checks the model assumes are present at the C call sites (translator mode G)

`Gen.callFacts` is regenerated from clang's AST of /repo on every run (tools/c2lean_g.py): one fact per call of a
fallible primitive (range-checked field/scalar decoding, curve membership, infinity / zero tests, nested parsers)
inside the functions this property is anchored in, saying whether the call's result steers control flow
(`resultChecked`) and whether the overflow flag it writes is read before being overwritten (`flag = some true`;
`none` = the call passes NULL, i.e. reduces silently).  The executable model rejects out-of-range encodings at
exactly these places; the theorems below pin the C side to the same shape.  A fact list that no longer matches
is a broken tie (the check then searches for a failing input with the differential generators). -/
namespace SecpZkp.Props.C17_guards
open SecpZkp.Gen

/-- `secp256k1_schnorrsig_aggverify`: its fallible-primitive call sites are exactly these, each with its result / overflow flag
    consumed as listed. -/
theorem schnorrsig_aggverify_sites : Facts.schnorrsig_aggverify = [
    ⟨.ecmult_gen_context_is_built, 1, true, none⟩,
    ⟨.xonly_pubkey_load, 1, true, none⟩,
    ⟨.scalar_set_b32, 1, false, none⟩,
    ⟨.fe_impl_set_b32_limit, 1, true, none⟩,
    ⟨.ge_set_xo_var, 1, true, none⟩,
    ⟨.scalar_set_b32, 2, false, some true⟩,
    ⟨.gej_is_infinity, 1, true, none⟩
  ] := by decide

/-- `secp256k1_schnorrsig_inc_aggregate`: its fallible-primitive call sites are exactly these, each with its result / overflow flag
    consumed as listed. -/
theorem schnorrsig_inc_aggregate_sites : Facts.schnorrsig_inc_aggregate = [
    ⟨.scalar_set_b32, 1, false, none⟩,
    ⟨.scalar_set_b32, 2, false, none⟩,
    ⟨.scalar_set_b32, 3, false, none⟩
  ] := by decide

def all : List CallFact := Facts.schnorrsig_aggverify ++ Facts.schnorrsig_inc_aggregate

/-- No overflow flag written by a scalar decoding in these functions is ignored (overwritten or never read). -/
theorem no_flag_dropped : ∀ f ∈ all, f.flag ≠ some false := by decide

/-- non-vacuity: the regenerated fact lists are not empty -/
example : all.length = 10 := by decide

end SecpZkp.Props.C17_guards
