import SecpZkp.Gen.Statics
/-
  C20, clause "the library keeps no mutable global state".

  `Gen.writableStatics` is regenerated on every run by `tools/c2lean.py` (mode A) from the object code
  of the library compiled from /repo's current working tree with all modules: it lists every object
  that the compiler placed in a writable section (`.data*`, `.bss*`, excluding `.data.rel.ro`), with the
  functions whose machine code references it.  The theorem below is re-checked against that list.

  On the pinned tree the only writable object is the exported pointer variable
  `secp256k1_generator_h`, which no library function reads or writes.
-/
namespace SecpZkp
namespace C20

/-- No function of the library references an object with static storage duration that lives in
    writable memory: results cannot depend on, and calls cannot race on, hidden global state. -/
theorem no_mutable_global_state : ∀ o ∈ Gen.writableStatics, o.referencedBy = [] := by decide

/-- Non-vacuity / documentation: the audited list is not empty-by-accident — it sees the one
    writable object of the pinned tree. -/
example : Gen.writableStatics.map (·.name) = ["secp256k1_generator_h"] := by decide

end C20
end SecpZkp
